//! xoshiro256** seeded by splitmix64 — every random choice in the harness derives from one state.
#[derive(Clone)]
pub struct Prng {
    s: [u64; 4],
}

impl Prng {
    pub fn new(seed: u64) -> Self {
        let mut z = seed.wrapping_add(0x9E37_79B9_7F4A_7C15);
        let mut s = [0u64; 4];
        for x in s.iter_mut() {
            z = z.wrapping_add(0x9E37_79B9_7F4A_7C15);
            let mut y = z;
            y = (y ^ (y >> 30)).wrapping_mul(0xBF58_476D_1CE4_E5B9);
            y = (y ^ (y >> 27)).wrapping_mul(0x94D0_49BB_1331_11EB);
            *x = y ^ (y >> 31);
        }
        Prng { s }
    }
    pub fn next(&mut self) -> u64 {
        let r = self.s[1].wrapping_mul(5).rotate_left(7).wrapping_mul(9);
        let t = self.s[1] << 17;
        self.s[2] ^= self.s[0];
        self.s[3] ^= self.s[1];
        self.s[1] ^= self.s[2];
        self.s[0] ^= self.s[3];
        self.s[2] ^= t;
        self.s[3] = self.s[3].rotate_left(45);
        r
    }
    /// uniform in 0..n (n > 0)
    pub fn below(&mut self, n: u64) -> u64 {
        self.next() % n
    }
    pub fn range(&mut self, lo: u64, hi_incl: u64) -> u64 {
        lo + self.below(hi_incl - lo + 1)
    }
    pub fn chance(&mut self, num: u64, den: u64) -> bool {
        self.below(den) < num
    }
    pub fn pick<'a, T>(&mut self, xs: &'a [T]) -> &'a T {
        &xs[self.below(xs.len() as u64) as usize]
    }
    /// a value biased to boundaries of a `bits`-wide unsigned field
    pub fn field(&mut self, bits: u32) -> u64 {
        let max = if bits >= 64 { u64::MAX } else { (1u64 << bits) - 1 };
        match self.below(10) {
            0 => 0,
            1 => 1,
            2 => max,
            3 => max - 1,
            4 => 1u64 << self.below(bits as u64),
            5 => (max >> 1) + 1,
            6 => self.below(256),
            _ => self.next() & max,
        }
    }
    /// `field(wide)` with probability num/den, else `field(narrow)`
    pub fn wide(&mut self, num: u64, den: u64, wide: u32, narrow: u32) -> u64 {
        let b = if self.chance(num, den) { wide } else { narrow };
        self.field(b)
    }
    pub fn bytes(&mut self, n: usize) -> Vec<u8> {
        (0..n).map(|_| self.next() as u8).collect()
    }
}
