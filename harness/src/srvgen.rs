//! Request generators for the `srv` engine: structured, mostly-valid encodings per opcode
//! (written from the kernel header, independently of the library's structs), plus a mutation
//! stream.  Each well-formed request carries the call the file system is expected to see.
use crate::prng::Prng;
use crate::util::hex;

/// how many near-limit (≈1 MiB) requests may still be generated in this run (they are large
/// lines; a handful per run exercise the (1 MiB, 1 MiB + 4 KiB] window of the buffer limit)
pub static BIG_LEFT: std::sync::atomic::AtomicUsize = std::sync::atomic::AtomicUsize::new(3);

fn take_big(r: &mut Prng, num: u64, den: u64) -> bool {
    use std::sync::atomic::Ordering;
    if r.chance(num, den) && BIG_LEFT.load(Ordering::Relaxed) > 0 {
        BIG_LEFT.fetch_sub(1, Ordering::Relaxed);
        true
    } else {
        false
    }
}

pub struct Built {
    pub op: u32,
    pub body: Vec<u8>,
    /// expected file-system call: (method, args) — None when no call is expected
    pub exp: Option<(String, Vec<String>)>,
    /// answer kinds that fit this method
    pub ans: &'static [&'static str],
    /// does the protocol require a reply
    pub needs_reply: bool,
    /// needs vu_req (DAX window ops)
    pub vu: bool,
    /// replies with a payload whose size is driven by the answer (for capacity choice)
    pub tag: &'static str,
}

pub struct B {
    pub v: Vec<u8>,
}

impl B {
    pub fn new() -> Self {
        B { v: Vec::new() }
    }
    pub fn u32(&mut self, x: u64) -> u64 {
        self.v.extend_from_slice(&(x as u32).to_le_bytes());
        x & 0xffff_ffff
    }
    pub fn u64(&mut self, x: u64) -> u64 {
        self.v.extend_from_slice(&x.to_le_bytes());
        x
    }
    pub fn bytes(&mut self, b: &[u8]) {
        self.v.extend_from_slice(b);
    }
}

pub fn opt(o: Option<u64>) -> String {
    match o {
        None => "none".into(),
        Some(n) => format!("some:{}", n),
    }
}

fn tf(v: bool) -> String {
    if v { "t".into() } else { "f".into() }
}

/// a file name without NUL bytes, of a length class chosen to hit every residue mod 8
pub fn gen_name(r: &mut Prng) -> Vec<u8> {
    let big = take_big(r, 1, 300);
    let sel = if big { 0 } else { r.below(12) };
    let len = match sel {
        0 if big => (1u64 << 20) + 4096 - 40 - 16 - 1 - r.below(5000),
        0 => 0,
        1 => 1,
        2 => 255,
        3 => 256,
        4 => r.range(1000, 5000),
        5 => r.range(7, 9),
        _ => r.range(1, 40),
    } as usize;
    (0..len)
        .map(|_| match r.below(20) {
            0 => b'/',
            1 => b'.',
            2 => 0xff,
            _ => r.range(1, 255) as u8,
        })
        .collect()
}

fn x(b: &[u8]) -> String {
    format!("x{}", hex(b))
}

pub const ALL_OPS: &[u32] = &[
    1, 2, 3, 4, 5, 6, 8, 9, 10, 11, 12, 13, 14, 15, 16, 17, 18, 20, 21, 22, 23, 24, 25, 26, 27, 28, 29,
    30, 31, 32, 33, 34, 35, 36, 37, 38, 39, 40, 41, 42, 43, 44, 45, 46, 47, 48, 49,
];

/// Build a well-formed request body for `op` with random field values; `nodeid` is the header's.
pub fn build(op: u32, nodeid: u64, r: &mut Prng) -> Built {
    let mut b = B::new();
    let n = nodeid.to_string();
    let mut out = Built { op, body: vec![], exp: None, ans: &["unit"], needs_reply: true, vu: false, tag: "" };
    let e = |m: &str, a: Vec<String>| Some((m.to_string(), a));
    match op {
        1 | 10 | 11 | 24 => {
            let nm = gen_name(r);
            b.bytes(&nm);
            b.bytes(&[0]);
            let m = match op { 1 => "lookup", 10 => "unlink", 11 => "rmdir", _ => "removexattr" };
            out.exp = e(m, vec![n, x(&nm)]);
            out.ans = if op == 1 { &["entry"] } else { &["unit"] };
        }
        2 => {
            let c = b.u64(r.field(64));
            out.exp = e("forget", vec![n, c.to_string()]);
            out.needs_reply = false;
        }
        3 => {
            let flags = b.u32(r.field(32));
            b.u32(r.field(32));
            let fh = b.u64(r.field(64));
            out.exp = e("getattr", vec![n, opt(if flags & 1 != 0 { Some(fh) } else { None })]);
            out.ans = &["attr"];
        }
        4 => {
            let valid = b.u32(if r.chance(1, 3) { r.field(32) } else { r.below(0x1000) });
            b.u32(r.field(32));
            let fh = b.u64(r.field(64));
            let size = b.u64(r.field(64));
            b.u64(r.field(64)); // lock_owner
            let atime = b.u64(r.field(64));
            let mtime = b.u64(r.field(64));
            let ctime = b.u64(r.field(64));
            let ans = b.u32(r.field(32));
            let mns = b.u32(r.field(32));
            let cns = b.u32(r.field(32));
            let mode = b.u32(r.field(32));
            b.u32(r.field(32));
            let uid = b.u32(r.field(32));
            let gid = b.u32(r.field(32));
            b.u32(r.field(32));
            let st = format!("st[0,{},0,{},{},{},{},{},{},{},0,{},{},0,0]", size, atime, mtime, ctime, ans, mns, cns, mode, uid, gid);
            let mask = 0x1 | 0x2 | 0x4 | 0x8 | 0x10 | 0x20 | 0x80 | 0x100 | 0x400 | 0x800;
            out.exp = e("setattr", vec![n, st, opt(if valid & 0x40 != 0 { Some(fh) } else { None }), (valid & mask).to_string()]);
            out.ans = &["attr"];
        }
        5 => {
            out.exp = e("readlink", vec![n]);
            out.ans = &["data"];
            out.tag = "data";
        }
        6 => {
            let nm = gen_name(r);
            let ln = gen_name(r);
            b.bytes(&nm);
            b.bytes(&[0]);
            b.bytes(&ln);
            b.bytes(&[0]);
            out.exp = e("symlink", vec![x(&ln), n, x(&nm)]);
            out.ans = &["entry"];
        }
        8 => {
            let mode = b.u32(r.field(32));
            let rdev = b.u32(r.field(32));
            let umask = b.u32(r.field(32));
            b.u32(r.field(32));
            let nm = gen_name(r);
            b.bytes(&nm);
            b.bytes(&[0]);
            out.exp = e("mknod", vec![n, x(&nm), mode.to_string(), rdev.to_string(), umask.to_string()]);
            out.ans = &["entry"];
        }
        9 => {
            let mode = b.u32(r.field(32));
            let umask = b.u32(r.field(32));
            let nm = gen_name(r);
            b.bytes(&nm);
            b.bytes(&[0]);
            out.exp = e("mkdir", vec![n, x(&nm), mode.to_string(), umask.to_string()]);
            out.ans = &["entry"];
        }
        12 | 45 => {
            let newdir = b.u64(r.field(64));
            let mut flags = 0;
            if op == 45 {
                let f = b.u32(if r.chance(1, 2) { r.below(8) } else { r.field(32) });
                b.u32(r.field(32));
                flags = f & 7;
            }
            let o = gen_name(r);
            let nw = gen_name(r);
            b.bytes(&o);
            b.bytes(&[0]);
            b.bytes(&nw);
            b.bytes(&[0]);
            out.exp = e("rename", vec![n, x(&o), newdir.to_string(), x(&nw), flags.to_string()]);
        }
        13 => {
            let old = b.u64(r.field(64));
            let nm = gen_name(r);
            b.bytes(&nm);
            b.bytes(&[0]);
            out.exp = e("link", vec![old.to_string(), n, x(&nm)]);
            out.ans = &["entry"];
        }
        14 => {
            let f = b.u32(r.field(32));
            let ff = b.u32(r.field(32));
            out.exp = e("open", vec![n, f.to_string(), ff.to_string()]);
            out.ans = &["opened"];
        }
        15 => {
            let fh = b.u64(r.field(64));
            let off = b.u64(r.field(64));
            let size = b.u32(r.field(32));
            let rf = b.u32(if r.chance(1, 2) { r.below(4) } else { r.field(32) });
            let lo = b.u64(r.field(64));
            let fl = b.u32(r.field(32));
            b.u32(r.field(32));
            out.exp = e("read", vec![n, fh.to_string(), size.to_string(), off.to_string(), opt(if rf & 2 != 0 { Some(lo) } else { None }), fl.to_string()]);
            out.ans = &["data"];
            out.tag = "read";
        }
        16 => {
            let fh = b.u64(r.field(64));
            let off = b.u64(r.field(64));
            // rarely: a payload at the negotiated maximum (1 MiB) and just below it, so that the
            // whole request lies in the (1 MiB, 1 MiB + 4 KiB] window of the buffer limit
            let plen = if take_big(r, 1, 40) { (1u64 << 20) - r.below(3) * r.below(4000) }
                       else { match r.below(8) { 0 => 0, 1 => 1, 2 => r.range(4000, 5000), _ => r.range(1, 300) } };
            let size = b.u32(plen);
            let ff = b.u32(if r.chance(1, 2) { r.below(8) } else { r.field(32) });
            let lo = b.u64(r.field(64));
            let fl = b.u32(r.field(32));
            b.u32(r.field(32));
            let payload = r.bytes(plen as usize);
            b.bytes(&payload);
            out.exp = e("write", vec![n, fh.to_string(), x(&payload), size.to_string(), off.to_string(),
                opt(if ff & 2 != 0 { Some(lo) } else { None }), tf(ff & 1 != 0), fl.to_string(), ff.to_string()]);
            out.ans = &["count"];
        }
        17 => {
            out.exp = e("statfs", vec![n]);
            out.ans = &["statfs"];
        }
        18 => {
            let fh = b.u64(r.field(64));
            let fl = b.u32(r.field(32));
            let rf = b.u32(if r.chance(1, 2) { r.below(4) } else { r.field(32) });
            let lo = b.u64(r.field(64));
            let flush = rf & 1 != 0;
            let flock = rf & 2 != 0;
            out.exp = e("release", vec![n, fl.to_string(), fh.to_string(), tf(flush), tf(flock), opt(if flush || flock { Some(lo) } else { None })]);
        }
        20 | 30 => {
            let fh = b.u64(r.field(64));
            let ff = b.u32(if r.chance(1, 2) { r.below(4) } else { r.field(32) });
            b.u32(r.field(32));
            out.exp = e(if op == 20 { "fsync" } else { "fsyncdir" }, vec![n, tf(ff & 1 != 0), fh.to_string()]);
        }
        21 => {
            let nm = gen_name(r);
            let vlen = match r.below(6) { 0 => 0, 1 => 1, _ => r.range(1, 200) } as usize;
            let val = r.bytes(vlen);
            b.u32(vlen as u64);
            let fl = b.u32(r.field(32));
            b.bytes(&nm);
            b.bytes(&[0]);
            b.bytes(&val);
            out.exp = e("setxattr", vec![n, x(&nm), x(&val), fl.to_string()]);
        }
        22 => {
            let size = b.u32(r.field(32));
            b.u32(r.field(32));
            let nm = gen_name(r);
            b.bytes(&nm);
            b.bytes(&[0]);
            out.exp = e("getxattr", vec![n, x(&nm), size.to_string()]);
            out.ans = &["data", "count"];
            out.tag = "data";
        }
        23 => {
            let size = b.u32(r.field(32));
            b.u32(r.field(32));
            out.exp = e("listxattr", vec![n, size.to_string()]);
            out.ans = &["data", "count"];
            out.tag = "data";
        }
        25 => {
            let fh = b.u64(r.field(64));
            b.u32(r.field(32));
            b.u32(r.field(32));
            let lo = b.u64(r.field(64));
            out.exp = e("flush", vec![n, fh.to_string(), lo.to_string()]);
        }
        26 => {
            // INIT is generated by gen_init (needs protocol-level structure); here: 7.x with flags
            let minor = *r.pick(&[0u64, 3, 4, 5, 22, 23, 31, 35, 36, 38, 40]);
            let major = if r.chance(1, 6) { *r.pick(&[0u64, 6, 8, 9, u32::MAX as u64]) } else { 7 };
            b.u32(major);
            b.u32(minor);
            b.u32(r.field(32));
            let ext = r.chance(1, 2);
            let mut flags = r.field(32);
            if ext { flags |= 0x4000_0000 } else { flags &= !0x4000_0000 }
            b.u32(flags);
            let mut cap = flags;
            if ext {
                if r.chance(3, 4) {
                    let f2 = b.u32(r.field(32));
                    for _ in 0..11 { b.u32(r.field(32)); }
                    cap |= f2 << 32;
                } else {
                    cap &= !0x4000_0000;
                }
            }
            let all: u64 = 0x1fff_ffff | 0x4000_0000 | 0x2_0000_0000 | (1 << 39) | (1 << 63);
            out.exp = if major == 7 { Some(("init".into(), vec![(cap & all).to_string()])) } else { None };
            out.ans = &["want"];
            out.tag = "init";
        }
        27 => {
            let f = b.u32(r.field(32));
            b.u32(r.field(32));
            out.exp = e("opendir", vec![n, f.to_string()]);
            out.ans = &["opened"];
        }
        28 | 44 => {
            let fh = b.u64(r.field(64));
            let off = b.u64(r.field(64));
            let size = b.u32(match r.below(6) { 0 => 0, 1 => r.below(64), 2 => r.range(4000, 4200), _ => r.range(24, 1500) });
            b.u32(r.field(32));
            b.u64(r.field(64));
            b.u32(r.field(32));
            b.u32(r.field(32));
            out.exp = e(if op == 28 { "readdir" } else { "readdirplus" }, vec![n, fh.to_string(), size.to_string(), off.to_string()]);
            out.ans = &["dirents"];
            out.tag = "dir";
        }
        29 => {
            let fh = b.u64(r.field(64));
            let fl = b.u32(r.field(32));
            b.u32(r.field(32));
            b.u64(r.field(64));
            out.exp = e("releasedir", vec![n, fl.to_string(), fh.to_string()]);
        }
        31..=33 => {
            let fh = b.u64(r.field(64));
            let owner = b.u64(r.field(64));
            let s = b.u64(r.field(64));
            let en = b.u64(r.field(64));
            let ty = b.u32(r.field(32));
            let pid = b.u32(r.field(32));
            let lf = b.u32(r.field(32));
            b.u32(r.field(32));
            let m = match op { 31 => "getlk", 32 => "setlk", _ => "setlkw" };
            out.exp = e(m, vec![n, fh.to_string(), owner.to_string(), format!("lk[{},{},{},{}]", s, en, ty, pid), lf.to_string()]);
            out.ans = if op == 31 { &["lock"] } else { &["unit"] };
        }
        34 => {
            let m = b.u32(r.field(32));
            b.u32(r.field(32));
            out.exp = e("access", vec![n, m.to_string()]);
        }
        35 => {
            let f = b.u32(r.field(32));
            let mode = b.u32(r.field(32));
            let um = b.u32(r.field(32));
            let ff = b.u32(r.field(32));
            let nm = gen_name(r);
            b.bytes(&nm);
            b.bytes(&[0]);
            out.exp = e("create", vec![n, x(&nm), format!("cr[{},{},{},{}]", f, mode, um, ff)]);
            out.ans = &["created"];
        }
        36 => {
            b.u64(r.field(64));
            out.needs_reply = false;
        }
        37 => {
            let blk = b.u64(r.field(64));
            let bs = b.u32(r.field(32));
            b.u32(r.field(32));
            out.exp = e("bmap", vec![n, blk.to_string(), bs.to_string()]);
            out.ans = &["count"];
        }
        38 => {
            out.exp = Some(("destroy".into(), vec![]));
        }
        39 => {
            let fh = b.u64(r.field(64));
            let fl = b.u32(r.field(32));
            let cmd = b.u32(r.field(32));
            b.u64(r.field(64));
            let dlen = match r.below(5) { 0 => 0, 1 => 1, _ => r.range(1, 100) } as usize;
            b.u32(dlen as u64);
            let os = b.u32(r.field(32));
            let d = r.bytes(dlen);
            b.bytes(&d);
            out.exp = e("ioctl", vec![n, fh.to_string(), fl.to_string(), cmd.to_string(),
                if dlen > 0 { "some:1".into() } else { "none".into() }, x(&d), os.to_string()]);
            out.ans = &["ioctl"];
            out.tag = "data";
        }
        40 => {
            let fh = b.u64(r.field(64));
            let kh = b.u64(r.field(64));
            let fl = b.u32(r.field(32));
            let ev = b.u32(r.field(32));
            out.exp = e("poll", vec![n, fh.to_string(), kh.to_string(), fl.to_string(), ev.to_string()]);
            out.ans = &["count"];
        }
        41 => {
            out.exp = Some(("notify_reply".into(), vec![]));
            out.needs_reply = false;
        }
        42 => {
            let cnt = match r.below(6) { 0 => 0, 1 => 1, _ => r.range(1, 40) };
            b.u32(cnt);
            b.u32(r.field(32));
            let mut l = Vec::new();
            for _ in 0..cnt {
                let a = b.u64(r.field(64));
                let c = b.u64(r.field(64));
                l.push(format!("{}:{}", a, c));
            }
            out.exp = e("batch_forget", vec![format!("p[{}]", l.join(","))]);
            out.needs_reply = false;
        }
        43 => {
            let fh = b.u64(r.field(64));
            let off = b.u64(r.field(64));
            let len = b.u64(r.field(64));
            let mode = b.u32(r.field(32));
            b.u32(r.field(32));
            out.exp = e("fallocate", vec![n, fh.to_string(), mode.to_string(), off.to_string(), len.to_string()]);
        }
        46 => {
            let fh = b.u64(r.field(64));
            let off = b.u64(r.field(64));
            let wh = b.u32(r.field(32));
            b.u32(r.field(32));
            out.exp = e("lseek", vec![n, fh.to_string(), off.to_string(), wh.to_string()]);
            out.ans = &["count"];
        }
        48 => {
            let fh = b.u64(r.field(64));
            let fo = b.u64(r.field(64));
            let len = b.u64(r.field(64));
            let fl = b.u64(r.field(64));
            let mo = b.u64(r.field(64));
            out.exp = e("setupmapping", vec![n, fh.to_string(), fo.to_string(), len.to_string(), fl.to_string(), mo.to_string()]);
            out.vu = true;
        }
        49 => {
            let cnt = match r.below(5) { 0 => 0, 1 => 1, _ => r.range(1, 20) };
            b.u32(cnt);
            let mut l = Vec::new();
            for _ in 0..cnt {
                let a = b.u64(r.field(64));
                let c = b.u64(r.field(64));
                l.push(format!("{}:{}", a, c));
            }
            out.exp = e("removemapping", vec![n, format!("p[{}]", l.join(","))]);
            out.vu = true;
        }
        _ => {
            // 47 (COPY_FILE_RANGE) and holes: no handler, ENOSYS expected, no fs call
            let k = r.below(64) as usize;
            b.bytes(&r.bytes(k));
        }
    }
    out.body = b.v;
    out
}

pub fn header(len: u32, op: u32, unique: u64, nodeid: u64, uid: u32, gid: u32, pid: u32, pad: u32) -> Vec<u8> {
    let mut v = Vec::with_capacity(40);
    v.extend_from_slice(&len.to_le_bytes());
    v.extend_from_slice(&op.to_le_bytes());
    v.extend_from_slice(&unique.to_le_bytes());
    v.extend_from_slice(&nodeid.to_le_bytes());
    v.extend_from_slice(&uid.to_le_bytes());
    v.extend_from_slice(&gid.to_le_bytes());
    v.extend_from_slice(&pid.to_le_bytes());
    v.extend_from_slice(&pad.to_le_bytes());
    v
}

fn stat_fields(r: &mut Prng) -> String {
    format!("st_ino={} st_size={} st_blocks={} st_atime={} st_mtime={} st_ctime={} st_atimensec={} st_mtimensec={} st_ctimensec={} st_mode={} st_nlink={} st_uid={} st_gid={} st_rdev={} st_blksize={}",
        r.field(64), r.field(64), r.field(64), r.field(64), r.field(64), r.field(64),
        r.wide(1, 5, 64, 30), r.wide(1, 5, 64, 30), r.wide(1, 5, 64, 30), r.field(32), r.wide(1, 5, 64, 32),
        r.field(32), r.field(32), r.wide(1, 5, 64, 32), r.wide(1, 5, 63, 32))
}

fn entry_fields(r: &mut Prng) -> String {
    format!("e_ino={} e_gen={} e_flags={} e_asec={} e_ansec={} e_esec={} e_ensec={} {}",
        if r.chance(1, 8) { 0 } else { r.field(64) }, r.field(64), r.field(32), r.field(60), r.below(1_000_000_000),
        r.field(60), r.below(1_000_000_000), stat_fields(r))
}

fn optn(r: &mut Prng, bits: u32) -> String {
    if r.chance(1, 4) { "none".into() } else { r.field(bits).to_string() }
}

/// tokens describing the scripted answer of kind `kind`
pub fn gen_answer(kind: &str, tag: &str, op: u32, r: &mut Prng) -> String {
    match kind {
        "unit" => "ans=unit".into(),
        "entry" => format!("ans=entry {}", entry_fields(r)),
        "attr" => format!("ans=attr t_sec={} t_nsec={} {}", r.field(60), r.below(1_000_000_000), stat_fields(r)),
        "data" => {
            let n = match r.below(8) { 0 => 0, 1 => 1, 2 => r.range(4000, 4200), 3 => r.range(60, 70), _ => r.range(1, 300) } as usize;
            let _ = (tag, op);
            format!("ans=data data={}", hex(&r.bytes(n)))
        }
        "opened" => format!("ans=opened fh={} opts={} pt={}", optn(r, 64), r.field(32), optn(r, 32)),
        "created" => format!("ans=created fh={} opts={} pt={} {}", optn(r, 64), r.field(32), optn(r, 32), entry_fields(r)),
        "count" => format!("ans=count count={}", r.field(64)),
        "statfs" => format!("ans=statfs sv_blocks={} sv_bfree={} sv_bavail={} sv_files={} sv_ffree={} sv_bsize={} sv_namemax={} sv_frsize={}",
            r.field(64), r.field(64), r.field(64), r.field(64), r.field(64), r.wide(1, 4, 64, 32), r.wide(1, 4, 64, 32), r.wide(1, 4, 64, 32)),
        "lock" => format!("ans=lock lk_start={} lk_end={} lk_type={} lk_pid={}", r.field(64), r.field(64), r.field(32), r.field(32)),
        "ioctl" => {
            let d = if r.chance(1, 3) { "none".to_string() } else { let k = r.below(80) as usize; hex(&r.bytes(k)) };
            format!("ans=ioctl io_res={} io_data={}", r.field(32), d)
        }
        "want" => {
            let all: u64 = 0x1fff_ffff | 0x4000_0000 | 0x2_0000_0000 | (1 << 39) | (1 << 63);
            let w = match r.below(6) { 0 => 0, 1 => all, 2 => u64::MAX, 3 => 1u64 << r.below(64), _ => r.next() & if r.chance(1, 2) { all } else { u64::MAX } };
            format!("ans=want want={}", w)
        }
        "dirents" => {
            let n = match r.below(6) { 0 => 0, 1 => 1, _ => r.range(1, 12) };
            let mut items = Vec::new();
            for i in 0..n {
                let nl = match r.below(10) { 0 => 0, 1 => 255, 2 => r.range(1, 8), _ => r.range(1, 40) } as usize;
                let nm: Vec<u8> = (0..nl).map(|_| r.range(1, 255) as u8).collect();
                items.push(format!("{}:{}:{}:{}", hex(&nm), r.field(64), if r.chance(1, 10) { r.field(64) } else { i + 1 }, r.below(16)));
            }
            format!("ans=dirents prop={} ents={} {}", r.below(2), items.join(","), entry_fields(r))
        }
        _ => "ans=none".into(),
    }
}

pub fn gen_error(r: &mut Prng) -> String {
    if r.chance(1, 4) {
        let k = *r.pick(&["PermissionDenied", "NotFound", "Interrupted", "AlreadyExists", "WouldBlock", "InvalidInput", "InvalidData", "TimedOut", "Other", "UnexpectedEof", "WriteZero"]);
        format!("ans=errkind kind={}", k)
    } else {
        let e = match r.below(10) { 0 => 1, 1 => 4095, 2 => 38, 3 => 2, _ => r.range(1, 133) };
        format!("ans=err errno={}", e)
    }
}
