//! hex, argument parsing, output files
use std::collections::{BTreeMap, BTreeSet};
use std::fs::File;
use std::io::{BufWriter, Write};

pub fn hex(b: &[u8]) -> String {
    let mut s = String::with_capacity(b.len() * 2);
    for x in b {
        s.push_str(&format!("{:02x}", x));
    }
    s
}

pub fn unhex(s: &str) -> Vec<u8> {
    (0..s.len() / 2)
        .map(|i| u8::from_str_radix(&s[2 * i..2 * i + 2], 16).unwrap())
        .collect()
}

/// `--key value` pairs
pub fn args() -> BTreeMap<String, String> {
    let a: Vec<String> = std::env::args().collect();
    let mut m = BTreeMap::new();
    let mut i = 1;
    while i < a.len() {
        if let Some(k) = a[i].strip_prefix("--") {
            let v = a.get(i + 1).cloned().unwrap_or_default();
            m.insert(k.to_string(), v);
            i += 2;
        } else {
            i += 1;
        }
    }
    m
}

// ---- breadcrumbs: which case was running when the process died (abort, SIGSEGV, ...) ----
//
// `crumb(line)` copies the case line into a per-thread memory-mapped file `<out>/crumb.<k>`
// (no system call per case); the mapping is MAP_SHARED, so its contents survive an abort of the
// process.  `Out::finish` removes the files; `./check` reads what is left of them when a stage
// was killed by a signal and re-runs each candidate alone to confirm it.
static CRUMB_DIR: std::sync::OnceLock<String> = std::sync::OnceLock::new();
static CRUMB_SEQ: std::sync::atomic::AtomicUsize = std::sync::atomic::AtomicUsize::new(0);
const CRUMB_CAP: usize = 1 << 22;
thread_local! {
    static CRUMB: std::cell::Cell<*mut u8> = const { std::cell::Cell::new(std::ptr::null_mut()) };
}

static CRUMB_TICKS: std::sync::atomic::AtomicU64 = std::sync::atomic::AtomicU64::new(0);

/// For harnesses that leave a breadcrumb before every request: abort the process when no
/// breadcrumb has been written for `limit_secs` (a request that never returns — e.g. an open of a
/// FIFO that should have been refused — is then reported with its input like any other process death).
pub fn watchdog(limit_secs: u64) {
    std::thread::spawn(move || {
        let mut last = CRUMB_TICKS.load(std::sync::atomic::Ordering::Relaxed);
        let mut idle = 0u64;
        loop {
            std::thread::sleep(std::time::Duration::from_secs(1));
            let now = CRUMB_TICKS.load(std::sync::atomic::Ordering::Relaxed);
            if now == last {
                idle += 1;
                if idle >= limit_secs {
                    eprintln!("watchdog: no request completed for {} s, aborting", limit_secs);
                    unsafe { libc::abort() };
                }
            } else {
                idle = 0;
                last = now;
            }
        }
    });
}

pub fn crumb(line: &str) {
    CRUMB_TICKS.fetch_add(1, std::sync::atomic::Ordering::Relaxed);
    let dir = match CRUMB_DIR.get() {
        Some(d) => d,
        None => return,
    };
    let mut p = CRUMB.with(|c| c.get());
    if p.is_null() {
        let k = CRUMB_SEQ.fetch_add(1, std::sync::atomic::Ordering::SeqCst);
        let path = std::ffi::CString::new(format!("{}/crumb.{}", dir, k)).unwrap();
        unsafe {
            let fd = libc::open(path.as_ptr(), libc::O_RDWR | libc::O_CREAT | libc::O_TRUNC, 0o644);
            if fd < 0 || libc::ftruncate(fd, CRUMB_CAP as libc::off_t) != 0 {
                return;
            }
            let m = libc::mmap(std::ptr::null_mut(), CRUMB_CAP, libc::PROT_READ | libc::PROT_WRITE, libc::MAP_SHARED, fd, 0);
            libc::close(fd);
            if m == libc::MAP_FAILED {
                return;
            }
            p = m as *mut u8;
        }
        CRUMB.with(|c| c.set(p));
    }
    let b = line.as_bytes();
    let n = b.len().min(CRUMB_CAP - 2);
    unsafe {
        std::ptr::copy_nonoverlapping(b.as_ptr(), p, n);
        *p.add(n) = b'\n';
        *p.add(n + 1) = 0;
    }
}

/// Output directory layout shared by every engine:
///   cases.txt   one case per line (input of the Lean driver)
///   impl.out    the implementation's canonical output, line i for case i
///   oracle.jsonl direct-oracle failures: {"key","case","what"}
///   stats.json  input distribution
pub struct Out {
    pub cases: BufWriter<File>,
    pub impl_out: BufWriter<File>,
    pub oracle: BufWriter<File>,
    pub dir: String,
    pub n_cases: u64,
    pub n_oracle: u64,
    pub stats: BTreeMap<String, u64>,
    /// distinct non-trivial behaviour classes seen (engine-defined tag per case)
    pub classes: BTreeSet<String>,
}

impl Out {
    pub fn new(dir: &str) -> Self {
        std::fs::create_dir_all(dir).unwrap();
        let _ = CRUMB_DIR.set(dir.to_string());
        let f = |n: &str| BufWriter::new(File::create(format!("{}/{}", dir, n)).unwrap());
        Out {
            cases: f("cases.txt"),
            impl_out: f("impl.out"),
            oracle: f("oracle.jsonl"),
            dir: dir.to_string(),
            n_cases: 0,
            n_oracle: 0,
            stats: BTreeMap::new(),
            classes: BTreeSet::new(),
        }
    }
    pub fn case(&mut self, case_line: &str, impl_line: &str) {
        debug_assert!(!case_line.contains('\n') && !impl_line.contains('\n'));
        writeln!(self.cases, "{}", case_line).unwrap();
        writeln!(self.impl_out, "{}", impl_line).unwrap();
        self.n_cases += 1;
    }
    pub fn oracle_fail(&mut self, key: &str, case_line: &str, what: &str) {
        let v = serde_json::json!({"key": key, "case": case_line, "what": what});
        writeln!(self.oracle, "{}", v).unwrap();
        self.n_oracle += 1;
    }
    /// record the behaviour class of a non-trivial case (counted once per distinct tag)
    pub fn class(&mut self, tag: &str) {
        if !self.classes.contains(tag) {
            self.classes.insert(tag.to_string());
        }
    }
    pub fn stat(&mut self, k: &str) {
        *self.stats.entry(k.to_string()).or_default() += 1;
    }
    pub fn stat_n(&mut self, k: &str, n: u64) {
        *self.stats.entry(k.to_string()).or_default() += n;
    }
    pub fn finish(mut self) {
        self.cases.flush().unwrap();
        self.impl_out.flush().unwrap();
        self.oracle.flush().unwrap();
        let v = serde_json::json!({"cases": self.n_cases, "oracle_failures": self.n_oracle, "dist": self.stats,
            "distinct_nontrivial": self.classes.len()});
        std::fs::write(format!("{}/stats.json", self.dir), serde_json::to_string_pretty(&v).unwrap()).unwrap();
        if let Ok(rd) = std::fs::read_dir(&self.dir) {
            for e in rd.flatten() {
                if e.file_name().to_string_lossy().starts_with("crumb.") {
                    let _ = std::fs::remove_file(e.path());
                }
            }
        }
    }
}
