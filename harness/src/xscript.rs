//! xport engine: scripted `FileReadWriteVolatile` doubles and the operation syntax of the case line.
use std::collections::VecDeque;
use std::io;

use fuse_backend_rs::file_buf::FileVolatileSlice;
use fuse_backend_rs::file_traits::FileReadWriteVolatile;

#[derive(Clone, Debug, PartialEq)]
pub enum Ans {
    N(usize),
    Err,
    Intr,
}

pub fn pat(seed: u64, i: u64) -> u8 {
    (((seed * 13 + i * 7 + 1) % 256) as u8) | 1
}
pub fn pat_bytes(seed: u64, start: u64, n: usize) -> Vec<u8> {
    (0..n as u64).map(|i| pat(seed, start + i)).collect()
}

/// state shared by both doubles
pub struct Core {
    pub answers: VecDeque<Ans>,
    pub seed: u64,
    pub pos: u64,
    pub got: Vec<u8>,
    /// (host pointer, len) of every buffer handed to an implemented method, per call
    pub offered: Vec<Vec<(usize, usize)>>,
    /// the `offset` argument of every call (None for the plain methods)
    pub offs: Vec<Option<u64>>,
}

impl Core {
    pub fn new(answers: &[Ans], seed: u64) -> Self {
        Core { answers: answers.iter().cloned().collect(), seed, pos: 0, got: vec![], offered: vec![], offs: vec![] }
    }
    fn begin(&mut self, bufs: &[FileVolatileSlice], off: Option<u64>) -> io::Result<usize> {
        self.offered.push(bufs.iter().map(|b| (b.as_ptr() as usize, b.len())).collect());
        self.offs.push(off);
        let total: usize = bufs.iter().map(|b| b.len()).sum();
        match self.answers.pop_front() {
            // the failing call's errno varies with the case (EIO, EINVAL as an O_DIRECT file gives
            // for unaligned buffers, EBADF, ENOSPC): an error is an error whatever its number
            Some(Ans::Err) => Err(io::Error::from_raw_os_error([libc::EIO, libc::EINVAL, libc::EBADF, libc::ENOSPC][(self.seed % 4) as usize])),
            Some(Ans::Intr) => Err(io::Error::from(io::ErrorKind::Interrupted)),
            Some(Ans::N(k)) => Ok(std::cmp::min(k, total)),
            None => Ok(total),
        }
    }
    /// the file takes the first `k` bytes of the buffers
    pub fn sink_call(&mut self, bufs: &[FileVolatileSlice], off: Option<u64>) -> io::Result<usize> {
        let k = self.begin(bufs, off)?;
        let mut rem = k;
        for b in bufs {
            let c = std::cmp::min(rem, b.len());
            if c > 0 {
                let s = unsafe { std::slice::from_raw_parts(b.as_ptr() as *const u8, c) };
                self.got.extend_from_slice(s);
            }
            rem -= c;
        }
        Ok(k)
    }
    /// the file fills the first `k` bytes of the buffers with its content
    pub fn source_call(&mut self, bufs: &[FileVolatileSlice], off: Option<u64>) -> io::Result<usize> {
        let k = self.begin(bufs, off)?;
        let start = off.unwrap_or(self.pos);
        let data = pat_bytes(self.seed, start, k);
        let mut done = 0;
        for b in bufs {
            let c = std::cmp::min(k - done, b.len());
            if c > 0 {
                unsafe { std::ptr::copy_nonoverlapping(data[done..].as_ptr(), b.as_ptr(), c) };
            }
            done += c;
        }
        if off.is_none() {
            self.pos += k as u64;
        }
        Ok(k)
    }
}

pub trait HasCore {
    fn core(&mut self) -> &mut Core;
}

/// overrides the vectored methods, like `File` does
pub struct FullFile(pub Core);
/// implements only the four required methods: the trait defaults provide the vectored ones
pub struct DfltFile(pub Core);

impl HasCore for FullFile {
    fn core(&mut self) -> &mut Core {
        &mut self.0
    }
}
impl HasCore for DfltFile {
    fn core(&mut self) -> &mut Core {
        &mut self.0
    }
}

impl FileReadWriteVolatile for FullFile {
    fn read_volatile(&mut self, slice: FileVolatileSlice) -> io::Result<usize> {
        self.0.source_call(&[slice], None)
    }
    fn read_vectored_volatile(&mut self, bufs: &[FileVolatileSlice]) -> io::Result<usize> {
        self.0.source_call(bufs, None)
    }
    fn write_volatile(&mut self, slice: FileVolatileSlice) -> io::Result<usize> {
        self.0.sink_call(&[slice], None)
    }
    fn write_vectored_volatile(&mut self, bufs: &[FileVolatileSlice]) -> io::Result<usize> {
        self.0.sink_call(bufs, None)
    }
    fn read_at_volatile(&mut self, slice: FileVolatileSlice, offset: u64) -> io::Result<usize> {
        self.0.source_call(&[slice], Some(offset))
    }
    fn read_vectored_at_volatile(&mut self, bufs: &[FileVolatileSlice], offset: u64) -> io::Result<usize> {
        self.0.source_call(bufs, Some(offset))
    }
    fn write_at_volatile(&mut self, slice: FileVolatileSlice, offset: u64) -> io::Result<usize> {
        self.0.sink_call(&[slice], Some(offset))
    }
    fn write_vectored_at_volatile(&mut self, bufs: &[FileVolatileSlice], offset: u64) -> io::Result<usize> {
        self.0.sink_call(bufs, Some(offset))
    }
}

impl FileReadWriteVolatile for DfltFile {
    fn read_volatile(&mut self, slice: FileVolatileSlice) -> io::Result<usize> {
        self.0.source_call(&[slice], None)
    }
    fn write_volatile(&mut self, slice: FileVolatileSlice) -> io::Result<usize> {
        self.0.sink_call(&[slice], None)
    }
    fn read_at_volatile(&mut self, slice: FileVolatileSlice, offset: u64) -> io::Result<usize> {
        self.0.source_call(&[slice], Some(offset))
    }
    fn write_at_volatile(&mut self, slice: FileVolatileSlice, offset: u64) -> io::Result<usize> {
        self.0.sink_call(&[slice], Some(offset))
    }
}

// ------------------------------------------------------------------ operations of the case line

#[derive(Clone, Debug, Default)]
pub struct OpS {
    /// rd ro rt re rs | wr wv wf wa ws wc | fw fv ff fa fs fc
    pub k: String,
    pub h: usize,
    /// n / count / len / split offset
    pub n: usize,
    pub lens: Vec<usize>,
    pub dflt: bool,
    pub at: Option<u64>,
    pub seed: u64,
    pub answers: Vec<Ans>,
    pub other: Option<usize>,
}

fn ans_str(a: &[Ans]) -> String {
    a.iter()
        .map(|x| match x {
            Ans::N(k) => k.to_string(),
            Ans::Err => "e".into(),
            Ans::Intr => "i".into(),
        })
        .collect::<Vec<_>>()
        .join(",")
}
fn parse_ans(s: &str) -> Vec<Ans> {
    if s.is_empty() {
        return vec![];
    }
    s.split(',')
        .map(|t| match t {
            "e" => Ans::Err,
            "i" => Ans::Intr,
            _ => Ans::N(t.parse().unwrap_or(0)),
        })
        .collect()
}
fn opt_str(o: Option<u64>) -> String {
    o.map(|x| x.to_string()).unwrap_or_else(|| "-".into())
}
fn parse_opt(s: &str) -> Option<u64> {
    if s == "-" {
        None
    } else {
        s.parse().ok()
    }
}

impl OpS {
    pub fn show(&self) -> String {
        let kd = if self.dflt { "d" } else { "f" };
        let lens = self.lens.iter().map(|x| x.to_string()).collect::<Vec<_>>().join(",");
        match self.k.as_str() {
            "rd" | "ro" | "rs" | "ws" | "fs" => format!("{}:{}:{}", self.k, self.h, self.n),
            "rt" => format!("rt:{}:{}:{}:{}:{}", self.h, self.n, kd, opt_str(self.at), ans_str(&self.answers)),
            "re" => format!("re:{}:{}:{}:{}", self.h, self.n, kd, ans_str(&self.answers)),
            "wr" | "fw" => format!("{}:{}:{}:{}", self.k, self.h, self.n, self.seed),
            "wv" | "fv" => format!("{}:{}:{}:{}", self.k, self.h, lens, self.seed),
            "wf" | "ff" => format!("{}:{}:{}:{}:{}:{}:{}", self.k, self.h, self.n, kd, opt_str(self.at), self.seed, ans_str(&self.answers)),
            "wa" | "fa" => format!("{}:{}:{}:{}:{}:{}", self.k, self.h, self.n, kd, self.seed, ans_str(&self.answers)),
            "wc" | "fc" => format!("{}:{}:{}", self.k, self.h, opt_str(self.other.map(|x| x as u64))),
            _ => "bad".into(),
        }
    }
    pub fn parse(s: &str) -> Option<OpS> {
        let f: Vec<&str> = s.split(':').collect();
        let u = |i: usize| -> usize { f.get(i).and_then(|x| x.parse().ok()).unwrap_or(0) };
        let mut o = OpS { k: f[0].to_string(), h: u(1), ..Default::default() };
        match (f[0], f.len()) {
            ("rd", 3) | ("ro", 3) | ("rs", 3) | ("ws", 3) | ("fs", 3) => o.n = u(2),
            ("rt", 6) => {
                o.n = u(2);
                o.dflt = f[3] == "d";
                o.at = parse_opt(f[4]);
                o.answers = parse_ans(f[5]);
            }
            ("re", 5) => {
                o.n = u(2);
                o.dflt = f[3] == "d";
                o.answers = parse_ans(f[4]);
            }
            ("wr", 4) | ("fw", 4) => {
                o.n = u(2);
                o.seed = u(3) as u64;
            }
            ("wv", 4) | ("fv", 4) => {
                o.lens = if f[2].is_empty() { vec![] } else { f[2].split(',').filter_map(|x| x.parse().ok()).collect() };
                o.seed = u(3) as u64;
            }
            ("wf", 7) | ("ff", 7) => {
                o.n = u(2);
                o.dflt = f[3] == "d";
                o.at = parse_opt(f[4]);
                o.seed = u(5) as u64;
                o.answers = parse_ans(f[6]);
            }
            ("wa", 6) | ("fa", 6) => {
                o.n = u(2);
                o.dflt = f[3] == "d";
                o.seed = u(4) as u64;
                o.answers = parse_ans(f[5]);
            }
            ("wc", 3) | ("fc", 3) => o.other = parse_opt(f[2]).map(|x| x as usize),
            _ => return None,
        }
        Some(o)
    }
    /// the buffers of a `wv`/`fv`
    pub fn datas(&self) -> Vec<Vec<u8>> {
        self.lens.iter().enumerate().map(|(j, &l)| pat_bytes(self.seed + j as u64, 0, l)).collect()
    }
}
