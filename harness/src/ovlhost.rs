//! Host side of the `ovl` engine: layer specifications (the same syntax the Lean driver parses),
//! materialising a layer as a real directory, scanning a real directory back into a
//! specification, a fingerprint of a directory (for the "lower layers never change" oracle) and
//! an independent implementation of the overlayfs union rules used as a direct oracle.
//!
//! Names are the single letters `a`..`e`; a path is the string of its names (`"abc"` = a/b/c,
//! `""` = the layer root).  Node syntax (fields separated by `.`):
//!   `d.<mode>.<opaque>.<x>`   directory; opaque 0 | 1 (user.fuseoverlayfs.opaque) |
//!                             2 (trusted.overlay.opaque) | 3 (user.overlay.opaque); x = id of the
//!                             `user.x` xattr value (0 = not set)
//!   `f.<mode>.<chunks>.<x>`   regular file; chunks = `-`-separated content chunk ids, `_` = empty
//!   `l.<target>`              symbolic link to the string `t<target>`
//!   `w`                       whiteout (character device 0/0)
//!   `o.<mode>`                other (fifo when created through the overlay, char device 1/3 in
//!                             generated layers)
//! Modes are octal permission bits.  A content chunk is 4 bytes: id c>0 is the decimal `{:04}`,
//! id 0 is four NUL bytes (what a hole reads as).
use std::collections::BTreeMap;
use std::ffi::CString;
use std::os::unix::ffi::OsStrExt;
use std::os::unix::fs::{FileTypeExt, MetadataExt, PermissionsExt};

#[derive(Clone, Debug, PartialEq, Eq)]
pub enum Node {
    Dir { mode: u32, opaque: u32, x: u32 },
    File { mode: u32, content: Vec<u32>, x: u32 },
    Symlink { target: u32 },
    Whiteout,
    Other { mode: u32 },
    /// something the scanner could not express (reported verbatim, never equal to a model value)
    Odd(String),
}

pub const OPAQUE_NAMES: [&str; 3] = ["user.fuseoverlayfs.opaque", "trusted.overlay.opaque", "user.overlay.opaque"];
pub const XNAME: &str = "user.x";

pub fn chunks_str(c: &[u32]) -> String {
    if c.is_empty() {
        "_".to_string()
    } else {
        c.iter().map(|x| x.to_string()).collect::<Vec<_>>().join("-")
    }
}

pub fn parse_chunks(s: &str) -> Vec<u32> {
    if s == "_" || s.is_empty() {
        vec![]
    } else {
        s.split('-').filter_map(|x| x.parse().ok()).collect()
    }
}

pub fn chunk_bytes(c: &[u32]) -> Vec<u8> {
    let mut v = Vec::new();
    for &x in c {
        if x == 0 {
            v.extend_from_slice(&[0, 0, 0, 0]);
        } else {
            v.extend_from_slice(format!("{:04}", x % 10000).as_bytes());
        }
    }
    v
}

pub fn bytes_chunks(b: &[u8]) -> Option<Vec<u32>> {
    if b.len() % 4 != 0 {
        return None;
    }
    let mut v = Vec::new();
    for c in b.chunks(4) {
        if c == [0, 0, 0, 0] {
            v.push(0);
        } else {
            let s = std::str::from_utf8(c).ok()?;
            v.push(s.parse::<u32>().ok()?);
        }
    }
    Some(v)
}

impl Node {
    pub fn show(&self) -> String {
        match self {
            Node::Dir { mode, opaque, x } => format!("d.{:o}.{}.{}", mode, opaque, x),
            Node::File { mode, content, x } => format!("f.{:o}.{}.{}", mode, chunks_str(content), x),
            Node::Symlink { target } => format!("l.{}", target),
            Node::Whiteout => "w".to_string(),
            Node::Other { mode } => format!("o.{:o}", mode),
            Node::Odd(s) => format!("?{}", s),
        }
    }
    /// the node as a client sees it (no opaque marker)
    pub fn show_view(&self) -> String {
        match self {
            Node::Dir { mode, x, .. } => format!("d.{:o}.{}", mode, x),
            _ => self.show(),
        }
    }
    pub fn parse(s: &str) -> Option<Node> {
        let f: Vec<&str> = s.split('.').collect();
        let oct = |x: &str| u32::from_str_radix(x, 8).ok();
        match f[0] {
            "d" if f.len() == 4 => Some(Node::Dir { mode: oct(f[1])?, opaque: f[2].parse().ok()?, x: f[3].parse().ok()? }),
            "f" if f.len() == 4 => Some(Node::File { mode: oct(f[1])?, content: parse_chunks(f[2]), x: f[3].parse().ok()? }),
            "l" if f.len() == 2 => Some(Node::Symlink { target: f[1].parse().ok()? }),
            "w" => Some(Node::Whiteout),
            "o" if f.len() == 2 => Some(Node::Other { mode: oct(f[1])? }),
            _ => None,
        }
    }
    pub fn is_dir(&self) -> bool {
        matches!(self, Node::Dir { .. })
    }
}

pub type LayerSpec = Vec<(String, Node)>;

/// `path:node,path:node,...` (root as the empty path); `-` = empty layer
pub fn parse_layer(s: &str) -> LayerSpec {
    let mut v = Vec::new();
    if s == "-" || s.is_empty() {
        return v;
    }
    for e in s.split(',') {
        let mut it = e.splitn(2, ':');
        let p = it.next().unwrap().to_string();
        if let Some(n) = it.next().and_then(Node::parse) {
            v.push((p, n));
        }
    }
    v
}

pub fn show_layer(l: &LayerSpec) -> String {
    if l.is_empty() {
        return "-".to_string();
    }
    l.iter().map(|(p, n)| format!("{}:{}", p, n.show())).collect::<Vec<_>>().join(",")
}

pub fn host_path(dir: &str, p: &str) -> String {
    let mut s = dir.to_string();
    for c in p.chars() {
        s.push('/');
        s.push(c);
    }
    s
}

fn cstr(s: &str) -> CString {
    CString::new(s).unwrap()
}

pub fn lsetxattr(path: &str, name: &str, val: &[u8]) -> bool {
    let r = unsafe { libc::lsetxattr(cstr(path).as_ptr(), cstr(name).as_ptr(), val.as_ptr() as *const libc::c_void, val.len(), 0) };
    r == 0
}

pub fn lgetxattr(path: &str, name: &str) -> Option<Vec<u8>> {
    let mut buf = vec![0u8; 256];
    let r = unsafe { libc::lgetxattr(cstr(path).as_ptr(), cstr(name).as_ptr(), buf.as_mut_ptr() as *mut libc::c_void, buf.len()) };
    if r < 0 {
        None
    } else {
        buf.truncate(r as usize);
        Some(buf)
    }
}

pub fn llistxattr(path: &str) -> Vec<String> {
    let mut buf = vec![0u8; 4096];
    let r = unsafe { libc::llistxattr(cstr(path).as_ptr(), buf.as_mut_ptr() as *mut libc::c_char, buf.len()) };
    if r <= 0 {
        return vec![];
    }
    buf.truncate(r as usize);
    let mut v: Vec<String> = buf.split(|&b| b == 0).filter(|s| !s.is_empty()).map(|s| String::from_utf8_lossy(s).into_owned()).collect();
    v.sort();
    v
}

/// create the directory `dir` with the contents of `spec` (parents must precede children)
pub fn materialise(dir: &str, spec: &LayerSpec) -> std::io::Result<()> {
    std::fs::create_dir_all(dir)?;
    std::fs::set_permissions(dir, std::fs::Permissions::from_mode(0o755))?;
    for (p, n) in spec {
        let hp = host_path(dir, p);
        match n {
            Node::Dir { mode, opaque, x } => {
                if !p.is_empty() {
                    std::fs::create_dir(&hp)?;
                }
                std::fs::set_permissions(&hp, std::fs::Permissions::from_mode(*mode))?;
                if *opaque >= 1 && *opaque <= 3 {
                    if !lsetxattr(&hp, OPAQUE_NAMES[(*opaque - 1) as usize], b"y") {
                        return Err(std::io::Error::last_os_error());
                    }
                }
                if *x != 0 {
                    lsetxattr(&hp, XNAME, format!("v{}", x).as_bytes());
                }
            }
            Node::File { mode, content, x } => {
                std::fs::write(&hp, chunk_bytes(content))?;
                std::fs::set_permissions(&hp, std::fs::Permissions::from_mode(*mode))?;
                if *x != 0 {
                    lsetxattr(&hp, XNAME, format!("v{}", x).as_bytes());
                }
            }
            Node::Symlink { target } => {
                std::os::unix::fs::symlink(format!("t{}", target), &hp)?;
            }
            Node::Whiteout => {
                let r = unsafe { libc::mknod(cstr(&hp).as_ptr(), libc::S_IFCHR | 0o777, libc::makedev(0, 0)) };
                if r != 0 {
                    return Err(std::io::Error::last_os_error());
                }
            }
            Node::Other { mode } => {
                let r = unsafe { libc::mknod(cstr(&hp).as_ptr(), libc::S_IFCHR | *mode, libc::makedev(1, 3)) };
                if r != 0 {
                    return Err(std::io::Error::last_os_error());
                }
                std::fs::set_permissions(&hp, std::fs::Permissions::from_mode(*mode))?;
            }
            Node::Odd(_) => {}
        }
    }
    Ok(())
}

fn scan_node(hp: &str) -> Node {
    let md = match std::fs::symlink_metadata(hp) {
        Ok(m) => m,
        Err(e) => return Node::Odd(format!("stat{}", e.raw_os_error().unwrap_or(0))),
    };
    let ft = md.file_type();
    let mode = md.mode() & 0o7777;
    let x = match lgetxattr(hp, XNAME) {
        Some(v) => String::from_utf8_lossy(&v).strip_prefix('v').and_then(|s| s.parse::<u32>().ok()).unwrap_or(9999),
        None => 0,
    };
    if ft.is_dir() {
        let mut opaque = 0;
        for (i, n) in OPAQUE_NAMES.iter().enumerate() {
            if let Some(v) = lgetxattr(hp, n) {
                if v.len() == 1 && (v[0] == b'y' || v[0] == b'Y') && opaque == 0 {
                    opaque = i as u32 + 1;
                }
            }
        }
        Node::Dir { mode, opaque, x }
    } else if ft.is_file() {
        match std::fs::read(hp).ok().and_then(|b| bytes_chunks(&b)) {
            Some(c) => Node::File { mode, content: c, x },
            None => Node::Odd(format!("content:{}", hex_lossy(&std::fs::read(hp).unwrap_or_default()))),
        }
    } else if ft.is_symlink() {
        match std::fs::read_link(hp) {
            Ok(t) => match t.to_string_lossy().strip_prefix('t').and_then(|s| s.parse::<u32>().ok()) {
                Some(id) => Node::Symlink { target: id },
                None => Node::Odd(format!("link:{}", t.to_string_lossy())),
            },
            Err(_) => Node::Odd("readlink".into()),
        }
    } else if ft.is_char_device() && md.rdev() == 0 {
        Node::Whiteout
    } else {
        Node::Other { mode }
    }
}

fn hex_lossy(b: &[u8]) -> String {
    b.iter().take(32).map(|x| format!("{:02x}", x)).collect()
}

/// read a real directory back into a specification (sorted by path; root under "")
pub fn scan(dir: &str) -> BTreeMap<String, Node> {
    let mut m = BTreeMap::new();
    fn rec(dir: &str, p: &str, m: &mut BTreeMap<String, Node>) {
        let hp = host_path(dir, p);
        let n = scan_node(&hp);
        let isdir = n.is_dir();
        m.insert(p.to_string(), n);
        if isdir {
            if let Ok(rd) = std::fs::read_dir(&hp) {
                let mut names: Vec<String> = rd.filter_map(|e| e.ok()).map(|e| e.file_name().to_string_lossy().into_owned()).collect();
                names.sort();
                for nm in names {
                    if nm.chars().count() == 1 {
                        rec(dir, &format!("{}{}", p, nm), m);
                    } else {
                        m.insert(format!("{}<{}>", p, nm), Node::Odd("name".into()));
                    }
                }
            }
        }
    }
    rec(dir, "", &mut m);
    m
}

pub fn show_scan(m: &BTreeMap<String, Node>) -> String {
    m.iter().map(|(p, n)| format!("{}:{}", p, n.show())).collect::<Vec<_>>().join(",")
}

/// complete fingerprint of a directory tree: names, type, mode, owner, size, rdev, content,
/// link target, every xattr name and value, mtime and ctime.  Reading never changes it.
pub fn fingerprint(dir: &str) -> String {
    let mut out = String::new();
    fn rec(hp: &str, rel: &str, out: &mut String) {
        let md = match std::fs::symlink_metadata(hp) {
            Ok(m) => m,
            Err(_) => return,
        };
        out.push_str(&format!(
            "{}|{:o}|{}:{}|{}|{}|{}.{}|{}.{}|",
            rel, md.mode(), md.uid(), md.gid(), md.size(), md.rdev(), md.mtime(), md.mtime_nsec(), md.ctime(), md.ctime_nsec()
        ));
        for xn in llistxattr(hp) {
            out.push_str(&format!("{}={};", xn, hex_lossy(&lgetxattr(hp, &xn).unwrap_or_default())));
        }
        let ft = md.file_type();
        if ft.is_file() {
            out.push_str(&hex_lossy(&std::fs::read(hp).unwrap_or_default()));
        } else if ft.is_symlink() {
            out.push_str(&std::fs::read_link(hp).map(|t| t.to_string_lossy().into_owned()).unwrap_or_default());
        }
        out.push('\n');
        if ft.is_dir() {
            if let Ok(rd) = std::fs::read_dir(hp) {
                let mut names: Vec<Vec<u8>> = rd.filter_map(|e| e.ok()).map(|e| e.file_name().as_bytes().to_vec()).collect();
                names.sort();
                for nm in names {
                    let s = String::from_utf8_lossy(&nm).into_owned();
                    rec(&format!("{}/{}", hp, s), &format!("{}/{}", rel, s), out);
                }
            }
        }
    }
    rec(dir, "", &mut out);
    out
}

/// Independent statement of the overlayfs union rules over scanned layers (topmost first):
/// the topmost entry of a name wins; a whiteout hides the name; a non-directory hides everything
/// below; directories merge downwards until an opaque directory, a whiteout or a non-directory.
pub fn union(layers: &[&BTreeMap<String, Node>]) -> BTreeMap<String, String> {
    let mut out = BTreeMap::new();
    // root: every layer root is a directory; opaque root cuts
    let mut stack: Vec<usize> = Vec::new();
    for (i, l) in layers.iter().enumerate() {
        match l.get("") {
            Some(Node::Dir { opaque, .. }) => {
                stack.push(i);
                if *opaque != 0 {
                    break;
                }
            }
            _ => break,
        }
    }
    if let Some(&top) = stack.first() {
        out.insert(String::new(), layers[top][""].show_view());
        union_dir(layers, &stack, "", &mut out, 0);
    }
    out
}

fn union_dir(layers: &[&BTreeMap<String, Node>], stack: &[usize], path: &str, out: &mut BTreeMap<String, String>, depth: usize) {
    if depth > 12 {
        return;
    }
    for c in ['a', 'b', 'c', 'd', 'e'] {
        let p = format!("{}{}", path, c);
        let cands: Vec<(usize, &Node)> = stack.iter().filter_map(|&i| layers[i].get(&p).map(|n| (i, n))).collect();
        let Some((first_i, first)) = cands.first().copied() else { continue };
        match first {
            Node::Whiteout => {}
            Node::Dir { opaque, .. } => {
                let mut sub = vec![first_i];
                if *opaque == 0 {
                    for (i, n) in cands.iter().skip(1) {
                        match n {
                            Node::Dir { opaque, .. } => {
                                sub.push(*i);
                                if *opaque != 0 {
                                    break;
                                }
                            }
                            _ => break,
                        }
                    }
                }
                out.insert(p.clone(), first.show_view());
                union_dir(layers, &sub, &p, out, depth + 1);
            }
            n => {
                out.insert(p.clone(), n.show_view());
            }
        }
    }
}

pub fn show_view(m: &BTreeMap<String, String>) -> String {
    m.iter().map(|(p, n)| format!("{}:{}", p, n)).collect::<Vec<_>>().join(",")
}
