//! Requests and replies of the `pthost` engine, with their line-protocol encoding.
//!
//! Inodes and handles are referred to symbolically so that a history replays on a fresh tree:
//! `i<k>` = the k-th distinct inode number that appeared in a reply of this history (`i0` = root),
//! `h<k>` = the k-th handle returned, `#<n>` = the literal number n (bogus ids).
use fbrh::util::{hex, unhex};

#[derive(Clone, Debug, PartialEq)]
pub enum Ref {
    Idx(usize),
    Raw(u64),
}

impl Ref {
    pub fn show(&self, pfx: char) -> String {
        match self {
            Ref::Idx(k) => format!("{}{}", pfx, k),
            Ref::Raw(n) => format!("#{}", n),
        }
    }
    pub fn parse(s: &str) -> Ref {
        if let Some(r) = s.strip_prefix('#') {
            Ref::Raw(r.parse().unwrap_or(0))
        } else {
            Ref::Idx(s[1..].parse().unwrap_or(0))
        }
    }
}

/// flag in `Op::Forget::count`: the forget arrives in a BATCH_FORGET request
pub const VIA_BATCH: u64 = 1 << 62;

#[derive(Clone, Debug)]
pub enum Op {
    Lookup { parent: Ref, name: Vec<u8> },
    Forget { ino: Ref, count: u64 },
    Getattr { ino: Ref, handle: Option<Ref> },
    Setattr { ino: Ref, handle: Option<Ref>, valid: u32, mode: u32, uid: u32, gid: u32, size: u64, atime: i64, atimens: i64, mtime: i64, mtimens: i64 },
    Readlink { ino: Ref },
    Symlink { uid: u32, gid: u32, target: Vec<u8>, parent: Ref, name: Vec<u8> },
    Mknod { uid: u32, gid: u32, parent: Ref, name: Vec<u8>, mode: u32, rdev: u32, umask: u32 },
    Mkdir { uid: u32, gid: u32, parent: Ref, name: Vec<u8>, mode: u32, umask: u32 },
    Unlink { parent: Ref, name: Vec<u8> },
    Rmdir { parent: Ref, name: Vec<u8> },
    Rename { odir: Ref, oname: Vec<u8>, ndir: Ref, nname: Vec<u8>, flags: u32 },
    Link { ino: Ref, newparent: Ref, newname: Vec<u8> },
    Open { ino: Ref, flags: u32, fuse_flags: u32 },
    Opendir { ino: Ref, flags: u32 },
    Create { uid: u32, gid: u32, parent: Ref, name: Vec<u8>, flags: u32, mode: u32, umask: u32, fuse_flags: u32 },
    Read { ino: Ref, handle: Ref, size: u32, offset: u64, flags: u32 },
    Write { ino: Ref, handle: Ref, data: Vec<u8>, offset: u64, flags: u32, fuse_flags: u32 },
    Flush { ino: Ref, handle: Ref },
    Fsync { ino: Ref, handle: Ref, datasync: bool },
    Fsyncdir { ino: Ref, handle: Ref, datasync: bool },
    Release { ino: Ref, handle: Ref },
    Releasedir { ino: Ref, handle: Ref },
    Fallocate { ino: Ref, handle: Ref, mode: u32, offset: u64, length: u64 },
    Lseek { ino: Ref, handle: Ref, offset: u64, whence: u32 },
    Statfs { ino: Ref },
    Setxattr { ino: Ref, name: Vec<u8>, value: Vec<u8>, flags: u32 },
    Getxattr { ino: Ref, name: Vec<u8>, size: u32 },
    Listxattr { ino: Ref, size: u32 },
    Removexattr { ino: Ref, name: Vec<u8> },
}

fn oh(h: &Option<Ref>) -> String {
    match h {
        None => "-".into(),
        Some(r) => r.show('h'),
    }
}

fn ph(s: &str) -> Option<Ref> {
    if s == "-" {
        None
    } else {
        Some(Ref::parse(s))
    }
}

impl Op {
    pub fn kind(&self) -> &'static str {
        match self {
            Op::Lookup { .. } => "lookup",
            Op::Forget { .. } => "forget",
            Op::Getattr { .. } => "getattr",
            Op::Setattr { .. } => "setattr",
            Op::Readlink { .. } => "readlink",
            Op::Symlink { .. } => "symlink",
            Op::Mknod { .. } => "mknod",
            Op::Mkdir { .. } => "mkdir",
            Op::Unlink { .. } => "unlink",
            Op::Rmdir { .. } => "rmdir",
            Op::Rename { .. } => "rename",
            Op::Link { .. } => "link",
            Op::Open { .. } => "open",
            Op::Opendir { .. } => "opendir",
            Op::Create { .. } => "create",
            Op::Read { .. } => "read",
            Op::Write { .. } => "write",
            Op::Flush { .. } => "flush",
            Op::Fsync { .. } => "fsync",
            Op::Fsyncdir { .. } => "fsyncdir",
            Op::Release { .. } => "release",
            Op::Releasedir { .. } => "releasedir",
            Op::Fallocate { .. } => "fallocate",
            Op::Lseek { .. } => "lseek",
            Op::Statfs { .. } => "statfs",
            Op::Setxattr { .. } => "setxattr",
            Op::Getxattr { .. } => "getxattr",
            Op::Listxattr { .. } => "listxattr",
            Op::Removexattr { .. } => "removexattr",
        }
    }

    /// `kind:arg:arg...` (names / data as hex)
    pub fn show(&self) -> String {
        let k = self.kind();
        match self {
            Op::Lookup { parent, name } => format!("{}:{}:{}", k, parent.show('i'), hex(name)),
            Op::Forget { ino, count } => format!("{}:{}:{}", if count & VIA_BATCH != 0 { "bforget" } else { k }, ino.show('i'), count & !VIA_BATCH),
            Op::Getattr { ino, handle } => format!("{}:{}:{}", k, ino.show('i'), oh(handle)),
            Op::Setattr { ino, handle, valid, mode, uid, gid, size, atime, atimens, mtime, mtimens } => format!(
                "{}:{}:{}:{}:{}:{}:{}:{}:{}:{}:{}:{}", k, ino.show('i'), oh(handle), valid, mode, uid, gid, size, atime, atimens, mtime, mtimens),
            Op::Readlink { ino } => format!("{}:{}", k, ino.show('i')),
            Op::Symlink { uid, gid, target, parent, name } => format!("{}:{}:{}:{}:{}:{}", k, uid, gid, hex(target), parent.show('i'), hex(name)),
            Op::Mknod { uid, gid, parent, name, mode, rdev, umask } => format!("{}:{}:{}:{}:{}:{}:{}:{}", k, uid, gid, parent.show('i'), hex(name), mode, rdev, umask),
            Op::Mkdir { uid, gid, parent, name, mode, umask } => format!("{}:{}:{}:{}:{}:{}:{}", k, uid, gid, parent.show('i'), hex(name), mode, umask),
            Op::Unlink { parent, name } => format!("{}:{}:{}", k, parent.show('i'), hex(name)),
            Op::Rmdir { parent, name } => format!("{}:{}:{}", k, parent.show('i'), hex(name)),
            Op::Rename { odir, oname, ndir, nname, flags } => format!("{}:{}:{}:{}:{}:{}", k, odir.show('i'), hex(oname), ndir.show('i'), hex(nname), flags),
            Op::Link { ino, newparent, newname } => format!("{}:{}:{}:{}", k, ino.show('i'), newparent.show('i'), hex(newname)),
            Op::Open { ino, flags, fuse_flags } => format!("{}:{}:{}:{}", k, ino.show('i'), flags, fuse_flags),
            Op::Opendir { ino, flags } => format!("{}:{}:{}", k, ino.show('i'), flags),
            Op::Create { uid, gid, parent, name, flags, mode, umask, fuse_flags } => format!("{}:{}:{}:{}:{}:{}:{}:{}:{}", k, uid, gid, parent.show('i'), hex(name), flags, mode, umask, fuse_flags),
            Op::Read { ino, handle, size, offset, flags } => format!("{}:{}:{}:{}:{}:{}", k, ino.show('i'), handle.show('h'), size, offset, flags),
            Op::Write { ino, handle, data, offset, flags, fuse_flags } => format!("{}:{}:{}:{}:{}:{}:{}", k, ino.show('i'), handle.show('h'), hex(data), offset, flags, fuse_flags),
            Op::Flush { ino, handle } => format!("{}:{}:{}", k, ino.show('i'), handle.show('h')),
            Op::Fsync { ino, handle, datasync } => format!("{}:{}:{}:{}", k, ino.show('i'), handle.show('h'), *datasync as u32),
            Op::Fsyncdir { ino, handle, datasync } => format!("{}:{}:{}:{}", k, ino.show('i'), handle.show('h'), *datasync as u32),
            Op::Release { ino, handle } => format!("{}:{}:{}", k, ino.show('i'), handle.show('h')),
            Op::Releasedir { ino, handle } => format!("{}:{}:{}", k, ino.show('i'), handle.show('h')),
            Op::Fallocate { ino, handle, mode, offset, length } => format!("{}:{}:{}:{}:{}:{}", k, ino.show('i'), handle.show('h'), mode, offset, length),
            Op::Lseek { ino, handle, offset, whence } => format!("{}:{}:{}:{}:{}", k, ino.show('i'), handle.show('h'), offset, whence),
            Op::Statfs { ino } => format!("{}:{}", k, ino.show('i')),
            Op::Setxattr { ino, name, value, flags } => format!("{}:{}:{}:{}:{}", k, ino.show('i'), hex(name), hex(value), flags),
            Op::Getxattr { ino, name, size } => format!("{}:{}:{}:{}", k, ino.show('i'), hex(name), size),
            Op::Listxattr { ino, size } => format!("{}:{}:{}", k, ino.show('i'), size),
            Op::Removexattr { ino, name } => format!("{}:{}:{}", k, ino.show('i'), hex(name)),
        }
    }

    pub fn parse(s: &str) -> Option<Op> {
        let p: Vec<&str> = s.split(':').collect();
        let n = |i: usize| -> u64 { p.get(i).and_then(|x| x.parse::<u64>().ok()).unwrap_or(0) };
        let sn = |i: usize| -> i64 { p.get(i).and_then(|x| x.parse::<i64>().ok()).unwrap_or(0) };
        let r = |i: usize| -> Ref { Ref::parse(p.get(i).copied().unwrap_or("#0")) };
        let b = |i: usize| -> Vec<u8> { unhex(p.get(i).copied().unwrap_or("")) };
        Some(match *p.first()? {
            "lookup" => Op::Lookup { parent: r(1), name: b(2) },
            "forget" => Op::Forget { ino: r(1), count: n(2) },
            "bforget" => Op::Forget { ino: r(1), count: n(2) | VIA_BATCH },
            "getattr" => Op::Getattr { ino: r(1), handle: ph(p.get(2).copied().unwrap_or("-")) },
            "setattr" => Op::Setattr { ino: r(1), handle: ph(p.get(2).copied().unwrap_or("-")), valid: n(3) as u32, mode: n(4) as u32, uid: n(5) as u32, gid: n(6) as u32, size: n(7), atime: sn(8), atimens: sn(9), mtime: sn(10), mtimens: sn(11) },
            "readlink" => Op::Readlink { ino: r(1) },
            "symlink" => Op::Symlink { uid: n(1) as u32, gid: n(2) as u32, target: b(3), parent: r(4), name: b(5) },
            "mknod" => Op::Mknod { uid: n(1) as u32, gid: n(2) as u32, parent: r(3), name: b(4), mode: n(5) as u32, rdev: n(6) as u32, umask: n(7) as u32 },
            "mkdir" => Op::Mkdir { uid: n(1) as u32, gid: n(2) as u32, parent: r(3), name: b(4), mode: n(5) as u32, umask: n(6) as u32 },
            "unlink" => Op::Unlink { parent: r(1), name: b(2) },
            "rmdir" => Op::Rmdir { parent: r(1), name: b(2) },
            "rename" => Op::Rename { odir: r(1), oname: b(2), ndir: r(3), nname: b(4), flags: n(5) as u32 },
            "link" => Op::Link { ino: r(1), newparent: r(2), newname: b(3) },
            "open" => Op::Open { ino: r(1), flags: n(2) as u32, fuse_flags: n(3) as u32 },
            "opendir" => Op::Opendir { ino: r(1), flags: n(2) as u32 },
            "create" => Op::Create { uid: n(1) as u32, gid: n(2) as u32, parent: r(3), name: b(4), flags: n(5) as u32, mode: n(6) as u32, umask: n(7) as u32, fuse_flags: n(8) as u32 },
            "read" => Op::Read { ino: r(1), handle: r(2), size: n(3) as u32, offset: n(4), flags: n(5) as u32 },
            "write" => Op::Write { ino: r(1), handle: r(2), data: b(3), offset: n(4), flags: n(5) as u32, fuse_flags: n(6) as u32 },
            "flush" => Op::Flush { ino: r(1), handle: r(2) },
            "fsync" => Op::Fsync { ino: r(1), handle: r(2), datasync: n(3) != 0 },
            "fsyncdir" => Op::Fsyncdir { ino: r(1), handle: r(2), datasync: n(3) != 0 },
            "release" => Op::Release { ino: r(1), handle: r(2) },
            "releasedir" => Op::Releasedir { ino: r(1), handle: r(2) },
            "fallocate" => Op::Fallocate { ino: r(1), handle: r(2), mode: n(3) as u32, offset: n(4), length: n(5) },
            "lseek" => Op::Lseek { ino: r(1), handle: r(2), offset: n(3), whence: n(4) as u32 },
            "statfs" => Op::Statfs { ino: r(1) },
            "setxattr" => Op::Setxattr { ino: r(1), name: b(2), value: b(3), flags: n(4) as u32 },
            "getxattr" => Op::Getxattr { ino: r(1), name: b(2), size: n(3) as u32 },
            "listxattr" => Op::Listxattr { ino: r(1), size: n(2) as u32 },
            "removexattr" => Op::Removexattr { ino: r(1), name: b(2) },
            _ => return None,
        })
    }
}

/// the attribute fields a reply carries (times only when set explicitly)
#[derive(Clone, Debug, Default, PartialEq)]
pub struct Attr {
    pub dev: u64,
    pub ino: u64,
    pub mode: u32,
    pub uid: u32,
    pub gid: u32,
    pub size: u64,
    pub nlink: u64,
    pub rdev: u64,
    pub atime: i64,
    pub mtime: i64,
}

impl Attr {
    pub fn from_stat(st: &libc::stat64) -> Attr {
        Attr {
            dev: st.st_dev,
            ino: st.st_ino,
            mode: st.st_mode,
            uid: st.st_uid,
            gid: st.st_gid,
            // directory sizes are a file-system detail
            size: if st.st_mode & libc::S_IFMT == libc::S_IFDIR { 0 } else { st.st_size as u64 },
            nlink: st.st_nlink,
            rdev: st.st_rdev,
            atime: st.st_atime,
            mtime: st.st_mtime,
        }
    }
    /// value part compared between implementation and host oracle
    pub fn value(&self) -> String {
        let t = |x: i64| if (0..1_000_000_000).contains(&x) { x.to_string() } else { "now".into() };
        format!("m={:o},u={},g={},s={},n={},r={},at={},mt={}", self.mode, self.uid, self.gid, self.size, self.nlink, self.rdev, t(self.atime), t(self.mtime))
    }
}

#[derive(Clone, Debug)]
pub enum Reply {
    Err(i32),
    Unit,
    Entry { ino: u64, attr: Attr, flags: u32, et: u64, at: u64 },
    Attr { attr: Attr, at: u64 },
    Open { handle: Option<u64>, opts: u32 },
    Created { ino: u64, attr: Attr, et: u64, at: u64, handle: Option<u64>, opts: u32 },
    Data(Vec<u8>),
    Count(u64),
    Statfs { namemax: u64, bsize: u64 },
}

impl Reply {
    /// class + value as compared with the host oracle (no inode / handle numbers, no timeouts)
    pub fn value(&self) -> String {
        match self {
            Reply::Err(e) => format!("err:{}", e),
            Reply::Unit => "ok".into(),
            Reply::Entry { attr, .. } => format!("entry({})", attr.value()),
            Reply::Attr { attr, .. } => format!("attr({})", attr.value()),
            Reply::Open { .. } => "open".into(),
            Reply::Created { attr, .. } => format!("created({})", attr.value()),
            Reply::Data(d) => format!("data:{}", hex(d)),
            Reply::Count(n) => format!("count:{}", n),
            Reply::Statfs { namemax, bsize } => format!("statfs({},{})", namemax, bsize),
        }
    }
    pub fn attr(&self) -> Option<&Attr> {
        match self {
            Reply::Entry { attr, .. } | Reply::Attr { attr, .. } | Reply::Created { attr, .. } => Some(attr),
            _ => None,
        }
    }
    pub fn errno(&self) -> Option<i32> {
        if let Reply::Err(e) = self {
            Some(*e)
        } else {
            None
        }
    }
}
