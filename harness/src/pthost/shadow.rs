//! Host oracle: executes each request as the plain system call(s) it denotes on the shadow tree.
//!
//! Reference credential policy (DESIGN §6 C05): runs as root and switches fsuid/fsgid to the
//! caller only for object creation (and for the open that CREATE performs on an existing file),
//! as the passthrough does by design.  Special files are looked up but never opened (EBADF).
//! Inode / handle numbers are taken from the implementation's replies (they are names, not
//! values); everything else is computed from the shadow tree alone.
use std::collections::HashMap;
use std::ffi::CString;
use std::os::unix::io::RawFd;

use super::ops::{Attr, Op, Ref, Reply};
use super::tree::cstr;

pub const O_PATH_NOFOLLOW: i32 = libc::O_PATH | libc::O_NOFOLLOW | libc::O_CLOEXEC;

#[derive(Clone, Debug, Default)]
pub struct Cfg {
    pub no_open: bool,
    pub no_opendir: bool,
    pub inode_file_handles: bool,
    pub use_host_ino: bool,
    pub writeback: bool,
    pub xattr: bool,
    pub killpriv_v2: bool,
    pub allow_direct_io: bool,
    /// 0 never, 1 metadata, 2 auto, 3 always
    pub cache: u8,
    /// true = standalone passthrough (validates names itself)
    pub standalone: bool,
    /// capabilities the client does NOT offer at INIT: 1 WRITEBACK_CACHE, 2 ZERO_MESSAGE_OPEN,
    /// 4 ZERO_MESSAGE_OPENDIR, 8 HANDLE_KILLPRIV_V2 (0 = everything offered)
    pub nocap: u8,
}

impl Cfg {
    pub fn show(&self) -> String {
        format!(
            "{}{}{}{}{}{}{}{}{}:{}{}",
            self.no_open as u8, self.no_opendir as u8, self.inode_file_handles as u8, self.use_host_ino as u8,
            self.writeback as u8, self.xattr as u8, self.killpriv_v2 as u8, self.allow_direct_io as u8, self.standalone as u8, self.cache,
            if self.nocap != 0 { format!(":{}", self.nocap) } else { String::new() }
        )
    }
    pub fn parse(s: &str) -> Cfg {
        let b: Vec<u8> = s.bytes().collect();
        let g = |i: usize| b.get(i).map(|c| *c == b'1').unwrap_or(false);
        Cfg {
            no_open: g(0), no_opendir: g(1), inode_file_handles: g(2), use_host_ino: g(3), writeback: g(4),
            xattr: g(5), killpriv_v2: g(6), allow_direct_io: g(7), standalone: g(8),
            cache: s.split(':').nth(1).and_then(|x| x.parse().ok()).unwrap_or(2),
            nocap: s.split(':').nth(2).and_then(|x| x.parse().ok()).unwrap_or(0),
        }
    }
    /// `PassthroughFs::new` resets conflicting options
    pub fn effective(&self) -> Cfg {
        let mut c = self.clone();
        if c.no_open && c.cache != 3 {
            c.no_open = false;
        }
        if c.writeback && c.cache == 0 {
            c.writeback = false;
        }
        // `init`: a runtime switch goes on when the capability is offered and (standalone) the
        // option is configured; behind a VFS (`do_import = false`) the offered set is the
        // negotiated one and is honoured whatever the configuration says
        let off = |bit: u8| self.nocap & bit == 0;
        if c.standalone {
            c.writeback = c.writeback && off(1);
            c.no_open = c.no_open && off(2);
            c.no_opendir = c.no_opendir && off(4);
            c.killpriv_v2 = c.killpriv_v2 && off(8);
        } else {
            c.writeback = off(1);
            c.no_open = off(2);
            c.no_opendir = off(4);
            c.killpriv_v2 = off(8);
        }
        c
    }
}

fn errno() -> i32 {
    std::io::Error::last_os_error().raw_os_error().unwrap_or(0)
}

pub fn fstat_fd(fd: RawFd) -> Result<libc::stat64, i32> {
    let mut st = std::mem::MaybeUninit::<libc::stat64>::zeroed();
    let rc = unsafe { libc::fstatat64(fd, c"".as_ptr(), st.as_mut_ptr(), libc::AT_EMPTY_PATH | libc::AT_SYMLINK_NOFOLLOW) };
    if rc == 0 {
        Ok(unsafe { st.assume_init() })
    } else {
        Err(errno())
    }
}

fn is_safe(mode: u32) -> bool {
    matches!(mode & libc::S_IFMT, libc::S_IFREG | libc::S_IFDIR)
}

pub fn name_kind(name: &[u8]) -> &'static str {
    if name.contains(&b'/') {
        "slash"
    } else if name == b"." {
        "dot"
    } else if name == b".." {
        "dotdot"
    } else if name.is_empty() {
        "empty"
    } else {
        "plain"
    }
}

struct Caller {
    active: bool,
}

impl Caller {
    /// fsgid first, then fsuid (dropping fsuid drops the capability to change fsgid)
    fn new(uid: u32, gid: u32) -> Caller {
        unsafe {
            libc::setfsgid(gid);
            libc::setfsuid(uid);
        }
        Caller { active: true }
    }
}

impl Drop for Caller {
    fn drop(&mut self) {
        if self.active {
            unsafe {
                libc::setfsuid(0);
                libc::setfsgid(0);
            }
        }
    }
}

struct H {
    fd: RawFd,
    ino: u64,
    flags: u32,
}

pub struct Shadow {
    pub cfg: Cfg,
    /// fuse inode -> (O_PATH fd in the shadow tree, lookup count)
    inos: HashMap<u64, (RawFd, u64)>,
    handles: HashMap<u64, H>,
    /// inodes on which the implementation is known to hold an extra reference (F8)
    pub tainted: Vec<u64>,
    pub notes: Vec<String>,
}

fn proc_path(fd: RawFd) -> CString {
    CString::new(format!("/proc/self/fd/{}", fd)).unwrap()
}

impl Shadow {
    pub fn new(root: &str, cfg: Cfg) -> Shadow {
        let fd = unsafe { libc::open(cstr(root.as_bytes()).as_ptr(), O_PATH_NOFOLLOW) };
        assert!(fd >= 0);
        let mut inos = HashMap::new();
        inos.insert(1u64, (fd, 2u64));
        Shadow { cfg: cfg.effective(), inos, handles: HashMap::new(), tainted: vec![], notes: vec![] }
    }

    pub fn knows(&self, ino: u64) -> bool {
        self.inos.contains_key(&ino)
    }

    pub fn fd_of(&self, ino: u64) -> Option<RawFd> {
        self.inos.get(&ino).map(|x| x.0)
    }

    fn ino(&self, ino: u64) -> Result<RawFd, i32> {
        self.inos.get(&ino).map(|x| x.0).ok_or(libc::EBADF)
    }

    fn handle(&self, h: u64, ino: u64) -> Result<&H, i32> {
        match self.handles.get(&h) {
            Some(x) if x.ino == ino => Ok(x),
            _ => Err(libc::EBADF),
        }
    }

    /// register what a successful entry reply of the implementation names `ino`
    fn register(&mut self, ino: u64, fd: RawFd) {
        if let Some(e) = self.inos.get_mut(&ino) {
            e.1 += 1;
            let a = fstat_fd(e.0).map(|s| (s.st_dev, s.st_ino));
            let b = fstat_fd(fd).map(|s| (s.st_dev, s.st_ino));
            if a != b {
                self.notes.push(format!("inode {} names two different shadow objects", ino));
            }
            unsafe { libc::close(fd) };
        } else {
            // two different inode numbers for one object?
            let b = fstat_fd(fd).map(|s| (s.st_dev, s.st_ino)).ok();
            for (k, v) in self.inos.iter() {
                if fstat_fd(v.0).map(|s| (s.st_dev, s.st_ino)).ok() == b {
                    self.notes.push(format!("inodes {} and {} name the same shadow object", k, ino));
                }
            }
            self.inos.insert(ino, (fd, 1));
        }
    }

    /// F8 (C08/C15, another engine): a CREATE that fails after its internal lookup leaves one
    /// reference behind; remember which known inode that is so that the generator does not treat
    /// "still valid after the last forget" on it as a C05 difference.
    fn taint(&mut self, parent: u64, name: &[u8]) {
        if false {
            return;
        }
        if self.tainted.len() > 1_000_000 {
            return;
        }
        if let Ok(fd) = self.lookup_fd(parent, name) {
            let k = fstat_fd(fd).map(|s| (s.st_dev, s.st_ino)).ok();
            unsafe { libc::close(fd) };
            let hit: Vec<u64> = self.inos.iter().filter(|(_, v)| fstat_fd(v.0).map(|s| (s.st_dev, s.st_ino)).ok() == k).map(|(i, _)| *i).collect();
            self.tainted.extend(hit);
        }
    }

    fn lookup_fd(&self, parent: u64, name: &[u8]) -> Result<RawFd, i32> {
        let pfd = self.ino(parent)?;
        let nm: &[u8] = if parent == 1 && name == b".." { b"." } else { name };
        let fd = unsafe { libc::openat(pfd, cstr(nm).as_ptr(), O_PATH_NOFOLLOW) };
        if fd < 0 {
            Err(errno())
        } else {
            Ok(fd)
        }
    }

    fn entry(&mut self, parent: u64, name: &[u8], imp: &Reply) -> Reply {
        match self.lookup_fd(parent, name) {
            Err(e) => Reply::Err(e),
            Ok(fd) => match fstat_fd(fd) {
                Err(e) => {
                    unsafe { libc::close(fd) };
                    Reply::Err(e)
                }
                Ok(st) => {
                    let ino = match imp {
                        Reply::Entry { ino, .. } | Reply::Created { ino, .. } => Some(*ino),
                        _ => None,
                    };
                    match ino {
                        Some(i) => self.register(i, fd),
                        None => {
                            unsafe { libc::close(fd) };
                        }
                    }
                    Reply::Entry { ino: ino.unwrap_or(0), attr: Attr::from_stat(&st), flags: 0, et: 0, at: 0 }
                }
            },
        }
    }

    /// flags as the passthrough applies them when it re-opens an inode for I/O
    fn io_flags(&self, flags: i32) -> i32 {
        let mut f = flags;
        if self.cfg.writeback && flags & libc::O_ACCMODE == libc::O_WRONLY {
            f = (f & !libc::O_ACCMODE) | libc::O_RDWR;
        }
        if self.cfg.writeback && flags & libc::O_APPEND != 0 {
            f &= !libc::O_APPEND;
        }
        if !self.cfg.allow_direct_io {
            f &= !libc::O_DIRECT;
        }
        (f | libc::O_CLOEXEC) & !libc::O_NOFOLLOW & !libc::O_CREAT
    }

    /// open the object of `ino` for I/O (regular files and directories only)
    fn open_io(&self, ino: u64, flags: i32) -> Result<RawFd, i32> {
        let pfd = self.ino(ino)?;
        let st = fstat_fd(pfd)?;
        if !is_safe(st.st_mode) {
            return Err(libc::EBADF);
        }
        let fd = unsafe { libc::open(proc_path(pfd).as_ptr(), self.io_flags(flags)) };
        if fd < 0 {
            Err(errno())
        } else {
            Ok(fd)
        }
    }

    /// descriptor used by read/write/fsync/fallocate: the handle's, or a fresh one with no_open
    fn data_fd(&mut self, ino: u64, handle: u64, fresh_flags: i32, dir: bool) -> Result<(RawFd, bool, u32), i32> {
        let no = if dir { self.cfg.no_opendir } else { self.cfg.no_open };
        if !no {
            let h = self.handle(handle, ino)?;
            Ok((h.fd, false, h.flags))
        } else {
            let fl = if dir { fresh_flags | libc::O_DIRECTORY } else { fresh_flags };
            let fd = self.open_io(ino, fl)?;
            Ok((fd, true, fresh_flags as u32))
        }
    }

    fn set_fl(&mut self, handle: u64, fd: RawFd, temp: bool, cur: u32, flags: u32) -> Result<(), i32> {
        if cur != flags {
            let rc = unsafe { libc::fcntl(fd, libc::F_SETFL, flags as libc::c_int) };
            if rc != 0 {
                return Err(errno());
            }
            if !temp {
                if let Some(h) = self.handles.get_mut(&handle) {
                    h.flags = flags;
                }
            }
        }
        Ok(())
    }

    /// FUSE "kill suid/sgid" semantics = perform the call as a writer without CAP_FSETID: the
    /// capability is dropped from the effective set around `f` (plain capget/capset).
    fn without_fsetid<T>(drop_it: bool, f: impl FnOnce() -> T) -> T {
        if !drop_it {
            return f();
        }
        let mut hdr = [0x2008_0522u32, 0u32];
        let mut data = [0u32; 6];
        let ok = unsafe { libc::syscall(libc::SYS_capget, hdr.as_mut_ptr(), data.as_mut_ptr()) } == 0;
        let saved = data;
        if ok {
            data[0] &= !(1 << 4);
            unsafe { libc::syscall(libc::SYS_capset, hdr.as_mut_ptr(), data.as_ptr()) };
        }
        let v = f();
        if ok {
            let mut d = saved;
            unsafe { libc::syscall(libc::SYS_capset, hdr.as_mut_ptr(), d.as_mut_ptr()) };
        }
        v
    }

    pub fn resolve(r: &Ref, table: &[u64]) -> u64 {
        match r {
            Ref::Raw(n) => *n,
            Ref::Idx(k) => table.get(*k).copied().unwrap_or(u64::MAX - 7),
        }
    }

    /// execute `op`; `imp` is the implementation's reply (source of inode / handle *names*)
    pub fn exec(&mut self, op: &Op, imp: &Reply, inos: &[u64], hs: &[u64]) -> Reply {
        let ri = |r: &Ref| Shadow::resolve(r, inos);
        let rh = |r: &Ref| Shadow::resolve(r, hs);
        let bad_name = |n: &[u8]| self.cfg.standalone && matches!(super::shadow::name_kind(n), "slash" | "dot" | "dotdot");
        match op {
            Op::Lookup { parent, name } => {
                if name.contains(&b'/') {
                    return Reply::Err(libc::EINVAL);
                }
                self.entry(ri(parent), name, imp)
            }
            Op::Forget { ino, count } => {
                let i = ri(ino);
                if i != 1 {
                    if let Some(e) = self.inos.get_mut(&i) {
                        e.1 = e.1.saturating_sub(*count & !crate::ops::VIA_BATCH);
                        if e.1 == 0 {
                            unsafe { libc::close(e.0) };
                            self.inos.remove(&i);
                        }
                    }
                }
                Reply::Unit
            }
            Op::Getattr { ino, handle } => {
                let i = ri(ino);
                let fd = match self.ino(i) {
                    Ok(f) => f,
                    Err(e) => return Reply::Err(e),
                };
                let fd = match handle {
                    Some(h) if !self.cfg.no_open => match self.handle(rh(h), i) {
                        Ok(h) => h.fd,
                        Err(e) => return Reply::Err(e),
                    },
                    _ => fd,
                };
                match fstat_fd(fd) {
                    Ok(st) => Reply::Attr { attr: Attr::from_stat(&st), at: 0 },
                    Err(e) => Reply::Err(e),
                }
            }
            Op::Setattr { ino, handle, valid, mode, uid, gid, size, atime, atimens, mtime, mtimens } => {
                let i = ri(ino);
                let pfd = match self.ino(i) {
                    Ok(f) => f,
                    Err(e) => return Reply::Err(e),
                };
                let hfd: Option<RawFd> = match handle {
                    Some(h) if !self.cfg.no_open => match self.handle(rh(h), i) {
                        Ok(h) => Some(h.fd),
                        Err(e) => return Reply::Err(e),
                    },
                    _ => None,
                };
                const MODE: u32 = 1;
                const UID: u32 = 2;
                const GID: u32 = 4;
                const SIZE: u32 = 8;
                const ATIME: u32 = 16;
                const MTIME: u32 = 32;
                const ATIME_NOW: u32 = 128;
                const MTIME_NOW: u32 = 256;
                const KILL: u32 = 2048;
                if valid & MODE != 0 {
                    let rc = match hfd {
                        Some(f) => unsafe { libc::fchmod(f, *mode) },
                        None => unsafe { libc::chmod(proc_path(pfd).as_ptr(), *mode) },
                    };
                    if rc < 0 {
                        return Reply::Err(errno());
                    }
                }
                if valid & (UID | GID) != 0 {
                    let u = if valid & UID != 0 { *uid } else { u32::MAX };
                    let g = if valid & GID != 0 { *gid } else { u32::MAX };
                    let rc = unsafe { libc::fchownat(pfd, c"".as_ptr(), u, g, libc::AT_EMPTY_PATH | libc::AT_SYMLINK_NOFOLLOW) };
                    if rc < 0 {
                        return Reply::Err(errno());
                    }
                }
                if valid & SIZE != 0 {
                    let kill = self.cfg.killpriv_v2 && valid & KILL != 0;
                    let rc = match hfd {
                        Some(f) => Shadow::without_fsetid(kill, || unsafe { libc::ftruncate(f, *size as i64) }),
                        None => match Shadow::without_fsetid(kill, || self.open_io(i, libc::O_NONBLOCK | libc::O_RDWR)) {
                            Err(e) => return Reply::Err(e),
                            Ok(f) => {
                                let rc = Shadow::without_fsetid(kill, || unsafe { libc::ftruncate(f, *size as i64) });
                                let e = errno();
                                unsafe { libc::close(f) };
                                if rc < 0 {
                                    return Reply::Err(e);
                                }
                                rc
                            }
                        },
                    };
                    if rc < 0 {
                        return Reply::Err(errno());
                    }
                }
                if valid & (ATIME | MTIME) != 0 {
                    let mut tv = [libc::timespec { tv_sec: 0, tv_nsec: libc::UTIME_OMIT }; 2];
                    if valid & ATIME_NOW != 0 {
                        tv[0].tv_nsec = libc::UTIME_NOW;
                    } else if valid & ATIME != 0 {
                        tv[0] = libc::timespec { tv_sec: *atime, tv_nsec: *atimens };
                    }
                    if valid & MTIME_NOW != 0 {
                        tv[1].tv_nsec = libc::UTIME_NOW;
                    } else if valid & MTIME != 0 {
                        tv[1] = libc::timespec { tv_sec: *mtime, tv_nsec: *mtimens };
                    }
                    let rc = match hfd {
                        Some(f) => unsafe { libc::futimens(f, tv.as_ptr()) },
                        None => unsafe { libc::utimensat(libc::AT_FDCWD, proc_path(pfd).as_ptr(), tv.as_ptr(), 0) },
                    };
                    if rc < 0 {
                        return Reply::Err(errno());
                    }
                }
                let sfd = match (handle, hfd) {
                    (Some(_), Some(f)) => f,
                    _ => pfd,
                };
                match fstat_fd(sfd) {
                    Ok(st) => Reply::Attr { attr: Attr::from_stat(&st), at: 0 },
                    Err(e) => Reply::Err(e),
                }
            }
            Op::Readlink { ino } => {
                let fd = match self.ino(ri(ino)) {
                    Ok(f) => f,
                    Err(e) => return Reply::Err(e),
                };
                let mut buf = vec![0u8; libc::PATH_MAX as usize];
                let n = unsafe { libc::readlinkat(fd, c"".as_ptr(), buf.as_mut_ptr() as *mut libc::c_char, buf.len()) };
                if n < 0 {
                    Reply::Err(errno())
                } else {
                    Reply::Data(buf[..n as usize].to_vec())
                }
            }
            Op::Symlink { uid, gid, target, parent, name } => {
                if bad_name(name) {
                    return Reply::Err(libc::EINVAL);
                }
                let p = ri(parent);
                let pfd = match self.ino(p) {
                    Ok(f) => f,
                    Err(e) => return Reply::Err(e),
                };
                let rc = {
                    let _c = Caller::new(*uid, *gid);
                    let rc = unsafe { libc::symlinkat(cstr(target).as_ptr(), pfd, cstr(name).as_ptr()) };
                    if rc < 0 { -errno() } else { 0 }
                };
                if rc < 0 {
                    return Reply::Err(-rc);
                }
                self.entry(p, name, imp)
            }
            Op::Mknod { uid, gid, parent, name, mode, rdev, umask } => {
                if bad_name(name) {
                    return Reply::Err(libc::EINVAL);
                }
                let p = ri(parent);
                let pfd = match self.ino(p) {
                    Ok(f) => f,
                    Err(e) => return Reply::Err(e),
                };
                let rc = {
                    let _c = Caller::new(*uid, *gid);
                    let rc = unsafe { libc::mknodat(pfd, cstr(name).as_ptr(), mode & !umask, *rdev as libc::dev_t) };
                    if rc < 0 { -errno() } else { 0 }
                };
                if rc < 0 {
                    return Reply::Err(-rc);
                }
                self.entry(p, name, imp)
            }
            Op::Mkdir { uid, gid, parent, name, mode, umask } => {
                if bad_name(name) {
                    return Reply::Err(libc::EINVAL);
                }
                let p = ri(parent);
                let pfd = match self.ino(p) {
                    Ok(f) => f,
                    Err(e) => return Reply::Err(e),
                };
                let rc = {
                    let _c = Caller::new(*uid, *gid);
                    let rc = unsafe { libc::mkdirat(pfd, cstr(name).as_ptr(), mode & !umask) };
                    if rc < 0 { -errno() } else { 0 }
                };
                if rc < 0 {
                    return Reply::Err(-rc);
                }
                self.entry(p, name, imp)
            }
            Op::Unlink { parent, name } | Op::Rmdir { parent, name } => {
                if bad_name(name) {
                    return Reply::Err(libc::EINVAL);
                }
                let pfd = match self.ino(ri(parent)) {
                    Ok(f) => f,
                    Err(e) => return Reply::Err(e),
                };
                let fl = if matches!(op, Op::Rmdir { .. }) { libc::AT_REMOVEDIR } else { 0 };
                let rc = unsafe { libc::unlinkat(pfd, cstr(name).as_ptr(), fl) };
                if rc < 0 {
                    Reply::Err(errno())
                } else {
                    Reply::Unit
                }
            }
            Op::Rename { odir, oname, ndir, nname, flags } => {
                if bad_name(oname) || bad_name(nname) {
                    return Reply::Err(libc::EINVAL);
                }
                let ofd = match self.ino(ri(odir)) {
                    Ok(f) => f,
                    Err(e) => return Reply::Err(e),
                };
                let nfd = match self.ino(ri(ndir)) {
                    Ok(f) => f,
                    Err(e) => return Reply::Err(e),
                };
                let rc = unsafe { libc::syscall(libc::SYS_renameat2, ofd, cstr(oname).as_ptr(), nfd, cstr(nname).as_ptr(), *flags) };
                if rc != 0 {
                    Reply::Err(errno())
                } else {
                    Reply::Unit
                }
            }
            Op::Link { ino, newparent, newname } => {
                if bad_name(newname) {
                    return Reply::Err(libc::EINVAL);
                }
                let fd = match self.ino(ri(ino)) {
                    Ok(f) => f,
                    Err(e) => return Reply::Err(e),
                };
                let np = ri(newparent);
                let nfd = match self.ino(np) {
                    Ok(f) => f,
                    Err(e) => return Reply::Err(e),
                };
                let rc = unsafe { libc::linkat(fd, c"".as_ptr(), nfd, cstr(newname).as_ptr(), libc::AT_EMPTY_PATH) };
                if rc != 0 {
                    return Reply::Err(errno());
                }
                self.entry(np, newname, imp)
            }
            Op::Open { ino, flags, .. } | Op::Opendir { ino, flags } => {
                let dir = matches!(op, Op::Opendir { .. });
                let kill = match op {
                    Op::Open { fuse_flags, .. } => self.cfg.killpriv_v2 && fuse_flags & 1 != 0,
                    _ => false,
                };
                if (dir && self.cfg.no_opendir) || (!dir && self.cfg.no_open) {
                    return Reply::Err(libc::ENOSYS);
                }
                let i = ri(ino);
                let fl = if dir { *flags as i32 | libc::O_DIRECTORY } else { *flags as i32 };
                match Shadow::without_fsetid(kill, || self.open_io(i, fl)) {
                    Err(e) => Reply::Err(e),
                    Ok(fd) => {
                        if let Reply::Open { handle: Some(h), .. } = imp {
                            let stored = if dir { *flags | libc::O_DIRECTORY as u32 } else { *flags };
                            self.handles.insert(*h, H { fd, ino: i, flags: stored });
                        } else {
                            unsafe { libc::close(fd) };
                        }
                        Reply::Open { handle: None, opts: 0 }
                    }
                }
            }
            Op::Create { uid, gid, parent, name, flags, mode, umask, fuse_flags } => {
                if bad_name(name) {
                    return Reply::Err(libc::EINVAL);
                }
                let p = ri(parent);
                let pfd = match self.ino(p) {
                    Ok(f) => f,
                    Err(e) => return Reply::Err(e),
                };
                let mut wf = *flags as i32;
                if self.cfg.writeback && wf & libc::O_ACCMODE == libc::O_WRONLY {
                    wf = (wf & !libc::O_ACCMODE) | libc::O_RDWR;
                }
                if self.cfg.writeback && wf & libc::O_APPEND != 0 {
                    wf &= !libc::O_APPEND;
                }
                let created = {
                    let _c = Caller::new(*uid, *gid);
                    let fd = unsafe { libc::openat(pfd, cstr(name).as_ptr(), wf | libc::O_CREAT | libc::O_EXCL, mode & !(umask & 0o777)) };
                    if fd < 0 { Err(errno()) } else { Ok(fd) }
                };
                let fd = match created {
                    Ok(fd) => Some(fd),
                    Err(e) if e == libc::EEXIST && (*flags as i32 & libc::O_EXCL) == 0 => None,
                    Err(e) => return Reply::Err(e),
                };
                // the entry is looked up before the existing file is opened
                let ent = self.entry(p, name, imp);
                let (eino, attr) = match &ent {
                    Reply::Entry { ino, attr, .. } => (*ino, attr.clone()),
                    other => {
                        if let Some(f) = fd {
                            unsafe { libc::close(f) };
                        }
                        return other.clone();
                    }
                };
                let fd = match fd {
                    Some(f) => f,
                    None => {
                        // existing object: opened with the caller's credentials; special files never;
                        // a directory: open(O_CREAT) says EISDIR
                        if attr.mode & libc::S_IFMT == libc::S_IFDIR {
                            return Reply::Err(libc::EISDIR);
                        }
                        if !is_safe(attr.mode) {
                            self.taint(p, name);
                            return Reply::Err(libc::EBADF);
                        }
                        let tfd = match self.lookup_fd(p, name) {
                            Ok(f) => f,
                            Err(e) => return Reply::Err(e),
                        };
                        let kill = self.cfg.killpriv_v2 && fuse_flags & 1 != 0;
                        let r = Shadow::without_fsetid(kill, || {
                            let _c = Caller::new(*uid, *gid);
                            let f = unsafe { libc::open(proc_path(tfd).as_ptr(), self.io_flags(*flags as i32)) };
                            if f < 0 { Err(errno()) } else { Ok(f) }
                        });
                        unsafe { libc::close(tfd) };
                        match r {
                            Ok(f) => f,
                            Err(e) => {
                                self.taint(p, name);
                                return Reply::Err(e);
                            }
                        }
                    }
                };
                match imp {
                    Reply::Created { handle: Some(h), ino, .. } => {
                        self.handles.insert(*h, H { fd, ino: *ino, flags: *flags });
                    }
                    _ => unsafe {
                        libc::close(fd);
                    },
                }
                Reply::Created { ino: eino, attr, et: 0, at: 0, handle: None, opts: 0 }
            }
            Op::Read { ino, handle, size, offset, flags } => {
                let (i, h) = (ri(ino), rh(handle));
                let (fd, temp, cur) = match self.data_fd(i, h, libc::O_RDONLY, false) {
                    Ok(x) => x,
                    Err(e) => return Reply::Err(e),
                };
                let res = (|| {
                    self.set_fl(h, fd, temp, cur, *flags)?;
                    let mut buf = vec![0u8; *size as usize];
                    let iov = libc::iovec { iov_base: buf.as_mut_ptr() as *mut libc::c_void, iov_len: buf.len() };
                    let n = unsafe { libc::preadv64(fd, &iov, 1, *offset as i64) };
                    if n < 0 {
                        return Err(errno());
                    }
                    buf.truncate(n as usize);
                    Ok(buf)
                })();
                if temp {
                    unsafe { libc::close(fd) };
                }
                match res {
                    Ok(b) => Reply::Data(b),
                    Err(e) => Reply::Err(e),
                }
            }
            Op::Write { ino, handle, data, offset, flags, fuse_flags } => {
                let (i, h) = (ri(ino), rh(handle));
                let (fd, temp, cur) = match self.data_fd(i, h, libc::O_RDWR, false) {
                    Ok(x) => x,
                    Err(e) => return Reply::Err(e),
                };
                let kill = self.cfg.killpriv_v2 && fuse_flags & 4 != 0;
                let res = (|| {
                    self.set_fl(h, fd, temp, cur, *flags)?;
                    let iov = libc::iovec { iov_base: data.as_ptr() as *mut libc::c_void, iov_len: data.len() };
                    let n = Shadow::without_fsetid(kill, || unsafe { libc::pwritev64(fd, &iov, 1, *offset as i64) });
                    if n < 0 {
                        return Err(errno());
                    }
                    Ok(n as u64)
                })();
                if temp {
                    unsafe { libc::close(fd) };
                }
                match res {
                    Ok(n) => Reply::Count(n),
                    Err(e) => Reply::Err(e),
                }
            }
            Op::Flush { ino, handle } => {
                if self.cfg.no_open {
                    return Reply::Err(libc::ENOSYS);
                }
                match self.handle(rh(handle), ri(ino)) {
                    Ok(_) => Reply::Unit,
                    Err(e) => Reply::Err(e),
                }
            }
            Op::Fsync { ino, handle, datasync } | Op::Fsyncdir { ino, handle, datasync } => {
                let dir = matches!(op, Op::Fsyncdir { .. });
                let (fd, temp, _) = match self.data_fd(ri(ino), rh(handle), libc::O_RDONLY, dir) {
                    Ok(x) => x,
                    Err(e) => return Reply::Err(e),
                };
                let rc = unsafe { if *datasync { libc::fdatasync(fd) } else { libc::fsync(fd) } };
                let e = errno();
                if temp {
                    unsafe { libc::close(fd) };
                }
                if rc != 0 {
                    Reply::Err(e)
                } else {
                    Reply::Unit
                }
            }
            Op::Release { ino, handle } | Op::Releasedir { ino, handle } => {
                let dir = matches!(op, Op::Releasedir { .. });
                if (dir && self.cfg.no_opendir) || (!dir && self.cfg.no_open) {
                    return Reply::Err(libc::ENOSYS);
                }
                let h = rh(handle);
                match self.handle(h, ri(ino)) {
                    Ok(x) => {
                        unsafe { libc::close(x.fd) };
                        self.handles.remove(&h);
                        Reply::Unit
                    }
                    Err(e) => Reply::Err(e),
                }
            }
            Op::Fallocate { ino, handle, mode, offset, length } => {
                let (fd, temp, _) = match self.data_fd(ri(ino), rh(handle), libc::O_RDWR, false) {
                    Ok(x) => x,
                    Err(e) => return Reply::Err(e),
                };
                let rc = unsafe { libc::fallocate64(fd, *mode as i32, *offset as i64, *length as i64) };
                let e = errno();
                if temp {
                    unsafe { libc::close(fd) };
                }
                if rc != 0 {
                    Reply::Err(e)
                } else {
                    Reply::Unit
                }
            }
            Op::Lseek { ino, handle, offset, whence } => match self.handle(rh(handle), ri(ino)) {
                Err(e) => Reply::Err(e),
                Ok(h) => {
                    let r = unsafe { libc::lseek64(h.fd, *offset as i64, *whence as i32) };
                    if r < 0 {
                        Reply::Err(errno())
                    } else {
                        Reply::Count(r as u64)
                    }
                }
            },
            Op::Statfs { ino } => match self.ino(ri(ino)) {
                Err(e) => Reply::Err(e),
                Ok(fd) => {
                    let mut st = std::mem::MaybeUninit::<libc::statvfs64>::zeroed();
                    if unsafe { libc::fstatvfs64(fd, st.as_mut_ptr()) } == 0 {
                        let st = unsafe { st.assume_init() };
                        Reply::Statfs { namemax: st.f_namemax, bsize: st.f_bsize }
                    } else {
                        Reply::Err(errno())
                    }
                }
            },
            Op::Setxattr { ino, name, value, flags } => {
                if !self.cfg.xattr {
                    return Reply::Err(libc::ENOSYS);
                }
                match self.ino(ri(ino)) {
                    Err(e) => Reply::Err(e),
                    Ok(fd) => {
                        let rc = unsafe { libc::setxattr(proc_path(fd).as_ptr(), cstr(name).as_ptr(), value.as_ptr() as *const libc::c_void, value.len(), *flags as i32) };
                        if rc != 0 {
                            Reply::Err(errno())
                        } else {
                            Reply::Unit
                        }
                    }
                }
            }
            Op::Getxattr { ino, name, size } => {
                if !self.cfg.xattr {
                    return Reply::Err(libc::ENOSYS);
                }
                match self.ino(ri(ino)) {
                    Err(e) => Reply::Err(e),
                    Ok(fd) => {
                        let mut buf = vec![0u8; *size as usize];
                        let n = unsafe { libc::getxattr(proc_path(fd).as_ptr(), cstr(name).as_ptr(), buf.as_mut_ptr() as *mut libc::c_void, buf.len()) };
                        if n < 0 {
                            Reply::Err(errno())
                        } else if *size == 0 {
                            Reply::Count(n as u64)
                        } else {
                            buf.truncate(n as usize);
                            Reply::Data(buf)
                        }
                    }
                }
            }
            Op::Listxattr { ino, size } => {
                if !self.cfg.xattr {
                    return Reply::Err(libc::ENOSYS);
                }
                match self.ino(ri(ino)) {
                    Err(e) => Reply::Err(e),
                    Ok(fd) => {
                        let mut buf = vec![0u8; *size as usize];
                        let n = unsafe { libc::listxattr(proc_path(fd).as_ptr(), buf.as_mut_ptr() as *mut libc::c_char, buf.len()) };
                        if n < 0 {
                            Reply::Err(errno())
                        } else if *size == 0 {
                            Reply::Count(n as u64)
                        } else {
                            buf.truncate(n as usize);
                            Reply::Data(buf)
                        }
                    }
                }
            }
            Op::Removexattr { ino, name } => {
                if !self.cfg.xattr {
                    return Reply::Err(libc::ENOSYS);
                }
                match self.ino(ri(ino)) {
                    Err(e) => Reply::Err(e),
                    Ok(fd) => {
                        let rc = unsafe { libc::removexattr(proc_path(fd).as_ptr(), cstr(name).as_ptr()) };
                        if rc != 0 {
                            Reply::Err(errno())
                        } else {
                            Reply::Unit
                        }
                    }
                }
            }
        }
    }
}

impl Drop for Shadow {
    fn drop(&mut self) {
        for (_, v) in self.inos.iter() {
            unsafe { libc::close(v.0) };
        }
        for (_, h) in self.handles.iter() {
            unsafe { libc::close(h.fd) };
        }
    }
}
