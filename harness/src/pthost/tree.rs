//! Temp trees for the `pthost` engine: export root inside a sentinel tree, shadow root for the
//! host oracle, canonical snapshots used for tree comparison and for the sentinel check.
use std::collections::{BTreeMap, BTreeSet};
use std::ffi::{CStr, CString, OsStr};
use std::os::unix::ffi::OsStrExt;
use std::os::unix::fs::MetadataExt;

use fbrh::prng::Prng;
use fbrh::util::{hex, unhex};

#[derive(Clone, Debug, PartialEq)]
pub enum Kind {
    Dir,
    File,
    Symlink,
    Fifo,
    Chr,
    /// hard link to another path of the same tree (data = that path)
    Hard,
    /// hard link to a file that lives outside the export (in the sentinel tree)
    HardOut,
}

#[derive(Clone, Debug)]
pub struct SpecEnt {
    pub path: String,
    pub kind: Kind,
    pub mode: u32,
    pub uid: u32,
    pub gid: u32,
    /// file content / symlink target / hard-link source
    pub data: Vec<u8>,
}

#[derive(Clone, Debug, Default)]
pub struct Spec {
    pub ents: Vec<SpecEnt>,
}

pub const NAMES: [&str; 6] = ["a", "b", "c", "d", "e", "f"];

fn kind_tag(k: &Kind) -> &'static str {
    match k {
        Kind::Dir => "d",
        Kind::File => "f",
        Kind::Symlink => "l",
        Kind::Fifo => "p",
        Kind::Chr => "c",
        Kind::Hard => "h",
        Kind::HardOut => "o",
    }
}

impl Spec {
    /// `path:kind:mode:uid:gid:datahex` joined by ','
    pub fn show(&self) -> String {
        self.ents
            .iter()
            .map(|e| format!("{}:{}:{}:{}:{}:{}", hex(e.path.as_bytes()), kind_tag(&e.kind), e.mode, e.uid, e.gid, hex(&e.data)))
            .collect::<Vec<_>>()
            .join(",")
    }
    pub fn parse(s: &str) -> Spec {
        let mut ents = Vec::new();
        for it in s.split(',').filter(|x| !x.is_empty()) {
            let p: Vec<&str> = it.split(':').collect();
            if p.len() < 6 {
                continue;
            }
            let kind = match p[1] {
                "d" => Kind::Dir,
                "f" => Kind::File,
                "l" => Kind::Symlink,
                "p" => Kind::Fifo,
                "c" => Kind::Chr,
                "h" => Kind::Hard,
                _ => Kind::HardOut,
            };
            ents.push(SpecEnt {
                path: String::from_utf8_lossy(&unhex(p[0])).to_string(),
                kind,
                mode: p[2].parse().unwrap_or(0o644),
                uid: p[3].parse().unwrap_or(0),
                gid: p[4].parse().unwrap_or(0),
                data: unhex(p[5]),
            });
        }
        Spec { ents }
    }

    /// Random initial tree over the 6-name universe (depth <= 2): files, dirs, symlinks (inside,
    /// dangling, and -- when `adversarial` -- pointing out of the export, absolute and relative),
    /// fifos, hard links, one char device, one hard link to an outside file.
    pub fn random(r: &mut Prng, adversarial: bool, sent_abs: &str) -> Spec {
        let mut ents: Vec<SpecEnt> = Vec::new();
        let ids = [0u32, 1000, 1001];
        let fmodes = [0o644u32, 0o600, 0o666, 0o755, 0o4755, 0o2755, 0o640, 0o444];
        let dmodes = [0o755u32, 0o777, 0o700, 0o775, 0o1777];
        let mut files: Vec<String> = Vec::new();
        let mut dirs: Vec<String> = vec![String::new()];
        for depth in 0..2 {
            let parents: Vec<String> = dirs.clone();
            for p in parents {
                if depth == 1 && p.is_empty() {
                    continue;
                }
                if depth == 0 && !p.is_empty() {
                    continue;
                }
                for n in NAMES.iter() {
                    let path = if p.is_empty() { n.to_string() } else { format!("{}/{}", p, n) };
                    let pr = if depth == 0 { 75 } else { 30 };
                    if r.below(100) >= pr {
                        continue;
                    }
                    let uid = *r.pick(&ids);
                    let gid = *r.pick(&ids);
                    let k = r.below(if adversarial { 14 } else { 12 });
                    let e = match k {
                        0..=3 => {
                            files.push(path.clone());
                            let n = *r.pick(&[0usize, 1, 5, 17, 100, 4096, 5000]);
                            SpecEnt { path, kind: Kind::File, mode: *r.pick(&fmodes), uid, gid, data: format!("{}.{}", n, r.below(200)).into_bytes() }
                        }
                        4..=6 if depth == 0 => {
                            dirs.push(path.clone());
                            SpecEnt { path, kind: Kind::Dir, mode: *r.pick(&dmodes), uid, gid, data: vec![] }
                        }
                        7 => {
                            let t = match r.below(4) {
                                0 => "nonexistent".to_string(),
                                1 => ".".to_string(),
                                _ => NAMES[r.below(6) as usize].to_string(),
                            };
                            SpecEnt { path, kind: Kind::Symlink, mode: 0o777, uid, gid, data: t.into_bytes() }
                        }
                        8 => SpecEnt { path, kind: Kind::Fifo, mode: *r.pick(&fmodes) & 0o777, uid, gid, data: vec![] },
                        9 if !files.is_empty() => {
                            let src = r.pick(&files).clone();
                            SpecEnt { path, kind: Kind::Hard, mode: 0, uid: 0, gid: 0, data: src.into_bytes() }
                        }
                        10 => SpecEnt { path, kind: Kind::Chr, mode: 0o666, uid, gid, data: vec![] },
                        12 | 13 => {
                            // symlinks leaving the export
                            let up = if depth == 0 { ".." } else { "../.." };
                            let t = match r.below(6) {
                                0 => format!("{}/secret", sent_abs),
                                1 => format!("{}/secret", up),
                                2 => format!("{}/sib", up),
                                3 => up.to_string(),
                                4 => format!("{}/sib", sent_abs),
                                _ => "/".to_string(),
                            };
                            SpecEnt { path, kind: Kind::Symlink, mode: 0o777, uid, gid, data: t.into_bytes() }
                        }
                        _ => {
                            files.push(path.clone());
                            SpecEnt { path, kind: Kind::File, mode: *r.pick(&fmodes), uid, gid, data: format!("8.{}", r.below(200)).into_bytes() }
                        }
                    };
                    ents.push(e);
                }
            }
        }
        // the hard link to an outside file (name outside the universe so that it always exists)
        ents.push(SpecEnt { path: "hl".into(), kind: Kind::HardOut, mode: 0, uid: 0, gid: 0, data: vec![] });
        Spec { ents }
    }
}

/// a file's `data` is the ASCII text `<len>.<seed>`; its content is a fixed pattern of that length
pub fn file_content(data: &[u8]) -> Vec<u8> {
    let t = String::from_utf8_lossy(data);
    let mut it = t.split('.');
    let len: usize = it.next().and_then(|x| x.parse().ok()).unwrap_or(0);
    let seed: usize = it.next().and_then(|x| x.parse().ok()).unwrap_or(0);
    (0..len).map(|i| ((i * 7 + seed * 13 + i / 251) % 251) as u8).collect()
}

pub fn cstr(b: &[u8]) -> CString {
    CString::new(b.to_vec()).unwrap_or_else(|_| CString::new("nul").unwrap())
}

fn chk(rc: i32, what: &str) {
    if rc != 0 {
        panic!("tree setup: {} failed: {}", what, std::io::Error::last_os_error());
    }
}

/// build `spec` below `root` (which must exist); `hl_out` is the outside file for `HardOut`
pub fn build(root: &str, spec: &Spec, hl_out: &str, sent: &str) {
    unsafe { libc::umask(0) };
    for e in &spec.ents {
        let p = format!("{}/{}", root, e.path);
        let c = cstr(p.as_bytes());
        match e.kind {
            Kind::Dir => chk(unsafe { libc::mkdir(c.as_ptr(), 0o700) }, "mkdir"),
            Kind::File => std::fs::write(&p, file_content(&e.data)).unwrap(),
            Kind::Symlink => {
                let t = String::from_utf8_lossy(&e.data).replace("{SENT}", sent);
                chk(unsafe { libc::symlink(cstr(t.as_bytes()).as_ptr(), c.as_ptr()) }, "symlink")
            }
            Kind::Fifo => chk(unsafe { libc::mkfifo(c.as_ptr(), 0o600) }, "mkfifo"),
            Kind::Chr => chk(unsafe { libc::mknod(c.as_ptr(), libc::S_IFCHR | 0o600, libc::makedev(1, 3)) }, "mknod"),
            Kind::Hard => {
                let s = cstr(format!("{}/{}", root, String::from_utf8_lossy(&e.data)).as_bytes());
                chk(unsafe { libc::link(s.as_ptr(), c.as_ptr()) }, "link");
                continue;
            }
            Kind::HardOut => {
                chk(unsafe { libc::link(cstr(hl_out.as_bytes()).as_ptr(), c.as_ptr()) }, "link-out");
                continue;
            }
        }
        chk(unsafe { libc::lchown(c.as_ptr(), e.uid, e.gid) }, "lchown");
        if e.kind != Kind::Symlink {
            chk(unsafe { libc::chmod(c.as_ptr(), e.mode) }, "chmod");
        }
    }
    // directories last-modified order does not matter; modes of dirs were set after creation of
    // their children because children are listed after their parent and created as root
}

fn xattrs_of(path: &CStr) -> String {
    let mut buf = vec![0u8; 4096];
    let n = unsafe { libc::llistxattr(path.as_ptr(), buf.as_mut_ptr() as *mut libc::c_char, buf.len()) };
    if n <= 0 {
        return String::new();
    }
    let mut out: Vec<String> = Vec::new();
    for name in buf[..n as usize].split(|&b| b == 0).filter(|s| !s.is_empty()) {
        let cn = cstr(name);
        let mut v = vec![0u8; 4096];
        let m = unsafe { libc::lgetxattr(path.as_ptr(), cn.as_ptr(), v.as_mut_ptr() as *mut libc::c_void, v.len()) };
        let val = if m >= 0 { hex(&v[..m as usize]) } else { "?".into() };
        out.push(format!("{}={}", hex(name), val));
    }
    out.sort();
    out.join("+")
}

fn fnv(data: &[u8]) -> u64 {
    let mut h: u64 = 0xcbf29ce484222325;
    for b in data {
        h ^= *b as u64;
        h = h.wrapping_mul(0x100000001b3);
    }
    h
}

/// explicit times (set by a request, always < 10^9) are compared; "now" times are not
fn tcanon(t: i64) -> String {
    if (0..1_000_000_000).contains(&t) {
        t.to_string()
    } else {
        "now".into()
    }
}

pub struct Snap {
    /// canonical records, sorted by path
    pub recs: Vec<String>,
    /// (dev, ino) of every object seen
    pub ids: BTreeSet<(u64, u64)>,
}

/// Canonical snapshot of the tree below `root`: one record per path with type, mode, owner, size,
/// content hash, link target, xattrs, link count, hard-link group (smallest path of the group),
/// rdev and explicit times.  `skip` = absolute paths not to descend into / record.
pub fn snapshot(root: &str, skip: &[String], with_ids: bool) -> Snap {
    let mut raw: Vec<(String, std::fs::Metadata, String)> = Vec::new();
    let mut stack = vec![String::new()];
    while let Some(rel) = stack.pop() {
        let abs = if rel.is_empty() { root.to_string() } else { format!("{}/{}", root, rel) };
        if skip.iter().any(|s| *s == abs) {
            continue;
        }
        let md = match std::fs::symlink_metadata(&abs) {
            Ok(m) => m,
            Err(_) => continue,
        };
        let ft = md.file_type();
        let mut extra = String::new();
        if ft.is_dir() {
            if let Ok(rd) = std::fs::read_dir(&abs) {
                let mut names: Vec<Vec<u8>> = rd.filter_map(|e| e.ok()).map(|e| e.file_name().as_bytes().to_vec()).collect();
                names.sort();
                for n in names {
                    let child = OsStr::from_bytes(&n).to_string_lossy().to_string();
                    stack.push(if rel.is_empty() { child } else { format!("{}/{}", rel, child) });
                }
            }
        } else if ft.is_symlink() {
            if let Ok(t) = std::fs::read_link(&abs) {
                extra = format!("->{}", hex(t.as_os_str().as_bytes()));
            }
        } else if ft.is_file() {
            match std::fs::read(&abs) {
                Ok(d) => extra = format!("#{:016x}", fnv(&d)),
                Err(e) => extra = format!("#unreadable:{:?}", e.raw_os_error()),
            }
        }
        raw.push((rel, md, extra));
    }
    // hard-link groups
    let mut groups: BTreeMap<(u64, u64), String> = BTreeMap::new();
    for (rel, md, _) in &raw {
        if !md.file_type().is_dir() {
            let k = (md.dev(), md.ino());
            let cur = groups.entry(k).or_insert_with(|| rel.clone());
            if rel < cur {
                *cur = rel.clone();
            }
        }
    }
    let mut recs = Vec::new();
    let mut ids = BTreeSet::new();
    for (rel, md, extra) in &raw {
        let k = (md.dev(), md.ino());
        if with_ids {
            ids.insert(k);
        }
        let abs = if rel.is_empty() { root.to_string() } else { format!("{}/{}", root, rel) };
        let xa = xattrs_of(&cstr(abs.as_bytes()));
        let grp = if md.file_type().is_dir() { String::new() } else { groups.get(&k).cloned().unwrap_or_default() };
        // a directory's size / nlink of "." conventions are file-system specific: nlink is kept
        // (ext4: 2 + subdirs), size is not
        let size = if md.file_type().is_dir() { 0 } else { md.size() };
        recs.push(format!(
            "{} m={:o} u={} g={} s={} n={} grp={} rdev={} {} x[{}] at={} mt={}",
            if rel.is_empty() { "." } else { rel.as_str() },
            md.mode(), md.uid(), md.gid(), size, md.nlink(), grp, md.rdev(), extra, xa,
            tcanon(md.atime()), tcanon(md.mtime())
        ));
    }
    recs.sort();
    Snap { recs, ids }
}

/// first difference between two snapshots
pub fn diff(a: &Snap, b: &Snap) -> Option<String> {
    if a.recs == b.recs {
        return None;
    }
    let sa: BTreeSet<&String> = a.recs.iter().collect();
    let sb: BTreeSet<&String> = b.recs.iter().collect();
    let only_a: Vec<&&String> = sa.difference(&sb).take(2).collect();
    let only_b: Vec<&&String> = sb.difference(&sa).take(2).collect();
    Some(format!("export:{:?} shadow:{:?}", only_a, only_b))
}

pub struct Dirs {
    pub base: String,
    /// sentinel tree root; the export is `<sent>/export`
    pub sent: String,
    pub export: String,
    pub shadow: String,
    pub shadow_out: String,
}

/// Layout under `base`:
///   sent/            sentinel tree: secret, sib/{s1,s2}, hl-out, up-link -> export/a, export/
///   sent/export/     the exported directory
///   shadow/          the host oracle's copy of the export
///   shadow-out/      holds the outside file the shadow's `hl` links to
pub fn make_dirs(base: &str, spec: &Spec) -> Dirs {
    let _ = std::fs::remove_dir_all(base);
    let d = Dirs {
        base: base.to_string(),
        sent: format!("{}/sent", base),
        export: format!("{}/sent/export", base),
        shadow: format!("{}/shadow", base),
        shadow_out: format!("{}/shadow-out", base),
    };
    unsafe { libc::umask(0) };
    for p in [&d.sent, &d.export, &d.shadow, &d.shadow_out] {
        std::fs::create_dir_all(p).unwrap();
        chk(unsafe { libc::chmod(cstr(p.as_bytes()).as_ptr(), 0o755) }, "chmod");
    }
    std::fs::write(format!("{}/secret", d.sent), b"top secret\n").unwrap();
    std::fs::create_dir(format!("{}/sib", d.sent)).unwrap();
    std::fs::write(format!("{}/sib/s1", d.sent), b"sibling one\n").unwrap();
    std::fs::write(format!("{}/sib/s2", d.sent), b"sibling two\n").unwrap();
    chk(unsafe { libc::chmod(cstr(format!("{}/sib", d.sent).as_bytes()).as_ptr(), 0o777) }, "chmod");
    chk(unsafe { libc::chmod(cstr(format!("{}/secret", d.sent).as_bytes()).as_ptr(), 0o666) }, "chmod");
    std::fs::write(format!("{}/hl-out", d.sent), b"shared with the export by a hard link\n").unwrap();
    std::fs::write(format!("{}/hl-out", d.shadow_out), b"shared with the export by a hard link\n").unwrap();
    let _ = std::os::unix::fs::symlink("export/a", format!("{}/up-link", d.sent));
    build(&d.export, spec, &format!("{}/hl-out", d.sent), &d.sent);
    build(&d.shadow, spec, &format!("{}/hl-out", d.shadow_out), &d.sent);
    d
}

pub struct Sentinel {
    pub hash: Vec<String>,
    pub ids: BTreeSet<(u64, u64)>,
}

/// content + metadata snapshot of the sentinel tree without the export subtree.  The outside file
/// that is hard-linked into the export is shared by design: its *name* stays in the snapshot, its
/// inode is not in the forbidden id set and its content/metadata are not hashed.
pub fn sentinel(d: &Dirs) -> Sentinel {
    let s = snapshot(&d.sent, &[d.export.clone()], true);
    let shared = std::fs::symlink_metadata(format!("{}/hl-out", d.sent)).map(|m| (m.dev(), m.ino())).ok();
    let mut ids = s.ids;
    if let Some(k) = shared {
        ids.remove(&k);
    }
    let hash = s
        .recs
        .into_iter()
        .map(|r| if r.starts_with("hl-out ") { "hl-out <shared>".to_string() } else { r })
        // the sentinel root's own mtime/nlink change legitimately only if the export dir itself is
        // replaced, which must not happen either: keep it
        .collect();
    Sentinel { hash, ids }
}
