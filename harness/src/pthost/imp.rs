//! The implementation side: a real `PassthroughFs` on the export directory, every request run
//! with the system-call recorder on.
use std::ffi::CString;
use std::io;
use std::time::Duration;

use fuse_backend_rs::abi::fuse_abi::{CreateIn, SetattrValid};
use fuse_backend_rs::api::filesystem::{Context, Entry, FileSystem, FsOptions, GetxattrReply, ListxattrReply, ZeroCopyReader, ZeroCopyWriter};
use fuse_backend_rs::file_buf::FileVolatileSlice;
use fuse_backend_rs::file_traits::FileReadWriteVolatile;
use fuse_backend_rs::passthrough::{CachePolicy, Config, PassthroughFs};

use super::hook::{self, Ev};
use super::ops::{Attr, Op, Reply};
use super::shadow::{Cfg, Shadow};

pub const ENTRY_T: u64 = 7;
pub const ATTR_T: u64 = 9;
pub const DIR_ENTRY_T: u64 = 11;
pub const DIR_ATTR_T: u64 = 13;

pub fn mk_config(cfg: &Cfg, root: &str) -> Config {
    Config {
        root_dir: root.to_string(),
        do_import: cfg.standalone,
        no_open: cfg.no_open,
        no_opendir: cfg.no_opendir,
        inode_file_handles: cfg.inode_file_handles,
        use_host_ino: cfg.use_host_ino,
        writeback: cfg.writeback,
        xattr: cfg.xattr,
        killpriv_v2: cfg.killpriv_v2,
        allow_direct_io: cfg.allow_direct_io,
        cache_policy: match cfg.cache {
            0 => CachePolicy::Never,
            1 => CachePolicy::Metadata,
            2 => CachePolicy::Auto,
            _ => CachePolicy::Always,
        },
        entry_timeout: Duration::from_secs(ENTRY_T),
        attr_timeout: Duration::from_secs(ATTR_T),
        dir_entry_timeout: Some(Duration::from_secs(DIR_ENTRY_T)),
        dir_attr_timeout: Some(Duration::from_secs(DIR_ATTR_T)),
        ..Default::default()
    }
}

pub fn capable(cfg: &Cfg) -> FsOptions {
    let mut o = FsOptions::ASYNC_READ | FsOptions::BIG_WRITES;
    for (bit, f) in [(1u8, FsOptions::WRITEBACK_CACHE), (2, FsOptions::ZERO_MESSAGE_OPEN), (4, FsOptions::ZERO_MESSAGE_OPENDIR), (8, FsOptions::HANDLE_KILLPRIV_V2)] {
        if cfg.nocap & bit == 0 {
            o |= f;
        }
    }
    o
}

pub struct MemW(pub Vec<u8>);
impl io::Write for MemW {
    fn write(&mut self, b: &[u8]) -> io::Result<usize> {
        self.0.extend_from_slice(b);
        Ok(b.len())
    }
    fn flush(&mut self) -> io::Result<()> {
        Ok(())
    }
}
impl ZeroCopyWriter for MemW {
    fn write_from(&mut self, f: &mut dyn FileReadWriteVolatile, count: usize, off: u64) -> io::Result<usize> {
        let start = self.0.len();
        self.0.resize(start + count, 0);
        let slice = unsafe { FileVolatileSlice::from_raw_ptr(self.0.as_mut_ptr().add(start), count) };
        let r = f.read_vectored_at_volatile(&[slice], off);
        match r {
            Ok(n) => {
                self.0.truncate(start + n);
                Ok(n)
            }
            Err(e) => {
                self.0.truncate(start);
                Err(e)
            }
        }
    }
    fn available_bytes(&self) -> usize {
        usize::MAX
    }
}

pub struct MemR(pub Vec<u8>);
impl io::Read for MemR {
    fn read(&mut self, b: &mut [u8]) -> io::Result<usize> {
        let n = std::cmp::min(b.len(), self.0.len());
        b[..n].copy_from_slice(&self.0[..n]);
        self.0.drain(..n);
        Ok(n)
    }
}
impl ZeroCopyReader for MemR {
    fn read_to(&mut self, f: &mut dyn FileReadWriteVolatile, count: usize, off: u64) -> io::Result<usize> {
        let n = std::cmp::min(count, self.0.len());
        let slice = unsafe { FileVolatileSlice::from_raw_ptr(self.0.as_mut_ptr(), n) };
        let w = f.write_vectored_at_volatile(&[slice], off)?;
        self.0.drain(..w);
        Ok(w)
    }
}

pub fn err_of(e: &io::Error) -> Reply {
    Reply::Err(e.raw_os_error().unwrap_or(match e.kind() {
        io::ErrorKind::PermissionDenied => 10013,
        io::ErrorKind::InvalidData => 10022,
        _ => 10005,
    }))
}

fn entry_reply(e: &Entry) -> Reply {
    Reply::Entry {
        ino: e.inode,
        attr: Attr::from_stat(&e.attr),
        flags: e.attr_flags,
        et: e.entry_timeout.as_secs(),
        at: e.attr_timeout.as_secs(),
    }
}

pub struct Imp {
    pub fs: PassthroughFs<()>,
    pub init_trace: Vec<Ev>,
    pub proc_fd: i32,
}

fn cs(b: &[u8]) -> CString {
    CString::new(b.to_vec()).unwrap_or_else(|_| CString::new("nul").unwrap())
}

impl Imp {
    pub fn new(cfg: &Cfg, root: &str) -> io::Result<Imp> {
        hook::start();
        let r = (|| {
            let fs = PassthroughFs::<()>::new(mk_config(cfg, root))?;
            if !cfg.standalone {
                // under a VFS the mount path imports the root; standalone does it in `init`
                fs.import()?;
            }
            fs.init(capable(cfg))?;
            Ok::<_, io::Error>(fs)
        })();
        let init_trace = hook::stop();
        let fs = r?;
        let proc_fd = fs.keep_fds()[0];
        Ok(Imp { fs, init_trace, proc_fd })
    }

    /// run one request with the recorder on
    pub fn exec(&self, op: &Op, inos: &[u64], hs: &[u64]) -> (Reply, Vec<Ev>) {
        hook::start();
        let r = self.exec_inner(op, inos, hs);
        let t = hook::stop();
        (r, t)
    }

    fn exec_inner(&self, op: &Op, inos: &[u64], hs: &[u64]) -> Reply {
        let fs = &self.fs;
        let ri = |r: &super::ops::Ref| Shadow::resolve(r, inos);
        let rh = |r: &super::ops::Ref| Shadow::resolve(r, hs);
        let root_ctx = Context { uid: 0, gid: 0, pid: 1 };
        let unit = |r: io::Result<()>| match r {
            Ok(()) => Reply::Unit,
            Err(e) => err_of(&e),
        };
        let ent = |r: io::Result<Entry>| match r {
            Ok(e) => entry_reply(&e),
            Err(e) => err_of(&e),
        };
        match op {
            Op::Lookup { parent, name } => ent(fs.lookup(&root_ctx, ri(parent), &cs(name))),
            Op::Forget { ino, count } => {
                if *count & crate::ops::VIA_BATCH != 0 {
                    fs.batch_forget(&root_ctx, vec![(ri(ino), *count & !crate::ops::VIA_BATCH)]);
                } else {
                    fs.forget(&root_ctx, ri(ino), *count);
                }
                Reply::Unit
            }
            Op::Getattr { ino, handle } => match fs.getattr(&root_ctx, ri(ino), handle.as_ref().map(rh)) {
                Ok((st, d)) => Reply::Attr { attr: Attr::from_stat(&st), at: d.as_secs() },
                Err(e) => err_of(&e),
            },
            Op::Setattr { ino, handle, valid, mode, uid, gid, size, atime, atimens, mtime, mtimens } => {
                let mut st: libc::stat64 = unsafe { std::mem::zeroed() };
                st.st_mode = *mode;
                st.st_uid = *uid;
                st.st_gid = *gid;
                st.st_size = *size as i64;
                st.st_atime = *atime;
                st.st_atime_nsec = *atimens;
                st.st_mtime = *mtime;
                st.st_mtime_nsec = *mtimens;
                match fs.setattr(&root_ctx, ri(ino), st, handle.as_ref().map(rh), SetattrValid::from_bits_truncate(*valid)) {
                    Ok((st, d)) => Reply::Attr { attr: Attr::from_stat(&st), at: d.as_secs() },
                    Err(e) => err_of(&e),
                }
            }
            Op::Readlink { ino } => match fs.readlink(&root_ctx, ri(ino)) {
                Ok(v) => Reply::Data(v),
                Err(e) => err_of(&e),
            },
            Op::Symlink { uid, gid, target, parent, name } => {
                ent(fs.symlink(&Context { uid: *uid, gid: *gid, pid: 1 }, &cs(target), ri(parent), &cs(name)))
            }
            Op::Mknod { uid, gid, parent, name, mode, rdev, umask } => {
                ent(fs.mknod(&Context { uid: *uid, gid: *gid, pid: 1 }, ri(parent), &cs(name), *mode, *rdev, *umask))
            }
            Op::Mkdir { uid, gid, parent, name, mode, umask } => {
                ent(fs.mkdir(&Context { uid: *uid, gid: *gid, pid: 1 }, ri(parent), &cs(name), *mode, *umask))
            }
            Op::Unlink { parent, name } => unit(fs.unlink(&root_ctx, ri(parent), &cs(name))),
            Op::Rmdir { parent, name } => unit(fs.rmdir(&root_ctx, ri(parent), &cs(name))),
            Op::Rename { odir, oname, ndir, nname, flags } => unit(fs.rename(&root_ctx, ri(odir), &cs(oname), ri(ndir), &cs(nname), *flags)),
            Op::Link { ino, newparent, newname } => ent(fs.link(&root_ctx, ri(ino), ri(newparent), &cs(newname))),
            Op::Open { ino, flags, fuse_flags } => match fs.open(&root_ctx, ri(ino), *flags, *fuse_flags) {
                Ok((h, o, _)) => Reply::Open { handle: h, opts: o.bits() },
                Err(e) => err_of(&e),
            },
            Op::Opendir { ino, flags } => match fs.opendir(&root_ctx, ri(ino), *flags) {
                Ok((h, o)) => Reply::Open { handle: h, opts: o.bits() },
                Err(e) => err_of(&e),
            },
            Op::Create { uid, gid, parent, name, flags, mode, umask, fuse_flags } => {
                let args = CreateIn { flags: *flags, mode: *mode, umask: *umask, fuse_flags: *fuse_flags };
                match fs.create(&Context { uid: *uid, gid: *gid, pid: 1 }, ri(parent), &cs(name), args) {
                    Ok((e, h, o, _)) => Reply::Created {
                        ino: e.inode,
                        attr: Attr::from_stat(&e.attr),
                        et: e.entry_timeout.as_secs(),
                        at: e.attr_timeout.as_secs(),
                        handle: h,
                        opts: o.bits(),
                    },
                    Err(e) => err_of(&e),
                }
            }
            Op::Read { ino, handle, size, offset, flags } => {
                let mut w = MemW(Vec::new());
                match fs.read(&root_ctx, ri(ino), rh(handle), &mut w, *size, *offset, None, *flags) {
                    Ok(_) => Reply::Data(w.0),
                    Err(e) => err_of(&e),
                }
            }
            Op::Write { ino, handle, data, offset, flags, fuse_flags } => {
                let mut r = MemR(data.clone());
                match fs.write(&root_ctx, ri(ino), rh(handle), &mut r, data.len() as u32, *offset, None, false, *flags, *fuse_flags) {
                    Ok(n) => Reply::Count(n as u64),
                    Err(e) => err_of(&e),
                }
            }
            Op::Flush { ino, handle } => unit(fs.flush(&root_ctx, ri(ino), rh(handle), 0)),
            Op::Fsync { ino, handle, datasync } => unit(fs.fsync(&root_ctx, ri(ino), *datasync, rh(handle))),
            Op::Fsyncdir { ino, handle, datasync } => unit(fs.fsyncdir(&root_ctx, ri(ino), *datasync, rh(handle))),
            Op::Release { ino, handle } => unit(fs.release(&root_ctx, ri(ino), 0, rh(handle), false, false, None)),
            Op::Releasedir { ino, handle } => unit(fs.releasedir(&root_ctx, ri(ino), 0, rh(handle))),
            Op::Fallocate { ino, handle, mode, offset, length } => unit(fs.fallocate(&root_ctx, ri(ino), rh(handle), *mode, *offset, *length)),
            Op::Lseek { ino, handle, offset, whence } => match fs.lseek(&root_ctx, ri(ino), rh(handle), *offset, *whence) {
                Ok(n) => Reply::Count(n),
                Err(e) => err_of(&e),
            },
            Op::Statfs { ino } => match fs.statfs(&root_ctx, ri(ino)) {
                Ok(st) => Reply::Statfs { namemax: st.f_namemax, bsize: st.f_bsize },
                Err(e) => err_of(&e),
            },
            Op::Setxattr { ino, name, value, flags } => unit(fs.setxattr(&root_ctx, ri(ino), &cs(name), value, *flags)),
            Op::Getxattr { ino, name, size } => match fs.getxattr(&root_ctx, ri(ino), &cs(name), *size) {
                Ok(GetxattrReply::Value(v)) => Reply::Data(v),
                Ok(GetxattrReply::Count(n)) => Reply::Count(n as u64),
                Err(e) => err_of(&e),
            },
            Op::Listxattr { ino, size } => match fs.listxattr(&root_ctx, ri(ino), *size) {
                Ok(ListxattrReply::Names(v)) => Reply::Data(v),
                Ok(ListxattrReply::Count(n)) => Reply::Count(n as u64),
                Err(e) => err_of(&e),
            },
            Op::Removexattr { ino, name } => unit(fs.removexattr(&root_ctx, ri(ino), &cs(name))),
        }
    }
}
