//! `--stage vfs` (C06): the name checks as seen through a `Vfs`.
//!
//! Two worlds per case:
//!  * `log`: a `Vfs` whose backends (one mounted at `/`, one at `/m`) only log the calls they
//!    receive.  A request whose name is ".", ".." (mutators) or contains '/' (all) must be answered
//!    EINVAL with an empty backend log: "rejected before any backend is touched".
//!  * `pt`: a real `PassthroughFs` (do_import = false, i.e. relying on the VFS for validation)
//!    mounted at `/` on an export directory inside the sentinel tree; the same requests must leave
//!    the sentinel untouched and make no host call at all for a bad name.
//!
//! Case line: `w=log|pt ops=<op>;...` with op = `kind:parent:name[:name2]` (names hex, parent
//! `r` = root, `m` = the second mount (log world), `d` = a directory looked up as "a").
//! Output line: per op `reply/log-length`.
use std::collections::BTreeMap;
use std::ffi::{CStr, CString};
use std::io;
use std::sync::{Arc, Mutex};
use std::time::Duration;

use async_trait::async_trait;
use fbrh::prng::Prng;
use fbrh::util::{hex, unhex, Out};
use fuse_backend_rs::abi::fuse_abi::{CreateIn, FsOptions, OpenOptions, SetattrValid};
use fuse_backend_rs::api::filesystem::{
    AsyncFileSystem, AsyncZeroCopyReader, AsyncZeroCopyWriter, Context, Entry, FileSystem, GetxattrReply,
};
use fuse_backend_rs::api::{BackendFileSystem, Vfs, VfsOptions};
use fuse_backend_rs::passthrough::{Config, PassthroughFs};

use super::hook;
use super::shadow::name_kind;
use super::tree;

fn os(e: i32) -> io::Error {
    io::Error::from_raw_os_error(e)
}

fn mk_entry(ino: u64, mode: u32) -> Entry {
    let mut st: libc::stat64 = unsafe { std::mem::zeroed() };
    st.st_ino = ino;
    st.st_mode = mode;
    st.st_nlink = 1;
    Entry { inode: ino, generation: 0, attr: st, attr_flags: 0, attr_timeout: Duration::from_secs(1), entry_timeout: Duration::from_secs(1) }
}

struct LogFs {
    id: &'static str,
    log: Arc<Mutex<Vec<String>>>,
}

impl LogFs {
    fn rec(&self, m: &str, names: &[&CStr]) {
        let n: Vec<String> = names.iter().map(|c| hex(c.to_bytes())).collect();
        self.log.lock().unwrap().push(format!("{}.{}({})", self.id, m, n.join(",")));
    }
}

impl FileSystem for LogFs {
    type Inode = u64;
    type Handle = u64;
    fn init(&self, _: FsOptions) -> io::Result<FsOptions> {
        Ok(FsOptions::empty())
    }
    fn lookup(&self, _: &Context, _parent: u64, name: &CStr) -> io::Result<Entry> {
        self.rec("lookup", &[name]);
        Ok(mk_entry(10 + name.to_bytes().len() as u64, libc::S_IFDIR | 0o755))
    }
    fn mkdir(&self, _: &Context, _: u64, name: &CStr, _: u32, _: u32) -> io::Result<Entry> {
        self.rec("mkdir", &[name]);
        Ok(mk_entry(20, libc::S_IFDIR | 0o755))
    }
    fn mknod(&self, _: &Context, _: u64, name: &CStr, _: u32, _: u32, _: u32) -> io::Result<Entry> {
        self.rec("mknod", &[name]);
        Ok(mk_entry(21, libc::S_IFREG | 0o644))
    }
    fn symlink(&self, _: &Context, linkname: &CStr, _: u64, name: &CStr) -> io::Result<Entry> {
        self.rec("symlink", &[linkname, name]);
        Ok(mk_entry(22, libc::S_IFLNK | 0o777))
    }
    fn unlink(&self, _: &Context, _: u64, name: &CStr) -> io::Result<()> {
        self.rec("unlink", &[name]);
        Ok(())
    }
    fn rmdir(&self, _: &Context, _: u64, name: &CStr) -> io::Result<()> {
        self.rec("rmdir", &[name]);
        Ok(())
    }
    fn rename(&self, _: &Context, _: u64, oldname: &CStr, _: u64, newname: &CStr, _: u32) -> io::Result<()> {
        self.rec("rename", &[oldname, newname]);
        Ok(())
    }
    fn link(&self, _: &Context, _: u64, _: u64, newname: &CStr) -> io::Result<Entry> {
        self.rec("link", &[newname]);
        Ok(mk_entry(23, libc::S_IFREG | 0o644))
    }
    fn create(&self, _: &Context, _: u64, name: &CStr, _: CreateIn) -> io::Result<(Entry, Option<u64>, OpenOptions, Option<u32>)> {
        self.rec("create", &[name]);
        Ok((mk_entry(24, libc::S_IFREG | 0o644), Some(1), OpenOptions::empty(), None))
    }
    fn getattr(&self, _: &Context, inode: u64, _: Option<u64>) -> io::Result<(libc::stat64, Duration)> {
        self.rec("getattr", &[]);
        Ok((mk_entry(inode, libc::S_IFDIR | 0o755).attr, Duration::from_secs(1)))
    }
    fn setxattr(&self, _: &Context, _: u64, name: &CStr, _: &[u8], _: u32) -> io::Result<()> {
        self.rec("setxattr", &[name]);
        Ok(())
    }
    fn getxattr(&self, _: &Context, _: u64, name: &CStr, _: u32) -> io::Result<GetxattrReply> {
        self.rec("getxattr", &[name]);
        Ok(GetxattrReply::Count(0))
    }
    fn removexattr(&self, _: &Context, _: u64, name: &CStr) -> io::Result<()> {
        self.rec("removexattr", &[name]);
        Ok(())
    }
}

#[allow(unused_variables)]
#[async_trait]
impl AsyncFileSystem for LogFs {
    async fn async_lookup(&self, ctx: &Context, parent: u64, name: &CStr) -> io::Result<Entry> {
        Err(os(libc::ENOSYS))
    }
    async fn async_getattr(&self, ctx: &Context, inode: u64, handle: Option<u64>) -> io::Result<(libc::stat64, Duration)> {
        Err(os(libc::ENOSYS))
    }
    async fn async_setattr(&self, ctx: &Context, inode: u64, attr: libc::stat64, handle: Option<u64>, valid: SetattrValid) -> io::Result<(libc::stat64, Duration)> {
        Err(os(libc::ENOSYS))
    }
    async fn async_open(&self, ctx: &Context, inode: u64, flags: u32, fuse_flags: u32) -> io::Result<(Option<u64>, OpenOptions)> {
        Err(os(libc::ENOSYS))
    }
    async fn async_create(&self, ctx: &Context, parent: u64, name: &CStr, args: CreateIn) -> io::Result<(Entry, Option<u64>, OpenOptions)> {
        Err(os(libc::ENOSYS))
    }
    async fn async_read(&self, ctx: &Context, inode: u64, handle: u64, w: &mut (dyn AsyncZeroCopyWriter + Send), size: u32, offset: u64, lock_owner: Option<u64>, flags: u32) -> io::Result<usize> {
        Err(os(libc::ENOSYS))
    }
    async fn async_write(&self, ctx: &Context, inode: u64, handle: u64, r: &mut (dyn AsyncZeroCopyReader + Send), size: u32, offset: u64, lock_owner: Option<u64>, delayed_write: bool, flags: u32, fuse_flags: u32) -> io::Result<usize> {
        Err(os(libc::ENOSYS))
    }
    async fn async_fsync(&self, ctx: &Context, inode: u64, datasync: bool, handle: u64) -> io::Result<()> {
        Err(os(libc::ENOSYS))
    }
    async fn async_fallocate(&self, ctx: &Context, inode: u64, handle: u64, mode: u32, offset: u64, length: u64) -> io::Result<()> {
        Err(os(libc::ENOSYS))
    }
    async fn async_fsyncdir(&self, ctx: &Context, inode: u64, datasync: bool, handle: u64) -> io::Result<()> {
        Err(os(libc::ENOSYS))
    }
}

impl BackendFileSystem for LogFs {
    fn mount(&self) -> io::Result<(Entry, u64)> {
        Ok((mk_entry(1, libc::S_IFDIR | 0o755), 1 << 40))
    }
    fn as_any(&self) -> &dyn std::any::Any {
        self
    }
}

const KINDS: [&str; 13] = ["lookup", "mkdir", "mknod", "symlink", "unlink", "rmdir", "rename", "link", "create", "setxattr", "getxattr", "removexattr", "getattr"];

fn cs(b: &[u8]) -> CString {
    CString::new(b.to_vec()).unwrap_or_else(|_| CString::new("nul").unwrap())
}

fn errno_of(e: &io::Error) -> i32 {
    e.raw_os_error().unwrap_or(10005)
}

struct VWorld {
    vfs: Vfs,
    log: Arc<Mutex<Vec<String>>>,
    pt: bool,
    root: u64,
    m: u64,
    d: u64,
    dirs: Option<tree::Dirs>,
}

fn setup(pt: bool, base: &str) -> VWorld {
    let log = Arc::new(Mutex::new(Vec::new()));
    let vfs = Vfs::new(VfsOptions::default());
    let ctx = Context { uid: 0, gid: 0, pid: 1 };
    let mut dirs = None;
    if pt {
        let spec = tree::Spec::parse("61:d:511:0:0:,62:f:420:0:0:352e31,6c6f:l:511:0:0:2e2e2f736563726574,686c:o:0:0:0:");
        let d = tree::make_dirs(base, &spec);
        let cfg = Config { root_dir: d.export.clone(), do_import: false, xattr: true, ..Default::default() };
        let fs = PassthroughFs::<()>::new(cfg).unwrap();
        fs.import().unwrap();
        vfs.mount(Box::new(fs), "/").unwrap();
        dirs = Some(d);
    } else {
        vfs.mount(Box::new(LogFs { id: "b1", log: log.clone() }), "/").unwrap();
        vfs.mount(Box::new(LogFs { id: "b2", log: log.clone() }), "/m").unwrap();
    }
    let _ = vfs.init(FsOptions::empty());
    let root = 1u64;
    let m = if pt { 1 } else { vfs.lookup(&ctx, root.into(), &cs(b"m")).map(|e| e.inode).unwrap_or(1) };
    let d = vfs.lookup(&ctx, root.into(), &cs(b"a")).map(|e| e.inode).unwrap_or(1);
    log.lock().unwrap().clear();
    VWorld { vfs, log, pt, root, m, d, dirs }
}

fn run_case(line: &str, out: &mut Out, base: &str) -> String {
    let mut w = "log";
    let mut ops: Vec<&str> = vec![];
    for tok in line.split(' ') {
        if let Some(v) = tok.strip_prefix("w=") {
            w = v;
        } else if let Some(v) = tok.strip_prefix("ops=") {
            ops = v.split(';').filter(|x| !x.is_empty()).collect();
        }
    }
    let world = setup(w == "pt", base);
    let sent0 = world.dirs.as_ref().map(tree::sentinel);
    let ctx = Context { uid: 0, gid: 0, pid: 1 };
    let mut res = Vec::new();
    for (k, o) in ops.iter().enumerate() {
        let p: Vec<&str> = o.split(':').collect();
        let kind = p[0];
        let parent = match p.get(1).copied().unwrap_or("r") {
            "m" => world.m,
            "d" => world.d,
            _ => world.root,
        };
        let n1 = unhex(p.get(2).copied().unwrap_or(""));
        let n2 = unhex(p.get(3).copied().unwrap_or(""));
        world.log.lock().unwrap().clear();
        hook::start();
        let v = &world.vfs;
        let r: Result<(), io::Error> = match kind {
            "lookup" => v.lookup(&ctx, parent.into(), &cs(&n1)).map(|_| ()),
            "mkdir" => v.mkdir(&ctx, parent.into(), &cs(&n1), 0o755, 0).map(|_| ()),
            "mknod" => v.mknod(&ctx, parent.into(), &cs(&n1), libc::S_IFREG | 0o644, 0, 0).map(|_| ()),
            "symlink" => v.symlink(&ctx, &cs(&n2), parent.into(), &cs(&n1)).map(|_| ()),
            "unlink" => v.unlink(&ctx, parent.into(), &cs(&n1)),
            "rmdir" => v.rmdir(&ctx, parent.into(), &cs(&n1)),
            "rename" => v.rename(&ctx, parent.into(), &cs(&n1), parent.into(), &cs(&n2), 0),
            "link" => v.link(&ctx, world.d.into(), parent.into(), &cs(&n1)).map(|_| ()),
            "create" => v.create(&ctx, parent.into(), &cs(&n1), CreateIn { flags: (libc::O_CREAT | libc::O_RDWR) as u32, mode: 0o644, umask: 0, fuse_flags: 0 }).map(|_| ()),
            "setxattr" => v.setxattr(&ctx, parent.into(), &cs(&n1), b"v", 0),
            "getxattr" => v.getxattr(&ctx, parent.into(), &cs(&n1), 0).map(|_| ()),
            "removexattr" => v.removexattr(&ctx, parent.into(), &cs(&n1)),
            _ => v.getattr(&ctx, parent.into(), None).map(|_| ()),
        };
        let trace = hook::stop();
        let nlog = world.log.lock().unwrap().len();
        let touched = if world.pt { trace.len() } else { nlog };
        let rtxt = match &r {
            Ok(()) => "ok".to_string(),
            Err(e) => format!("e{}", errno_of(e)),
        };
        res.push(format!("{}/{}", rtxt, if touched == 0 { "untouched" } else { "backend" }));
        out.stat(&format!("vfs:{}:{}", w, kind));
        // ---- direct oracle
        let case_now = format!("w={} ops={}", w, ops[..=k].join(";"));
        let names: Vec<(&str, &Vec<u8>)> = match kind {
            "lookup" => vec![("lookup", &n1)],
            "rename" => vec![("mutator", &n1), ("mutator", &n2)],
            "getattr" => vec![],
            _ => vec![("mutator", &n1)],
        };
        for (role, n) in names {
            let nk = name_kind(n);
            let bad = if role == "lookup" { nk == "slash" } else { matches!(nk, "slash" | "dot" | "dotdot") };
            if bad {
                out.stat(&format!("vfs-badname:{}:{}", kind, nk));
                out.class(&format!("vfs|{}|{}|{}|{}", w, kind, nk, rtxt));
                let einval = matches!(&r, Err(e) if errno_of(e) == libc::EINVAL);
                if !einval || touched != 0 {
                    super::oracle(out, "C06", format!("C06:name-accepted:{}:{}", kind, nk), &case_now,
                                  format!("through the VFS ({} world): reply {} and {} backend/host calls {:?}", w, rtxt, touched,
                                          world.log.lock().unwrap().iter().take(3).collect::<Vec<_>>()));
                }
            } else {
                out.class(&format!("vfs|{}|{}|{}|{}", w, kind, nk, rtxt));
            }
        }
    }
    if let (Some(d), Some(s0)) = (world.dirs.as_ref(), sent0) {
        let s1 = tree::sentinel(d);
        if s1.hash != s0.hash {
            super::oracle(out, "C06", "C06:sentinel-modified:vfs".into(), line, "sentinel tree changed by requests through the VFS".into());
        }
    }
    drop(world);
    let _ = std::fs::remove_dir_all(base);
    res.join(" ")
}

fn gen_case(r: &mut Prng) -> String {
    let w = if r.chance(1, 3) { "pt" } else { "log" };
    let long = vec![b'y'; 300];
    let names: Vec<&[u8]> = vec![b".", b"..", b"a/b", b"/", b"../secret", b"a/", b"./a", b"/etc/passwd", b"a", b"b", b"zz", b"", b"...", b"..a", b"user.x", &long, b"lo", b"m"];
    let n = r.range(1, 12);
    let mut ops = Vec::new();
    for _ in 0..n {
        let kind = *r.pick(&KINDS);
        let parent = *r.pick(&["r", "r", "d", "m"]);
        let n1 = hex(names[r.below(names.len() as u64) as usize]);
        let n2 = hex(names[r.below(names.len() as u64) as usize]);
        ops.push(format!("{}:{}:{}:{}", kind, parent, n1, n2));
    }
    format!("w={} ops={}", w, ops.join(";"))
}

pub fn run(a: &BTreeMap<String, String>, out: &mut Out, seed: u64, base: &str) {
    let vb = format!("{}/vfs", base);
    if let Some(f) = a.get("cases") {
        for line in std::fs::read_to_string(f).unwrap().lines() {
            if line.trim().is_empty() {
                continue;
            }
            let o = run_case(line, out, &vb);
            out.case(line, &o);
        }
        return;
    }
    let n: u64 = a.get("n").and_then(|s| s.parse().ok()).unwrap_or(400);
    let mut r = Prng::new(seed ^ 0x7f5);
    for _ in 0..n {
        let line = gen_case(&mut r);
        let o = run_case(&line, out, &vb);
        out.case(&line, &o);
    }
}
