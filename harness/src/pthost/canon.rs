//! Canonical form of recorded system calls and of replies (DESIGN §2.4): descriptors are named
//! `f<k>` by order of creation, host objects `o<k>` by first occurrence of their (dev, ino),
//! the `/proc/self/fd` directory is `P`; errors are errno numbers; times are explicit or `n`.
use std::collections::HashMap;

use fbrh::util::hex;

use super::hook::Ev;
use super::ops::{Attr, Reply};

#[derive(Default)]
pub struct Canon {
    pub fds: HashMap<i64, usize>,
    pub next_fd: usize,
    pub objs: HashMap<(u64, u64), usize>,
    pub handles: HashMap<Vec<u8>, usize>,
    pub rawobj: HashMap<i64, (u64, u64)>,
    pub last_handle: Option<usize>,
    pub proc_fd: i64,
    /// (description, object, mode) of every successful non-O_PATH open
    pub io_opens: Vec<(usize, usize, u32)>,
    /// objects of every descriptor opened (C06: none may be a sentinel object)
    pub opened_objs: Vec<(u64, u64)>,
    pub use_host_ino: bool,
    /// absolute path of the sentinel tree; shown as `{SENT}` so that case lines replay anywhere
    pub sent_abs: Vec<u8>,
}

/// replace every occurrence of `pat` in `b` by `{SENT}`
pub fn unexpand(b: &[u8], pat: &[u8]) -> Vec<u8> {
    if pat.is_empty() || b.len() < pat.len() {
        return b.to_vec();
    }
    let mut out = Vec::new();
    let mut i = 0;
    while i < b.len() {
        if i + pat.len() <= b.len() && &b[i..i + pat.len()] == pat {
            out.extend_from_slice(b"{SENT}");
            i += pat.len();
        } else {
            out.push(b[i]);
            i += 1;
        }
    }
    out
}

pub fn expand(b: &[u8], sent: &[u8]) -> Vec<u8> {
    let pat = b"{SENT}";
    let mut out = Vec::new();
    let mut i = 0;
    while i < b.len() {
        if i + pat.len() <= b.len() && &b[i..i + pat.len()] == pat {
            out.extend_from_slice(sent);
            i += pat.len();
        } else {
            out.push(b[i]);
            i += 1;
        }
    }
    out
}

fn tn(t: i64) -> String {
    if (0..1_000_000_000).contains(&t) {
        t.to_string()
    } else {
        "n".into()
    }
}

impl Canon {
    pub fn obj(&mut self, k: (u64, u64)) -> usize {
        let n = self.objs.len();
        *self.objs.entry(k).or_insert(n)
    }

    pub fn fd(&self, raw: i64) -> String {
        if raw == self.proc_fd {
            "P".into()
        } else if raw == libc::AT_FDCWD as i64 {
            "cwd".into()
        } else {
            match self.fds.get(&raw) {
                Some(k) => format!("f{}", k),
                None => format!("raw{}", raw),
            }
        }
    }

    /// `<n>` or `/proc/self/fd/<n>` -> the descriptor it names
    fn procname(&self, s: &[u8]) -> Option<String> {
        let t = std::str::from_utf8(s).ok()?;
        let t = t.strip_prefix("/proc/self/fd/").unwrap_or(t);
        let n: i64 = t.parse().ok()?;
        Some(self.fd(n))
    }

    fn stat_ans(&mut self, r: &[i64]) -> String {
        // [dev, ino, mode, uid, gid, size, nlink, rdev, atime, mtime]
        let o = self.obj((r[0] as u64, r[1] as u64));
        let mode = r[2] as u32;
        let size = if mode & libc::S_IFMT == libc::S_IFDIR { 0 } else { r[5] };
        format!("s{}.{}.{}.{}.{}.{}.{}.{}.{}", o, mode, r[3], r[4], size, r[6], r[7], tn(r[8]), tn(r[9]))
    }

    /// (canonical call text, answer token)
    pub fn ev(&mut self, e0: &Ev) -> (String, String) {
        let mut ec = e0.clone();
        if !self.sent_abs.is_empty() && e0.name != "open_by_handle_at" && e0.name != "name_to_handle_at" {
            ec.s = e0.s.iter().map(|x| unexpand(x, &self.sent_abs)).collect();
            if e0.name == "readlinkat" {
                ec.out = unexpand(&e0.out, &self.sent_abs);
            }
        }
        let e = &ec;
        let err = |ret: i64| format!("e{}", -ret);
        let okk = |ret: i64| if ret < 0 { format!("e{}", -ret) } else { "k".to_string() };
        let a = &e.a;
        match e.name {
            "openat" | "open_by_handle_at" => {
                let call = if e.name == "openat" {
                    if a[0] == self.proc_fd {
                        match self.procname(&e.s[0]) {
                            Some(f) => format!("reopen({},{})", f, a[1]),
                            None => format!("openat(P,{},{},{})", hex(&e.s[0]), a[1], a[2]),
                        }
                    } else {
                        format!("openat({},{},{},{})", self.fd(a[0]), hex(&e.s[0]), a[1], a[2])
                    }
                } else {
                    let o = self.handles.get(&e.out).map(|o| format!("g{}", o)).unwrap_or_else(|| "g?".into());
                    format!("open_by_handle({},{})", o, a[1])
                };
                let flags = a[1];
                let ans = if e.ret >= 0 {
                    let k = self.next_fd;
                    self.next_fd += 1;
                    self.fds.insert(e.ret, k);
                    let (dev, ino, mode) = e.obj.unwrap_or((0, 0, 0));
                    let o = self.obj((dev, ino));
                    self.opened_objs.push((dev, ino));
                    self.rawobj.insert(e.ret, (dev, ino));
                    if flags & libc::O_PATH as i64 == 0 {
                        self.io_opens.push((k, o, mode));
                    }
                    format!("f{}.{}", k, o)
                } else {
                    err(e.ret)
                };
                (call, ans)
            }
            "statx" => {
                let call = format!("statx({},{},{},{})", self.fd(a[0]), hex(&e.s[0]), a[1], a[2]);
                let ans = if e.ret >= 0 && e.res.len() >= 10 { self.stat_ans(&e.res) } else { err(e.ret) };
                (call, ans)
            }
            "fstatat" => {
                let call = format!("fstatat({},{},{})", self.fd(a[0]), hex(&e.s[0]), a[1]);
                let ans = if e.ret >= 0 && e.res.len() >= 10 { self.stat_ans(&e.res) } else { err(e.ret) };
                (call, ans)
            }
            "mkdirat" => (format!("mkdirat({},{},{})", self.fd(a[0]), hex(&e.s[0]), a[1]), okk(e.ret)),
            "mknodat" => (format!("mknodat({},{},{},{})", self.fd(a[0]), hex(&e.s[0]), a[1], a[2]), okk(e.ret)),
            "symlinkat" => (format!("symlinkat({},{},{})", hex(&e.s[0]), self.fd(a[0]), hex(&e.s[1])), okk(e.ret)),
            "linkat" => (format!("linkat({},{},{},{},{})", self.fd(a[0]), hex(&e.s[0]), self.fd(a[1]), hex(&e.s[1]), a[2]), okk(e.ret)),
            "unlinkat" => (format!("unlinkat({},{},{})", self.fd(a[0]), hex(&e.s[0]), a[1]), okk(e.ret)),
            "renameat2" => (format!("renameat2({},{},{},{},{})", self.fd(a[0]), hex(&e.s[0]), self.fd(a[1]), hex(&e.s[1]), a[2]), okk(e.ret)),
            "readlinkat" => {
                let call = format!("readlinkat({},{},{})", self.fd(a[0]), hex(&e.s[0]), a[1]);
                (call, if e.ret >= 0 { format!("x{}", hex(&e.out)) } else { err(e.ret) })
            }
            "fchmod" => (format!("fchmod({},{})", self.fd(a[0]), a[1]), okk(e.ret)),
            "fchmodat" => {
                let target = if a[0] == self.proc_fd { self.procname(&e.s[0]) } else { None };
                let call = match target {
                    Some(f) => format!("fchmodat(P,{},{},{})", f, a[1], a[2]),
                    None => format!("fchmodat({},{},{},{})", self.fd(a[0]), hex(&e.s[0]), a[1], a[2]),
                };
                (call, okk(e.ret))
            }
            "fchownat" => (format!("fchownat({},{},{},{},{})", self.fd(a[0]), hex(&e.s[0]), a[1], a[2], a[3]), okk(e.ret)),
            "ftruncate" => (format!("ftruncate({},{})", self.fd(a[0]), a[1]), okk(e.ret)),
            "futimens" => (format!("futimens({},{},{},{},{})", self.fd(a[0]), a[1], a[2], a[3], a[4]), okk(e.ret)),
            "utimensat" => {
                let target = if a[0] == self.proc_fd { self.procname(&e.s[0]) } else { None };
                let call = match target {
                    Some(f) => format!("utimensat(P,{},{},{},{},{},{})", f, a[1], a[2], a[3], a[4], a[5]),
                    None => format!("utimensat({},{},{},{},{},{},{})", self.fd(a[0]), hex(&e.s[0]), a[1], a[2], a[3], a[4], a[5]),
                };
                (call, okk(e.ret))
            }
            "fallocate" => (format!("fallocate({},{},{},{})", self.fd(a[0]), a[1], a[2], a[3]), okk(e.ret)),
            "lseek" => (format!("lseek({},{},{})", self.fd(a[0]), a[1], a[2]), if e.ret >= 0 { format!("n{}", e.ret) } else { err(e.ret) }),
            "fstatvfs" => (
                format!("fstatvfs({})", self.fd(a[0])),
                if e.ret >= 0 && e.res.len() >= 2 { format!("v{}.{}", e.res[0], e.res[1]) } else { err(e.ret) },
            ),
            "setxattr" => {
                let f = self.procname(&e.s[0]).unwrap_or_else(|| hex(&e.s[0]));
                (format!("setxattr({},{},{},{})", f, hex(&e.s[1]), hex(&e.s[2]), a[0]), okk(e.ret))
            }
            "getxattr" => {
                let f = self.procname(&e.s[0]).unwrap_or_else(|| hex(&e.s[0]));
                let ans = if e.ret < 0 { err(e.ret) } else if a[0] == 0 { format!("n{}", e.ret) } else { format!("x{}", hex(&e.out)) };
                (format!("getxattr({},{},{})", f, hex(&e.s[1]), a[0]), ans)
            }
            "listxattr" => {
                let f = self.procname(&e.s[0]).unwrap_or_else(|| hex(&e.s[0]));
                let ans = if e.ret < 0 { err(e.ret) } else if a[0] == 0 { format!("n{}", e.ret) } else { format!("x{}", hex(&e.out)) };
                (format!("listxattr({},{})", f, a[0]), ans)
            }
            "removexattr" => {
                let f = self.procname(&e.s[0]).unwrap_or_else(|| hex(&e.s[0]));
                (format!("removexattr({},{})", f, hex(&e.s[1])), okk(e.ret))
            }
            "fsync" => (format!("fsync({})", self.fd(a[0])), okk(e.ret)),
            "fdatasync" => (format!("fdatasync({})", self.fd(a[0])), okk(e.ret)),
            "fcntl_setfl" => (format!("setfl({},{})", self.fd(a[0]), a[1]), okk(e.ret)),
            "preadv" => (
                format!("preadv({},{},{})", self.fd(a[0]), a[1], a[2]),
                if e.ret >= 0 { format!("x{}", hex(&e.out)) } else { err(e.ret) },
            ),
            "pwritev" => (
                format!("pwritev({},{},{})", self.fd(a[0]), hex(&e.s[0]), a[1]),
                if e.ret >= 0 { format!("n{}", e.ret) } else { err(e.ret) },
            ),
            "setresuid" | "setresgid" => (format!("{}({},{},{})", e.name, a[0], a[1] as u32, a[2]), okk(e.ret)),
            "capget" => ("capget".into(), if e.ret >= 0 { format!("c{}", (a[0] >> 4) & 1) } else { err(e.ret) }),
            "capset" => (format!("capset({})", (a[0] >> 4) & 1), okk(e.ret)),
            "name_to_handle_at" => {
                let call = format!("name_to_handle({},{},{})", self.fd(a[0]), hex(&e.s[0]), a[1]);
                // success: remember which object the handle bytes denote (the fd's object)
                let ans = if e.ret >= 0 {
                    // file handles are named by first occurrence of their bytes (two objects that
                    // reuse one inode number have different handles)
                    let n = self.handles.len();
                    let h = *self.handles.entry(e.out.clone()).or_insert(n);
                    self.last_handle = Some(h);
                    format!("g{}", h)
                } else {
                    err(e.ret)
                };
                (call, ans)
            }
            "getdents64" => (format!("getdents64({},{})", self.fd(a[0]), a[1]), if e.ret >= 0 { format!("n{}", e.ret) } else { err(e.ret) }),
            other => (format!("{}?", other), okk(e.ret)),
        }
    }

    pub fn attr(&mut self, a: &Attr) -> String {
        let o = self.obj((a.dev, a.ino));
        format!("o{},{}", o, a.value())
    }

    pub fn ino_lit(&mut self, ino: u64, dev: u64) -> String {
        if self.use_host_ino {
            let uniq = ino >> 47;
            let low = ino & ((1u64 << 47) - 1);
            if low >> 55 & 1 == 1 {
                return format!("v{}", ino);
            }
            match self.objs.get(&(dev, low)) {
                Some(o) => format!("h{}.{}", uniq, o),
                None => format!("h{}.?{}", uniq, low),
            }
        } else {
            ino.to_string()
        }
    }

    /// reply with symbolic inode / handle names; `iname`/`hname` = index in first-appearance order
    pub fn reply(&mut self, r: &Reply, iname: impl Fn(u64) -> String, hname: impl Fn(u64) -> String) -> String {
        let hs = |h: &Option<u64>| match h {
            Some(h) => hname(*h),
            None => "-".into(),
        };
        match r {
            Reply::Entry { ino, attr, flags, et, at } => {
                let lit = if *ino == 1 { "1".to_string() } else { self.ino_lit(*ino, attr.dev) };
                format!("entry({}={},{},fl={},et={},at={})", iname(*ino), lit, self.attr(attr), flags, et, at)
            }
            Reply::Attr { attr, at } => format!("attr({},at={})", self.attr(attr), at),
            Reply::Open { handle, opts } => format!("open({},opts={})", hs(handle), opts),
            Reply::Created { ino, attr, et, at, handle, opts } => {
                let lit = self.ino_lit(*ino, attr.dev);
                format!("created({}={},{},et={},at={},{},opts={})", iname(*ino), lit, self.attr(attr), et, at, hs(handle), opts)
            }
            other => other.value(),
        }
    }
}
