//! System-call recorder for the `pthost` engine.
//!
//! The binary that includes this module *defines* the C symbols the passthrough file system
//! calls (`openat`, `mkdirat`, `syscall`, ...).  Symbols of the executable take precedence over
//! glibc's, so every host call made by `fuse_backend_rs::passthrough` on a thread that has
//! recording switched on is logged (arguments + result) and then forwarded to glibc's own
//! implementation obtained with `dlsym(RTLD_NEXT, ..)`.  With recording off (the default, and
//! always for the harness' own work: shadow executor, snapshots) the wrappers only forward.
//!
//! The log is the implementation half of correspondence (a): "request -> sequence of host calls
//! (dirfd-relative names, flags, modes, credential switches) -> reply".
#![allow(clippy::missing_safety_doc)]
use std::cell::{Cell, RefCell};
use std::ffi::CStr;
use std::sync::atomic::{AtomicUsize, Ordering};

use libc::{c_char, c_int, c_long, c_void, gid_t, mode_t, off64_t, size_t, ssize_t, uid_t};

#[derive(Clone, Debug)]
pub struct Ev {
    pub name: &'static str,
    /// integer arguments in call order (fds, flags, modes, ids, offsets, lengths)
    pub a: Vec<i64>,
    /// path / name arguments in call order
    pub s: Vec<Vec<u8>>,
    /// result: >= 0 value, or -errno
    pub ret: i64,
    /// payload produced by the call (readlink target, xattr value, bytes read), if any
    pub out: Vec<u8>,
    /// for calls that return a new descriptor: (st_dev, st_ino, st_mode) of the opened object
    pub obj: Option<(u64, u64, u32)>,
    /// structured results: stat calls [dev, ino, mode, uid, gid, size, nlink, rdev, atime, mtime],
    /// fstatvfs [namemax, bsize]
    pub res: Vec<i64>,
}

thread_local! {
    static RES: RefCell<Vec<i64>> = const { RefCell::new(Vec::new()) };
}

fn set_res(v: Vec<i64>) {
    BUSY.with(|b| b.set(true));
    RES.with(|r| *r.borrow_mut() = v);
    BUSY.with(|b| b.set(false));
}

thread_local! {
    static REC: Cell<bool> = const { Cell::new(false) };
    static BUSY: Cell<bool> = const { Cell::new(false) };
    static LOG: RefCell<Vec<Ev>> = const { RefCell::new(Vec::new()) };
}

pub fn start() {
    LOG.with(|l| l.borrow_mut().clear());
    REC.with(|r| r.set(true));
}

pub fn stop() -> Vec<Ev> {
    REC.with(|r| r.set(false));
    LOG.with(|l| std::mem::take(&mut *l.borrow_mut()))
}

/// run `f` with recording suspended (used by callbacks that run inside a recorded request)
pub fn paused<T>(f: impl FnOnce() -> T) -> T {
    let was = REC.with(|r| r.replace(false));
    let v = f();
    REC.with(|r| r.set(was));
    v
}

fn on() -> bool {
    REC.with(|r| r.get()) && !BUSY.with(|b| b.get())
}

fn errno() -> i64 {
    unsafe { *libc::__errno_location() as i64 }
}

fn push(name: &'static str, a: Vec<i64>, s: Vec<Vec<u8>>, ret: i64, out: Vec<u8>) {
    let saved = errno();
    BUSY.with(|b| b.set(true));
    let obj = if ret >= 0 && (name == "openat" || name == "open_by_handle_at") {
        let mut st = std::mem::MaybeUninit::<libc::stat64>::zeroed();
        if unsafe { libc::fstat64(ret as c_int, st.as_mut_ptr()) } == 0 {
            let st = unsafe { st.assume_init() };
            Some((st.st_dev, st.st_ino, st.st_mode))
        } else {
            None
        }
    } else {
        None
    };
    let res = RES.with(|r| std::mem::take(&mut *r.borrow_mut()));
    LOG.with(|l| l.borrow_mut().push(Ev { name, a, s, ret, out, obj, res }));
    BUSY.with(|b| b.set(false));
    unsafe { *libc::__errno_location() = saved as c_int };
}

fn r(ret: i64) -> i64 {
    if ret < 0 {
        -errno()
    } else {
        ret
    }
}

unsafe fn cs(p: *const c_char) -> Vec<u8> {
    if p.is_null() {
        b"<null>".to_vec()
    } else {
        CStr::from_ptr(p).to_bytes().to_vec()
    }
}

unsafe fn next(name: &'static [u8], slot: &AtomicUsize) -> usize {
    let mut p = slot.load(Ordering::Relaxed);
    if p == 0 {
        p = libc::dlsym(libc::RTLD_NEXT, name.as_ptr() as *const c_char) as usize;
        if p == 0 {
            libc::abort();
        }
        slot.store(p, Ordering::Relaxed);
    }
    p
}

macro_rules! real {
    ($name:literal, $ty:ty) => {{
        static SLOT: AtomicUsize = AtomicUsize::new(0);
        let p = next(concat!($name, "\0").as_bytes(), &SLOT);
        std::mem::transmute::<usize, $ty>(p)
    }};
}

#[no_mangle]
pub unsafe extern "C" fn openat(dirfd: c_int, path: *const c_char, flags: c_int, mode: mode_t) -> c_int {
    let f = real!("openat", unsafe extern "C" fn(c_int, *const c_char, c_int, mode_t) -> c_int);
    let mode = if flags & libc::O_CREAT != 0 || flags & libc::O_TMPFILE == libc::O_TMPFILE { mode } else { 0 };
    let ret = f(dirfd, path, flags, mode);
    if on() {
        push("openat", vec![dirfd as i64, flags as i64, mode as i64], vec![cs(path)], r(ret as i64), vec![]);
    }
    ret
}

#[no_mangle]
pub unsafe extern "C" fn mkdirat(dirfd: c_int, path: *const c_char, mode: mode_t) -> c_int {
    let f = real!("mkdirat", unsafe extern "C" fn(c_int, *const c_char, mode_t) -> c_int);
    let ret = f(dirfd, path, mode);
    if on() {
        push("mkdirat", vec![dirfd as i64, mode as i64], vec![cs(path)], r(ret as i64), vec![]);
    }
    ret
}

#[no_mangle]
pub unsafe extern "C" fn mknodat(dirfd: c_int, path: *const c_char, mode: mode_t, dev: libc::dev_t) -> c_int {
    let f = real!("mknodat", unsafe extern "C" fn(c_int, *const c_char, mode_t, libc::dev_t) -> c_int);
    let ret = f(dirfd, path, mode, dev);
    if on() {
        push("mknodat", vec![dirfd as i64, mode as i64, dev as i64], vec![cs(path)], r(ret as i64), vec![]);
    }
    ret
}

#[no_mangle]
pub unsafe extern "C" fn symlinkat(target: *const c_char, dirfd: c_int, path: *const c_char) -> c_int {
    let f = real!("symlinkat", unsafe extern "C" fn(*const c_char, c_int, *const c_char) -> c_int);
    let ret = f(target, dirfd, path);
    if on() {
        push("symlinkat", vec![dirfd as i64], vec![cs(target), cs(path)], r(ret as i64), vec![]);
    }
    ret
}

#[no_mangle]
pub unsafe extern "C" fn linkat(ofd: c_int, opath: *const c_char, nfd: c_int, npath: *const c_char, flags: c_int) -> c_int {
    let f = real!("linkat", unsafe extern "C" fn(c_int, *const c_char, c_int, *const c_char, c_int) -> c_int);
    let ret = f(ofd, opath, nfd, npath, flags);
    if on() {
        push("linkat", vec![ofd as i64, nfd as i64, flags as i64], vec![cs(opath), cs(npath)], r(ret as i64), vec![]);
    }
    ret
}

#[no_mangle]
pub unsafe extern "C" fn unlinkat(dirfd: c_int, path: *const c_char, flags: c_int) -> c_int {
    let f = real!("unlinkat", unsafe extern "C" fn(c_int, *const c_char, c_int) -> c_int);
    let ret = f(dirfd, path, flags);
    if on() {
        push("unlinkat", vec![dirfd as i64, flags as i64], vec![cs(path)], r(ret as i64), vec![]);
    }
    ret
}

#[no_mangle]
pub unsafe extern "C" fn readlinkat(dirfd: c_int, path: *const c_char, buf: *mut c_char, sz: size_t) -> ssize_t {
    let f = real!("readlinkat", unsafe extern "C" fn(c_int, *const c_char, *mut c_char, size_t) -> ssize_t);
    let ret = f(dirfd, path, buf, sz);
    if on() {
        let out = if ret > 0 { std::slice::from_raw_parts(buf as *const u8, ret as usize).to_vec() } else { vec![] };
        push("readlinkat", vec![dirfd as i64, sz as i64], vec![cs(path)], r(ret as i64), out);
    }
    ret
}

#[no_mangle]
pub unsafe extern "C" fn fchmod(fd: c_int, mode: mode_t) -> c_int {
    let f = real!("fchmod", unsafe extern "C" fn(c_int, mode_t) -> c_int);
    let ret = f(fd, mode);
    if on() {
        push("fchmod", vec![fd as i64, mode as i64], vec![], r(ret as i64), vec![]);
    }
    ret
}

#[no_mangle]
pub unsafe extern "C" fn fchmodat(dirfd: c_int, path: *const c_char, mode: mode_t, flags: c_int) -> c_int {
    let f = real!("fchmodat", unsafe extern "C" fn(c_int, *const c_char, mode_t, c_int) -> c_int);
    let ret = f(dirfd, path, mode, flags);
    if on() {
        push("fchmodat", vec![dirfd as i64, mode as i64, flags as i64], vec![cs(path)], r(ret as i64), vec![]);
    }
    ret
}

#[no_mangle]
pub unsafe extern "C" fn fchownat(dirfd: c_int, path: *const c_char, uid: uid_t, gid: gid_t, flags: c_int) -> c_int {
    let f = real!("fchownat", unsafe extern "C" fn(c_int, *const c_char, uid_t, gid_t, c_int) -> c_int);
    let ret = f(dirfd, path, uid, gid, flags);
    if on() {
        push("fchownat", vec![dirfd as i64, uid as i64, gid as i64, flags as i64], vec![cs(path)], r(ret as i64), vec![]);
    }
    ret
}

#[no_mangle]
pub unsafe extern "C" fn ftruncate(fd: c_int, len: off64_t) -> c_int {
    let f = real!("ftruncate", unsafe extern "C" fn(c_int, off64_t) -> c_int);
    let ret = f(fd, len);
    if on() {
        push("ftruncate", vec![fd as i64, len], vec![], r(ret as i64), vec![]);
    }
    ret
}

#[no_mangle]
pub unsafe extern "C" fn ftruncate64(fd: c_int, len: off64_t) -> c_int {
    let f = real!("ftruncate64", unsafe extern "C" fn(c_int, off64_t) -> c_int);
    let ret = f(fd, len);
    if on() {
        push("ftruncate", vec![fd as i64, len], vec![], r(ret as i64), vec![]);
    }
    ret
}

unsafe fn ts(p: *const libc::timespec) -> Vec<i64> {
    if p.is_null() {
        vec![0, libc::UTIME_NOW, 0, libc::UTIME_NOW]
    } else {
        let a = &*p;
        let b = &*p.add(1);
        vec![a.tv_sec, a.tv_nsec, b.tv_sec, b.tv_nsec]
    }
}

#[no_mangle]
pub unsafe extern "C" fn futimens(fd: c_int, times: *const libc::timespec) -> c_int {
    let f = real!("futimens", unsafe extern "C" fn(c_int, *const libc::timespec) -> c_int);
    let ret = f(fd, times);
    if on() {
        let mut a = vec![fd as i64];
        a.extend(ts(times));
        push("futimens", a, vec![], r(ret as i64), vec![]);
    }
    ret
}

#[no_mangle]
pub unsafe extern "C" fn utimensat(dirfd: c_int, path: *const c_char, times: *const libc::timespec, flags: c_int) -> c_int {
    let f = real!("utimensat", unsafe extern "C" fn(c_int, *const c_char, *const libc::timespec, c_int) -> c_int);
    let ret = f(dirfd, path, times, flags);
    if on() {
        let mut a = vec![dirfd as i64];
        a.extend(ts(times));
        a.push(flags as i64);
        push("utimensat", a, vec![cs(path)], r(ret as i64), vec![]);
    }
    ret
}

#[no_mangle]
pub unsafe extern "C" fn fallocate64(fd: c_int, mode: c_int, off: off64_t, len: off64_t) -> c_int {
    let f = real!("fallocate64", unsafe extern "C" fn(c_int, c_int, off64_t, off64_t) -> c_int);
    let ret = f(fd, mode, off, len);
    if on() {
        push("fallocate", vec![fd as i64, mode as i64, off, len], vec![], r(ret as i64), vec![]);
    }
    ret
}

#[no_mangle]
pub unsafe extern "C" fn lseek(fd: c_int, off: off64_t, whence: c_int) -> off64_t {
    let f = real!("lseek", unsafe extern "C" fn(c_int, off64_t, c_int) -> off64_t);
    let ret = f(fd, off, whence);
    if on() {
        push("lseek", vec![fd as i64, off, whence as i64], vec![], r(ret), vec![]);
    }
    ret
}

#[no_mangle]
pub unsafe extern "C" fn fstatat64(dirfd: c_int, path: *const c_char, st: *mut libc::stat64, flags: c_int) -> c_int {
    let f = real!("fstatat64", unsafe extern "C" fn(c_int, *const c_char, *mut libc::stat64, c_int) -> c_int);
    let ret = f(dirfd, path, st, flags);
    if on() {
        if ret == 0 {
            let s = &*st;
            set_res(vec![s.st_dev as i64, s.st_ino as i64, s.st_mode as i64, s.st_uid as i64, s.st_gid as i64, s.st_size,
                         s.st_nlink as i64, s.st_rdev as i64, s.st_atime, s.st_mtime]);
        }
        push("fstatat", vec![dirfd as i64, flags as i64], vec![cs(path)], r(ret as i64), vec![]);
    }
    ret
}

#[no_mangle]
pub unsafe extern "C" fn fstatvfs64(fd: c_int, st: *mut libc::statvfs64) -> c_int {
    let f = real!("fstatvfs64", unsafe extern "C" fn(c_int, *mut libc::statvfs64) -> c_int);
    let ret = f(fd, st);
    if on() {
        if ret == 0 {
            set_res(vec![(*st).f_namemax as i64, (*st).f_bsize as i64]);
        }
        push("fstatvfs", vec![fd as i64], vec![], r(ret as i64), vec![]);
    }
    ret
}

#[no_mangle]
pub unsafe extern "C" fn setxattr(path: *const c_char, name: *const c_char, val: *const c_void, sz: size_t, flags: c_int) -> c_int {
    let f = real!("setxattr", unsafe extern "C" fn(*const c_char, *const c_char, *const c_void, size_t, c_int) -> c_int);
    let ret = f(path, name, val, sz, flags);
    if on() {
        let v = if sz > 0 && !val.is_null() { std::slice::from_raw_parts(val as *const u8, sz).to_vec() } else { vec![] };
        push("setxattr", vec![flags as i64], vec![cs(path), cs(name), v], r(ret as i64), vec![]);
    }
    ret
}

#[no_mangle]
pub unsafe extern "C" fn getxattr(path: *const c_char, name: *const c_char, val: *mut c_void, sz: size_t) -> ssize_t {
    let f = real!("getxattr", unsafe extern "C" fn(*const c_char, *const c_char, *mut c_void, size_t) -> ssize_t);
    let ret = f(path, name, val, sz);
    if on() {
        let out = if ret > 0 && sz > 0 { std::slice::from_raw_parts(val as *const u8, ret as usize).to_vec() } else { vec![] };
        push("getxattr", vec![sz as i64], vec![cs(path), cs(name)], r(ret as i64), out);
    }
    ret
}

#[no_mangle]
pub unsafe extern "C" fn listxattr(path: *const c_char, val: *mut c_char, sz: size_t) -> ssize_t {
    let f = real!("listxattr", unsafe extern "C" fn(*const c_char, *mut c_char, size_t) -> ssize_t);
    let ret = f(path, val, sz);
    if on() {
        let out = if ret > 0 && sz > 0 { std::slice::from_raw_parts(val as *const u8, ret as usize).to_vec() } else { vec![] };
        push("listxattr", vec![sz as i64], vec![cs(path)], r(ret as i64), out);
    }
    ret
}

#[no_mangle]
pub unsafe extern "C" fn removexattr(path: *const c_char, name: *const c_char) -> c_int {
    let f = real!("removexattr", unsafe extern "C" fn(*const c_char, *const c_char) -> c_int);
    let ret = f(path, name);
    if on() {
        push("removexattr", vec![], vec![cs(path), cs(name)], r(ret as i64), vec![]);
    }
    ret
}

#[no_mangle]
pub unsafe extern "C" fn fsync(fd: c_int) -> c_int {
    let f = real!("fsync", unsafe extern "C" fn(c_int) -> c_int);
    let ret = f(fd);
    if on() {
        push("fsync", vec![fd as i64], vec![], r(ret as i64), vec![]);
    }
    ret
}

#[no_mangle]
pub unsafe extern "C" fn fdatasync(fd: c_int) -> c_int {
    let f = real!("fdatasync", unsafe extern "C" fn(c_int) -> c_int);
    let ret = f(fd);
    if on() {
        push("fdatasync", vec![fd as i64], vec![], r(ret as i64), vec![]);
    }
    ret
}

#[no_mangle]
pub unsafe extern "C" fn fcntl(fd: c_int, cmd: c_int, arg: c_long) -> c_int {
    let f = real!("fcntl", unsafe extern "C" fn(c_int, c_int, c_long) -> c_int);
    let ret = f(fd, cmd, arg);
    if on() && cmd == libc::F_SETFL {
        push("fcntl_setfl", vec![fd as i64, arg as i64], vec![], r(ret as i64), vec![]);
    }
    ret
}

#[no_mangle]
pub unsafe extern "C" fn preadv64(fd: c_int, iov: *const libc::iovec, n: c_int, off: off64_t) -> ssize_t {
    let f = real!("preadv64", unsafe extern "C" fn(c_int, *const libc::iovec, c_int, off64_t) -> ssize_t);
    let ret = f(fd, iov, n, off);
    if on() {
        let mut want = 0i64;
        let mut out = Vec::new();
        let mut left = if ret > 0 { ret as usize } else { 0 };
        for i in 0..n as usize {
            let v = &*iov.add(i);
            want += v.iov_len as i64;
            let k = std::cmp::min(left, v.iov_len);
            out.extend_from_slice(std::slice::from_raw_parts(v.iov_base as *const u8, k));
            left -= k;
        }
        push("preadv", vec![fd as i64, want, off], vec![], r(ret as i64), out);
    }
    ret
}

#[no_mangle]
pub unsafe extern "C" fn pwritev64(fd: c_int, iov: *const libc::iovec, n: c_int, off: off64_t) -> ssize_t {
    let f = real!("pwritev64", unsafe extern "C" fn(c_int, *const libc::iovec, c_int, off64_t) -> ssize_t);
    let mut data = Vec::new();
    if on() {
        for i in 0..n as usize {
            let v = &*iov.add(i);
            data.extend_from_slice(std::slice::from_raw_parts(v.iov_base as *const u8, v.iov_len));
        }
    }
    let ret = f(fd, iov, n, off);
    if on() {
        push("pwritev", vec![fd as i64, off], vec![data], r(ret as i64), vec![]);
    }
    ret
}

/// `syscall(2)`: statx, setresuid/setresgid, renameat2, getdents64, capget/capset (caps crate).
#[no_mangle]
pub unsafe extern "C" fn syscall(n: c_long, a1: c_long, a2: c_long, a3: c_long, a4: c_long, a5: c_long, a6: c_long) -> c_long {
    let f = real!("syscall", unsafe extern "C" fn(c_long, c_long, c_long, c_long, c_long, c_long, c_long) -> c_long);
    if !on() {
        return f(n, a1, a2, a3, a4, a5, a6);
    }
    match n {
        libc::SYS_setresuid | libc::SYS_setresgid => {
            let ret = f(n, a1, a2, a3, a4, a5, a6);
            let name = if n == libc::SYS_setresuid { "setresuid" } else { "setresgid" };
            push(name, vec![a1 as i32 as i64, a2 as i32 as i64, a3 as i32 as i64], vec![], r(ret), vec![]);
            ret
        }
        libc::SYS_renameat2 => {
            let ret = f(n, a1, a2, a3, a4, a5, a6);
            push("renameat2", vec![a1 as i32 as i64, a3 as i32 as i64, a5 as u32 as i64],
                 vec![cs(a2 as *const c_char), cs(a4 as *const c_char)], r(ret), vec![]);
            ret
        }
        libc::SYS_statx => {
            let ret = f(n, a1, a2, a3, a4, a5, a6);
            if ret == 0 && a5 != 0 {
                let x = &*(a5 as *const libc::statx);
                set_res(vec![libc::makedev(x.stx_dev_major, x.stx_dev_minor) as i64, x.stx_ino as i64, x.stx_mode as i64,
                             x.stx_uid as i64, x.stx_gid as i64, x.stx_size as i64, x.stx_nlink as i64,
                             libc::makedev(x.stx_rdev_major, x.stx_rdev_minor) as i64, x.stx_atime.tv_sec, x.stx_mtime.tv_sec]);
            }
            push("statx", vec![a1 as i32 as i64, a3 as i32 as i64, a4 as u32 as i64], vec![cs(a2 as *const c_char)], r(ret), vec![]);
            ret
        }
        libc::SYS_getdents64 => {
            let ret = f(n, a1, a2, a3, a4, a5, a6);
            push("getdents64", vec![a1 as i32 as i64, a3 as u32 as i64], vec![], r(ret), vec![]);
            ret
        }
        libc::SYS_capget => {
            let ret = f(n, a1, a2, a3, a4, a5, a6);
            let d = a2 as *const u32; // __user_cap_data_struct[2]: effective, permitted, inheritable
            let eff = if ret == 0 && !d.is_null() { *d as i64 } else { 0 };
            push("capget", vec![eff], vec![], r(ret), vec![]);
            ret
        }
        libc::SYS_capset => {
            let d = a2 as *const u32;
            let eff = if !d.is_null() { *d as i64 } else { 0 };
            let ret = f(n, a1, a2, a3, a4, a5, a6);
            push("capset", vec![eff], vec![], r(ret), vec![]);
            ret
        }
        _ => f(n, a1, a2, a3, a4, a5, a6),
    }
}

/// `struct file_handle { u32 handle_bytes; i32 handle_type; u8 f_handle[]; }` as bytes
unsafe fn handle_bytes(fh: *const c_void) -> Vec<u8> {
    if fh.is_null() {
        return vec![];
    }
    let n = *(fh as *const u32) as usize;
    std::slice::from_raw_parts(fh as *const u8, 8 + std::cmp::min(n, 128)).to_vec()
}

/// file handles (inode_file_handles = true)
#[no_mangle]
pub unsafe extern "C" fn name_to_handle_at(dirfd: c_int, path: *const c_char, fh: *mut c_void, mnt: *mut c_int, flags: c_int) -> c_int {
    let f = real!("name_to_handle_at", unsafe extern "C" fn(c_int, *const c_char, *mut c_void, *mut c_int, c_int) -> c_int);
    let ret = f(dirfd, path, fh, mnt, flags);
    if on() {
        let hb = if ret == 0 { handle_bytes(fh) } else { vec![] };
        push("name_to_handle_at", vec![dirfd as i64, flags as i64], vec![cs(path)], r(ret as i64), hb);
    }
    ret
}

#[no_mangle]
pub unsafe extern "C" fn open_by_handle_at(mfd: c_int, fh: *mut c_void, flags: c_int) -> c_int {
    let f = real!("open_by_handle_at", unsafe extern "C" fn(c_int, *mut c_void, c_int) -> c_int);
    let ret = f(mfd, fh, flags);
    if on() {
        push("open_by_handle_at", vec![mfd as i64, flags as i64], vec![], r(ret as i64), handle_bytes(fh));
    }
    ret
}
