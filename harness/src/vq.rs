//! Guest memory + mock virtqueue descriptor chains for the virtio-fs transport.
use virtio_queue::desc::{split::Descriptor as SplitDescriptor, RawDescriptor};
use virtio_queue::mock::MockSplitQueue;
use virtio_queue::DescriptorChain;
use vm_memory::bitmap::AtomicBitmap;
use vm_memory::{Address, Bytes, GuestAddress, GuestMemoryMmap};

pub type Mem = GuestMemoryMmap<AtomicBitmap>;

pub const QUEUE_BASE: u64 = 0;
pub const QUEUE_REGION: usize = 0x10_0000;
pub const A_BASE: u64 = 0x10_0000;
pub const A_SIZE: usize = 0x60_0000;
pub const B_BASE: u64 = 0x100_0000;
pub const B_SIZE: usize = 0x60_0000;
pub const VRING_DESC_F_WRITE: u16 = 2;

/// the fill pattern of every buffer the server may write to (position dependent)
pub fn fill(i: usize) -> u8 {
    ((i * 31 + 7) % 256) as u8
}

pub fn new_mem() -> Mem {
    GuestMemoryMmap::<AtomicBitmap>::from_ranges(&[
        (GuestAddress(QUEUE_BASE), QUEUE_REGION),
        (GuestAddress(A_BASE), A_SIZE),
        (GuestAddress(B_BASE), B_SIZE),
    ])
    .expect("guest memory")
}

#[derive(Clone, Debug)]
pub struct Seg {
    pub addr: u64,
    pub len: u32,
    pub writable: bool,
}

/// Deterministic placement of segments: readable ones in region A, writable ones in region A
/// or B (chosen by `lay`), with gaps derived from `lay`, never overlapping.
pub fn place(lay: u64, rlens: &[u32], wlens: &[u32]) -> Vec<Seg> {
    let mut r = crate::prng::Prng::new(lay ^ 0x5eed);
    let mut out = Vec::new();
    let mut a = A_BASE + (r.below(3) * 8 + if lay & 1 == 1 { r.below(4096) } else { 0 });
    for &l in rlens {
        a += if lay & 2 == 2 { r.below(64) } else { 0 };
        out.push(Seg { addr: a, len: l, writable: false });
        a += l as u64;
    }
    let mut b = B_BASE + if lay & 4 == 4 { r.below(4096) } else { 0 };
    for &l in wlens {
        let in_b = lay & 8 == 8 && r.chance(1, 2);
        if in_b {
            b += if lay & 16 == 16 { r.below(4096 * 2) } else { 0 };
            out.push(Seg { addr: b, len: l, writable: true });
            b += l as u64;
        } else {
            a += if lay & 16 == 16 { r.below(4096 * 2) } else { r.below(2) * 8 };
            out.push(Seg { addr: a, len: l, writable: true });
            a += l as u64;
        }
    }
    assert!(a < A_BASE + A_SIZE as u64 && b < B_BASE + B_SIZE as u64, "layout overflow");
    out
}

pub fn build_chain<'a>(mem: &'a Mem, segs: &[Seg]) -> DescriptorChain<&'a Mem> {
    use virtio_queue::{Queue, QueueOwnedT};
    // a chain can be as long as the queue: 256 unless the case needs more (up to 2048 here)
    let qsize: u16 = if segs.len() > 256 { (segs.len().next_power_of_two().min(2048)) as u16 } else { 256 };
    let vq = MockSplitQueue::new(mem, qsize);
    // reset the available index so that the chain we add is the first one returned
    mem.write_obj(0u16, vq.avail_addr().unchecked_add(2)).unwrap();
    let n = segs.len();
    let descs: Vec<RawDescriptor> = segs
        .iter()
        .enumerate()
        .map(|(i, s)| {
            let mut flags = if s.writable { VRING_DESC_F_WRITE } else { 0 };
            let mut next = 0u16;
            if i + 1 < n {
                flags |= 1; // VRING_DESC_F_NEXT
                next = (i + 1) as u16;
            }
            RawDescriptor::from(SplitDescriptor::new(s.addr, s.len, flags, next))
        })
        .collect();
    vq.add_desc_chains(&descs, 0).expect("add chain");
    let mut q: Queue = vq.create_queue().expect("queue");
    let chain = q.iter(mem).expect("iter").next().expect("chain");
    chain
}

pub fn write_bytes(mem: &Mem, addr: u64, data: &[u8]) {
    if !data.is_empty() {
        mem.write_slice(data, GuestAddress(addr)).unwrap();
    }
}

pub fn read_bytes(mem: &Mem, addr: u64, len: usize) -> Vec<u8> {
    let mut v = vec![0u8; len];
    if len > 0 {
        mem.read_slice(&mut v, GuestAddress(addr)).unwrap();
    }
    v
}

/// fill writable segments with the pattern (indexed by position in the concatenated area),
/// plus `guard` bytes before and after each segment with the canary 0xC3
pub fn prefill(mem: &Mem, segs: &[Seg], guard: usize) {
    let mut pos = 0usize;
    for s in segs.iter().filter(|s| s.writable) {
        let v: Vec<u8> = (0..s.len as usize).map(|i| fill(pos + i)).collect();
        write_bytes(mem, s.addr, &v);
        pos += s.len as usize;
    }
    let _ = guard;
}

/// concatenated content of the writable segments
pub fn read_area(mem: &Mem, segs: &[Seg]) -> Vec<u8> {
    let mut v = Vec::new();
    for s in segs.iter().filter(|s| s.writable) {
        v.extend_from_slice(&read_bytes(mem, s.addr, s.len as usize));
    }
    v
}

/// `off:hex,...` ranges of `area` that differ from the fill pattern (same format as the model)
pub fn area_diff(area: &[u8]) -> String {
    let mut out: Vec<String> = Vec::new();
    let mut i = 0;
    while i < area.len() {
        if area[i] != fill(i) {
            let s = i;
            while i < area.len() && area[i] != fill(i) {
                i += 1;
            }
            out.push(format!("{}:{}", s, crate::util::hex(&area[s..i])));
        } else {
            i += 1;
        }
    }
    out.join(",")
}

// ---------------------------------------------------------------------------------------------
// xport engine (C04/C17): guest memory with an explicit bitmap page size and region sizes

/// Guest memory whose regions `(guest base, size)` carry an `AtomicBitmap` of page size `page`
/// (vm-memory lets the embedder choose it: `MmapRegionBuilder::new_with_bitmap`).
pub fn new_mem_with(page: usize, regions: &[(u64, usize)]) -> Mem {
    use std::num::NonZeroUsize;
    use vm_memory::mmap::MmapRegionBuilder;
    use vm_memory::GuestRegionMmap;
    let regs: Vec<GuestRegionMmap<AtomicBitmap>> = regions
        .iter()
        .map(|&(base, size)| {
            let bm = AtomicBitmap::new(size, NonZeroUsize::new(page).expect("page size"));
            let r = MmapRegionBuilder::new_with_bitmap(size, bm)
                .with_mmap_prot(libc::PROT_READ | libc::PROT_WRITE)
                .with_mmap_flags(libc::MAP_ANONYMOUS | libc::MAP_PRIVATE | libc::MAP_NORESERVE)
                .build()
                .expect("mmap region");
            GuestRegionMmap::new(r, GuestAddress(base)).expect("guest region")
        })
        .collect();
    GuestMemoryMmap::from_regions(regs).expect("guest memory")
}

/// the dirty page indices of the region starting at `base`, and a reset of its bitmap
pub fn take_dirty(mem: &Mem, base: u64) -> Vec<usize> {
    use vm_memory::{GuestMemory, GuestMemoryRegion};
    let mut out = Vec::new();
    for r in mem.iter() {
        if r.start_addr().raw_value() != base {
            continue;
        }
        let bm: &AtomicBitmap = vm_memory::mmap::MmapRegion::bitmap(r);
        for (w, bits) in bm.get_and_reset().iter().enumerate() {
            let mut b = *bits;
            while b != 0 {
                let i = b.trailing_zeros() as usize;
                out.push(w * 64 + i);
                b &= b - 1;
            }
        }
    }
    out
}
