//! `vfs` engine: the real `Vfs` with scripted, logging backend doubles.  A *world* is one `Vfs`
//! (behind an `Arc`, also owned by a real `Server`) plus the log shared by all its backends.
//! Every scripted answer comes from the step text of the case line; every backend call is logged
//! as `<backend id>.<method>.<ctx uid>.<ctx gid>.<inode / name args...>`.
//!
//! Step syntax (steps separated by `;`, fields by `:`; names are lowercase hex):
//!   m:<path>:<bk>:<map>:<mans>:<ie>   mount  map = `-` | i/e/r ; mans = e<errno> | ino/uid/gid/max ;
//!                                      ie = errno of the backend's init() (0 = ok)
//!   u:<path>                          umount
//!   i:<opts>                          FileSystem::init        d   FileSystem::destroy
//!   s:<mode>                          save_to_bytes + restore into a fresh Vfs + restore_mount of the
//!                                      live mounts (mode d = Vfs::new(default), o = same ctor options)
//!   r:<op>:<uid>:<gid>:<ino>:<a1>:<a2>:<ans>   request through the FileSystem trait (context remapped
//!                                      by `id_remap_with_nodeid` first, exactly as `Server` does)
//!   R:...                             the same request through the real `Server::handle_message`
use std::collections::BTreeMap;
use std::ffi::{CStr, CString};
use std::io;
use std::os::unix::io::RawFd;
use std::sync::{Arc, Mutex};
use std::time::Duration;

use async_trait::async_trait;
use fuse_backend_rs::abi::fuse_abi::{CreateIn, FsOptions, OpenOptions, SetattrValid};
use fuse_backend_rs::abi::virtio_fs::RemovemappingOne;
use fuse_backend_rs::api::filesystem::{
    AsyncFileSystem, AsyncZeroCopyReader, AsyncZeroCopyWriter, Context, DirEntry, Entry, FileSystem,
    GetxattrReply, ListxattrReply, ZeroCopyReader, ZeroCopyWriter,
};
use fuse_backend_rs::api::server::Server;
use fuse_backend_rs::api::vfs::VfsError;
use fuse_backend_rs::api::{BackendFileSystem, Vfs, VfsOptions};
use fuse_backend_rs::file_traits::FileReadWriteVolatile;
use fuse_backend_rs::transport::{FsCacheReqHandler, FuseBuf, FuseDevWriter, Reader, Writer};

use crate::util::{hex, unhex};

pub type Map = (u32, u32, u32);
pub const VFS_MAX_INO: u64 = 0xff_ffff_ffff_ffff;

pub fn parse_map(s: &str) -> Option<Map> {
    if s == "-" || s.is_empty() {
        return None;
    }
    let p: Vec<u32> = s.split('/').filter_map(|x| x.parse().ok()).collect();
    if p.len() == 3 {
        Some((p[0], p[1], p[2]))
    } else {
        None
    }
}

/// `remap_id` as the property states it (the oracle's own arithmetic, in u64 so nothing wraps)
pub fn spec_remap(v: u32, from: u32, to: u32, range: u32) -> u64 {
    if v >= from && v - from < range {
        (v - from) as u64 + to as u64
    } else {
        v as u64
    }
}

#[derive(Clone, Debug)]
pub struct BkSpec {
    pub id: u64,
    /// answer of `mount()`: `e<errno>` or `ino/uid/gid/max`
    pub mans: String,
    /// errno of `init()`; 0 = ok
    pub ie: i32,
}

#[derive(Default)]
pub struct Shared {
    pub log: Mutex<Vec<String>>,
    pub ans: Mutex<String>,
    /// schedule control for `X` steps: the thread marked GATED parks in the backend's `destroy()`
    pub gate: Mutex<Option<(std::sync::mpsc::SyncSender<()>, std::sync::mpsc::Receiver<()>)>>,
}

thread_local! {
    static GATED: std::cell::Cell<bool> = const { std::cell::Cell::new(false) };
    /// `W` steps: the thread parks in the backend's `init()`, which a mount calls under the mount lock
    static GATED_INIT: std::cell::Cell<bool> = const { std::cell::Cell::new(false) };
}

/// the raw outcome of the two halves of an `X` step (umount on one thread, parked in the
/// backend's destroy(); mount on another), waiting to be booked by the ordinary `u` / `m` steps
pub struct Stash {
    pub umount: Option<(Option<u64>, Result<(u64, u64), String>, Vec<String>)>,
    pub mount: Option<(Result<u8, String>, Vec<String>)>,
    /// result of the LOOKUP half of a `Y` step
    pub req: Option<(String, Vec<String>)>,
    /// result of the INIT half of a `Z` step
    pub init: Option<(String, Vec<String>)>,
}

pub struct Bk {
    pub spec: BkSpec,
    pub sh: Arc<Shared>,
}

fn os(e: i32) -> io::Error {
    io::Error::from_raw_os_error(e)
}

fn mk_stat(ino: u64, uid: u32, gid: u32) -> libc::stat64 {
    let mut st: libc::stat64 = unsafe { std::mem::zeroed() };
    st.st_ino = ino;
    st.st_uid = uid;
    st.st_gid = gid;
    st.st_mode = 0o100644;
    st.st_nlink = 1;
    st
}

fn mk_entry(ino: u64, st_ino: u64, uid: u32, gid: u32) -> Entry {
    Entry {
        inode: ino,
        generation: 0,
        attr: mk_stat(st_ino, uid, gid),
        attr_flags: 0,
        attr_timeout: Duration::from_secs(1),
        entry_timeout: Duration::from_secs(1),
    }
}

fn nums(s: &str, sep: char) -> Vec<u64> {
    s.split(sep).map(|x| x.parse::<u64>().unwrap_or(0)).collect()
}

impl Bk {
    fn rec(&self, m: &str, ctx: &Context, args: &[String]) {
        let mut s = format!("{}.{}.{}.{}", self.spec.id, m, ctx.uid, ctx.gid);
        for a in args {
            s.push('.');
            s.push_str(a);
        }
        self.sh.log.lock().unwrap().push(s);
    }
    fn ans(&self) -> String {
        self.sh.ans.lock().unwrap().clone()
    }
    fn a_err(&self) -> Option<io::Error> {
        let a = self.ans();
        a.strip_prefix('e').map(|n| os(n.parse().unwrap_or(5)))
    }
    fn a_unit(&self) -> io::Result<()> {
        match self.a_err() {
            Some(e) => Err(e),
            None => Ok(()),
        }
    }
    fn a_num(&self) -> io::Result<u64> {
        match self.a_err() {
            Some(e) => Err(e),
            None => Ok(self.ans().parse().unwrap_or(0)),
        }
    }
    fn a_entry(&self) -> io::Result<Entry> {
        match self.a_err() {
            Some(e) => Err(e),
            None => {
                let p = nums(&self.ans(), '/');
                Ok(mk_entry(p[0], p[0], p.get(1).copied().unwrap_or(0) as u32, p.get(2).copied().unwrap_or(0) as u32))
            }
        }
    }
    fn a_attr(&self) -> io::Result<(libc::stat64, Duration)> {
        match self.a_err() {
            Some(e) => Err(e),
            None => {
                let p = nums(&self.ans(), '/');
                Ok((mk_stat(p[0], p.get(1).copied().unwrap_or(0) as u32, p.get(2).copied().unwrap_or(0) as u32), Duration::from_secs(1)))
            }
        }
    }
}

fn nm(n: &CStr) -> String {
    hex(n.to_bytes())
}

#[allow(unused_variables)]
impl FileSystem for Bk {
    type Inode = u64;
    type Handle = u64;

    fn init(&self, capable: FsOptions) -> io::Result<FsOptions> {
        self.sh.log.lock().unwrap().push(format!("{}.init.{}", self.spec.id, capable.bits()));
        if GATED_INIT.with(|g| g.get()) {
            let hook = self.sh.gate.lock().unwrap().take();
            if let Some((entered, go)) = hook {
                let _ = entered.send(());
                let _ = go.recv_timeout(Duration::from_secs(10));
            }
        }
        if self.spec.ie != 0 {
            Err(os(self.spec.ie))
        } else {
            Ok(FsOptions::empty())
        }
    }
    fn destroy(&self) {
        self.sh.log.lock().unwrap().push(format!("{}.destroy", self.spec.id));
        if GATED.with(|g| g.get()) {
            let hook = self.sh.gate.lock().unwrap().take();
            if let Some((entered, go)) = hook {
                let _ = entered.send(());
                let _ = go.recv_timeout(Duration::from_secs(10));
            }
        }
    }
    fn lookup(&self, ctx: &Context, parent: u64, name: &CStr) -> io::Result<Entry> {
        self.rec("lookup", ctx, &[parent.to_string(), nm(name)]);
        self.a_entry()
    }
    fn forget(&self, ctx: &Context, inode: u64, count: u64) {
        self.rec("forget", ctx, &[inode.to_string(), count.to_string()]);
    }
    fn getattr(&self, ctx: &Context, inode: u64, handle: Option<u64>) -> io::Result<(libc::stat64, Duration)> {
        self.rec("getattr", ctx, &[inode.to_string()]);
        self.a_attr()
    }
    fn setattr(&self, ctx: &Context, inode: u64, attr: libc::stat64, handle: Option<u64>, valid: SetattrValid) -> io::Result<(libc::stat64, Duration)> {
        self.rec("setattr", ctx, &[inode.to_string(), attr.st_uid.to_string(), attr.st_gid.to_string()]);
        self.a_attr()
    }
    fn readlink(&self, ctx: &Context, inode: u64) -> io::Result<Vec<u8>> {
        self.rec("readlink", ctx, &[inode.to_string()]);
        self.a_num().map(|n| n.to_string().into_bytes())
    }
    fn symlink(&self, ctx: &Context, linkname: &CStr, parent: u64, name: &CStr) -> io::Result<Entry> {
        self.rec("symlink", ctx, &[parent.to_string(), nm(name)]);
        self.a_entry()
    }
    fn mknod(&self, ctx: &Context, inode: u64, name: &CStr, mode: u32, rdev: u32, umask: u32) -> io::Result<Entry> {
        self.rec("mknod", ctx, &[inode.to_string(), nm(name)]);
        self.a_entry()
    }
    fn mkdir(&self, ctx: &Context, parent: u64, name: &CStr, mode: u32, umask: u32) -> io::Result<Entry> {
        self.rec("mkdir", ctx, &[parent.to_string(), nm(name)]);
        self.a_entry()
    }
    fn unlink(&self, ctx: &Context, parent: u64, name: &CStr) -> io::Result<()> {
        self.rec("unlink", ctx, &[parent.to_string(), nm(name)]);
        self.a_unit()
    }
    fn rmdir(&self, ctx: &Context, parent: u64, name: &CStr) -> io::Result<()> {
        self.rec("rmdir", ctx, &[parent.to_string(), nm(name)]);
        self.a_unit()
    }
    fn rename(&self, ctx: &Context, olddir: u64, oldname: &CStr, newdir: u64, newname: &CStr, flags: u32) -> io::Result<()> {
        self.rec("rename", ctx, &[olddir.to_string(), nm(oldname), newdir.to_string(), nm(newname)]);
        self.a_unit()
    }
    fn link(&self, ctx: &Context, inode: u64, newparent: u64, newname: &CStr) -> io::Result<Entry> {
        self.rec("link", ctx, &[inode.to_string(), newparent.to_string(), nm(newname)]);
        self.a_entry()
    }
    fn open(&self, ctx: &Context, inode: u64, flags: u32, fuse_flags: u32) -> io::Result<(Option<u64>, OpenOptions, Option<u32>)> {
        self.rec("open", ctx, &[inode.to_string()]);
        self.a_num().map(|n| (Some(n), OpenOptions::empty(), None))
    }
    fn create(&self, ctx: &Context, parent: u64, name: &CStr, args: CreateIn) -> io::Result<(Entry, Option<u64>, OpenOptions, Option<u32>)> {
        self.rec("create", ctx, &[parent.to_string(), nm(name)]);
        self.a_entry().map(|e| (e, Some(7), OpenOptions::empty(), None))
    }
    fn read(&self, ctx: &Context, inode: u64, handle: u64, w: &mut dyn ZeroCopyWriter, size: u32, offset: u64, lock_owner: Option<u64>, flags: u32) -> io::Result<usize> {
        self.rec("read", ctx, &[inode.to_string()]);
        self.a_num().map(|n| n as usize)
    }
    fn write(&self, ctx: &Context, inode: u64, handle: u64, r: &mut dyn ZeroCopyReader, size: u32, offset: u64, lock_owner: Option<u64>, delayed_write: bool, flags: u32, fuse_flags: u32) -> io::Result<usize> {
        self.rec("write", ctx, &[inode.to_string()]);
        self.a_num().map(|n| n as usize)
    }
    fn flush(&self, ctx: &Context, inode: u64, handle: u64, lock_owner: u64) -> io::Result<()> {
        self.rec("flush", ctx, &[inode.to_string()]);
        self.a_unit()
    }
    fn fsync(&self, ctx: &Context, inode: u64, datasync: bool, handle: u64) -> io::Result<()> {
        self.rec("fsync", ctx, &[inode.to_string()]);
        self.a_unit()
    }
    fn fallocate(&self, ctx: &Context, inode: u64, handle: u64, mode: u32, offset: u64, length: u64) -> io::Result<()> {
        self.rec("fallocate", ctx, &[inode.to_string()]);
        self.a_unit()
    }
    fn release(&self, ctx: &Context, inode: u64, flags: u32, handle: u64, flush: bool, flock_release: bool, lock_owner: Option<u64>) -> io::Result<()> {
        self.rec("release", ctx, &[inode.to_string()]);
        self.a_unit()
    }
    fn statfs(&self, ctx: &Context, inode: u64) -> io::Result<libc::statvfs64> {
        self.rec("statfs", ctx, &[inode.to_string()]);
        self.a_num().map(|n| {
            let mut st: libc::statvfs64 = unsafe { std::mem::zeroed() };
            st.f_bsize = n;
            st
        })
    }
    fn setxattr(&self, ctx: &Context, inode: u64, name: &CStr, value: &[u8], flags: u32) -> io::Result<()> {
        self.rec("setxattr", ctx, &[inode.to_string(), nm(name)]);
        self.a_unit()
    }
    fn getxattr(&self, ctx: &Context, inode: u64, name: &CStr, size: u32) -> io::Result<GetxattrReply> {
        self.rec("getxattr", ctx, &[inode.to_string(), nm(name)]);
        self.a_num().map(|n| GetxattrReply::Count(n as u32))
    }
    fn listxattr(&self, ctx: &Context, inode: u64, size: u32) -> io::Result<ListxattrReply> {
        self.rec("listxattr", ctx, &[inode.to_string()]);
        self.a_num().map(|n| ListxattrReply::Count(n as u32))
    }
    fn removexattr(&self, ctx: &Context, inode: u64, name: &CStr) -> io::Result<()> {
        self.rec("removexattr", ctx, &[inode.to_string(), nm(name)]);
        self.a_unit()
    }
    fn opendir(&self, ctx: &Context, inode: u64, flags: u32) -> io::Result<(Option<u64>, OpenOptions)> {
        self.rec("opendir", ctx, &[inode.to_string()]);
        self.a_num().map(|n| (Some(n), OpenOptions::empty()))
    }
    fn readdir(&self, ctx: &Context, inode: u64, handle: u64, size: u32, offset: u64, add_entry: &mut dyn FnMut(DirEntry) -> io::Result<usize>) -> io::Result<()> {
        self.rec("readdir", ctx, &[inode.to_string(), size.to_string(), offset.to_string()]);
        if let Some(e) = self.a_err() {
            return Err(e);
        }
        let a = self.ans();
        if a == "-" || a.is_empty() {
            return Ok(());
        }
        for (k, d) in a.split(',').enumerate() {
            let f: Vec<&str> = d.split('.').collect();
            let name = unhex(f.get(1).copied().unwrap_or(""));
            match add_entry(DirEntry { ino: f[0].parse().unwrap_or(0), offset: k as u64 + 1, type_: 0, name: &name }) {
                Ok(0) => break,
                Ok(_) => {}
                Err(e) => return Err(e),
            }
        }
        Ok(())
    }
    fn readdirplus(&self, ctx: &Context, inode: u64, handle: u64, size: u32, offset: u64, add_entry: &mut dyn FnMut(DirEntry, Entry) -> io::Result<usize>) -> io::Result<()> {
        self.rec("readdirplus", ctx, &[inode.to_string(), size.to_string(), offset.to_string()]);
        if let Some(e) = self.a_err() {
            return Err(e);
        }
        let a = self.ans();
        if a == "-" || a.is_empty() {
            return Ok(());
        }
        for (k, d) in a.split(',').enumerate() {
            // dino.eino.uid.gid.namehex
            let f: Vec<&str> = d.split('.').collect();
            let n = |i: usize| f.get(i).and_then(|x| x.parse::<u64>().ok()).unwrap_or(0);
            let name = unhex(f.get(4).copied().unwrap_or(""));
            let e = mk_entry(n(1), n(1), n(2) as u32, n(3) as u32);
            match add_entry(DirEntry { ino: n(0), offset: k as u64 + 1, type_: 0, name: &name }, e) {
                Ok(0) => break,
                Ok(_) => {}
                Err(e) => return Err(e),
            }
        }
        Ok(())
    }
    fn fsyncdir(&self, ctx: &Context, inode: u64, datasync: bool, handle: u64) -> io::Result<()> {
        self.rec("fsyncdir", ctx, &[inode.to_string()]);
        self.a_unit()
    }
    fn releasedir(&self, ctx: &Context, inode: u64, flags: u32, handle: u64) -> io::Result<()> {
        self.rec("releasedir", ctx, &[inode.to_string()]);
        self.a_unit()
    }
    fn setupmapping(&self, ctx: &Context, inode: u64, handle: u64, foffset: u64, len: u64, flags: u64, moffset: u64, vu_req: &mut dyn FsCacheReqHandler) -> io::Result<()> {
        self.rec("setupmapping", ctx, &[inode.to_string()]);
        self.a_unit()
    }
    fn removemapping(&self, ctx: &Context, inode: u64, requests: Vec<RemovemappingOne>, vu_req: &mut dyn FsCacheReqHandler) -> io::Result<()> {
        self.rec("removemapping", ctx, &[inode.to_string()]);
        self.a_unit()
    }
    fn access(&self, ctx: &Context, inode: u64, mask: u32) -> io::Result<()> {
        self.rec("access", ctx, &[inode.to_string()]);
        self.a_unit()
    }
}

#[allow(unused_variables)]
#[async_trait]
impl AsyncFileSystem for Bk {
    async fn async_lookup(&self, ctx: &Context, parent: u64, name: &CStr) -> io::Result<Entry> {
        Err(os(libc::ENOSYS))
    }
    async fn async_getattr(&self, ctx: &Context, inode: u64, handle: Option<u64>) -> io::Result<(libc::stat64, Duration)> {
        Err(os(libc::ENOSYS))
    }
    async fn async_setattr(&self, ctx: &Context, inode: u64, attr: libc::stat64, handle: Option<u64>, valid: SetattrValid) -> io::Result<(libc::stat64, Duration)> {
        Err(os(libc::ENOSYS))
    }
    async fn async_open(&self, ctx: &Context, inode: u64, flags: u32, fuse_flags: u32) -> io::Result<(Option<u64>, OpenOptions)> {
        Err(os(libc::ENOSYS))
    }
    async fn async_create(&self, ctx: &Context, parent: u64, name: &CStr, args: CreateIn) -> io::Result<(Entry, Option<u64>, OpenOptions)> {
        Err(os(libc::ENOSYS))
    }
    async fn async_read(&self, ctx: &Context, inode: u64, handle: u64, w: &mut (dyn AsyncZeroCopyWriter + Send), size: u32, offset: u64, lock_owner: Option<u64>, flags: u32) -> io::Result<usize> {
        Err(os(libc::ENOSYS))
    }
    async fn async_write(&self, ctx: &Context, inode: u64, handle: u64, r: &mut (dyn AsyncZeroCopyReader + Send), size: u32, offset: u64, lock_owner: Option<u64>, delayed_write: bool, flags: u32, fuse_flags: u32) -> io::Result<usize> {
        Err(os(libc::ENOSYS))
    }
    async fn async_fsync(&self, ctx: &Context, inode: u64, datasync: bool, handle: u64) -> io::Result<()> {
        Err(os(libc::ENOSYS))
    }
    async fn async_fallocate(&self, ctx: &Context, inode: u64, handle: u64, mode: u32, offset: u64, length: u64) -> io::Result<()> {
        Err(os(libc::ENOSYS))
    }
    async fn async_fsyncdir(&self, ctx: &Context, inode: u64, datasync: bool, handle: u64) -> io::Result<()> {
        Err(os(libc::ENOSYS))
    }
}

impl BackendFileSystem for Bk {
    fn mount(&self) -> io::Result<(Entry, u64)> {
        self.sh.log.lock().unwrap().push(format!("{}.mount", self.spec.id));
        if GATED.with(|g| g.get()) {
            // `Z` steps: the mounting thread parks inside the backend's mount() callback
            let hook = self.sh.gate.lock().unwrap().take();
            if let Some((entered, go)) = hook {
                let _ = entered.send(());
                let _ = go.recv_timeout(Duration::from_secs(10));
            }
        }
        if let Some(n) = self.spec.mans.strip_prefix('e') {
            return Err(os(n.parse().unwrap_or(5)));
        }
        let p = nums(&self.spec.mans, '/');
        Ok((mk_entry(p[0], p[0], p[1] as u32, p[2] as u32), p[3]))
    }
    fn as_any(&self) -> &dyn std::any::Any {
        self
    }
}

// ------------------------------------------------------------------------------------------
// dummy I/O objects for read / write / DAX requests

pub struct NullIo;
impl io::Read for NullIo {
    fn read(&mut self, _: &mut [u8]) -> io::Result<usize> {
        Ok(0)
    }
}
impl io::Write for NullIo {
    fn write(&mut self, b: &[u8]) -> io::Result<usize> {
        Ok(b.len())
    }
    fn flush(&mut self) -> io::Result<()> {
        Ok(())
    }
}
impl ZeroCopyReader for NullIo {
    fn read_to(&mut self, _: &mut dyn FileReadWriteVolatile, _: usize, _: u64) -> io::Result<usize> {
        Ok(0)
    }
}
impl ZeroCopyWriter for NullIo {
    fn write_from(&mut self, _: &mut dyn FileReadWriteVolatile, _: usize, _: u64) -> io::Result<usize> {
        Ok(0)
    }
    fn available_bytes(&self) -> usize {
        0
    }
}
pub struct NoCache;
impl FsCacheReqHandler for NoCache {
    fn map(&mut self, _: u64, _: u64, _: u64, _: u64, _: RawFd) -> io::Result<()> {
        Ok(())
    }
    fn unmap(&mut self, _: Vec<RemovemappingOne>) -> io::Result<()> {
        Ok(())
    }
}

// ------------------------------------------------------------------------------------------
// the world

#[derive(Clone, Debug)]
pub struct Cfg {
    /// no_open, no_opendir, no_writeback, killpriv_v2, no_readdir, seal_size
    pub flags: [bool; 6],
    /// out_opts bits; None = the library default
    pub out_opts: Option<u64>,
    pub gmap: Option<Map>,
    /// the raw id_mapping tuple given to VfsOptions (range 0 = disabled)
    pub gmap_raw: Map,
    pub rm: bool,
}

impl Cfg {
    pub fn parse(kv: &BTreeMap<String, String>) -> Cfg {
        let g = |k: &str| kv.get(k).map(|s| s.as_str()).unwrap_or("");
        let o = g("o");
        let mut flags = [true, true, false, false, false, false];
        if o.len() == 6 {
            for (i, c) in o.chars().enumerate() {
                flags[i] = c == '1';
            }
        }
        let out_opts = match g("oo") {
            "" | "d" => None,
            s => s.parse().ok(),
        };
        let raw = parse_map(g("gmap")).unwrap_or((0, 0, 0));
        Cfg { flags, out_opts, gmap: if raw.2 == 0 { None } else { Some(raw) }, gmap_raw: raw, rm: g("rm") == "1" }
    }
    pub fn opts(&self) -> VfsOptions {
        let mut o = VfsOptions::default();
        o.no_open = self.flags[0];
        o.no_opendir = self.flags[1];
        o.no_writeback = self.flags[2];
        o.killpriv_v2 = self.flags[3];
        o.no_readdir = self.flags[4];
        o.seal_size = self.flags[5];
        if let Some(b) = self.out_opts {
            o.out_opts = FsOptions::from_bits_truncate(b);
        }
        o.id_mapping = self.gmap_raw;
        o
    }
}

/// what the harness itself remembers about a successful mount (from the API's return values)
#[derive(Clone, Debug)]
pub struct Live {
    pub idx: u8,
    pub path: String,
    pub spec: BkSpec,
    pub own_map: Option<Map>,
    /// pseudo inode of the mount path (`PseudoFs::path_walk` right after the mount)
    pub pino: u64,
    pub root_ino: u64,
    pub root_uid: u32,
    pub root_gid: u32,
    /// per-mount mappings of earlier occupants of this slot index (for classification only)
    pub earlier_maps: Vec<Option<Map>>,
}

pub struct World {
    pub cfg: Cfg,
    pub vfs: Arc<Vfs>,
    pub server: Server<Arc<Vfs>>,
    pub sh: Arc<Shared>,
    pub sock: (RawFd, RawFd),
    /// live mounts keyed by slot index
    pub live: BTreeMap<u8, Live>,
    /// every mapping ever given to a slot index
    pub slot_hist: BTreeMap<u8, Vec<Option<Map>>>,
    pub unique: u64,
    pub stash: Stash,
}

#[derive(Clone, Debug, Default, PartialEq)]
pub struct StepOut {
    pub res: String,
    pub calls: Vec<String>,
}

impl StepOut {
    pub fn show(&self) -> String {
        format!("{}@{}", self.res, self.calls.join("+"))
    }
}

pub fn errno_of(e: &io::Error) -> i32 {
    e.raw_os_error().unwrap_or_else(|| fuse_backend_rs::encode_io_error_kind(e.kind()))
}

fn show_io(e: &io::Error) -> String {
    format!("e{}", errno_of(e))
}

fn show_vfs_err(e: &VfsError) -> String {
    match e {
        VfsError::Unsupported => "EUnsupported".into(),
        VfsError::Mount(e) => format!("EMount.{}", errno_of(e)),
        VfsError::RestoreMount(e) => format!("ERestoreMount.{}", errno_of(e)),
        VfsError::InodeIndex(_) => "EInodeIndex".into(),
        VfsError::FsIndex(_) => "EFsIndex".into(),
        VfsError::PathWalk(e) => format!("EPathWalk.{}", errno_of(e)),
        VfsError::NotFound(_) => "ENotFound".into(),
        VfsError::Initialize(_) => "EInitialize".into(),
        VfsError::Persist(_) => "EPersist".into(),
    }
}

fn socketpair() -> (RawFd, RawFd) {
    let mut fds = [0i32; 2];
    let rc = unsafe { libc::socketpair(libc::AF_UNIX, libc::SOCK_SEQPACKET | libc::SOCK_NONBLOCK, 0, fds.as_mut_ptr()) };
    assert_eq!(rc, 0);
    (fds[0], fds[1])
}

fn new_vfs(cfg: &Cfg, opts: VfsOptions) -> Arc<Vfs> {
    let mut v = Vfs::new(opts);
    if cfg.rm {
        v.set_remove_pseudo_root();
    }
    Arc::new(v)
}

fn le32(b: &[u8], o: usize) -> u32 {
    u32::from_le_bytes([b[o], b[o + 1], b[o + 2], b[o + 3]])
}
fn le64(b: &[u8], o: usize) -> u64 {
    let mut a = [0u8; 8];
    a.copy_from_slice(&b[o..o + 8]);
    u64::from_le_bytes(a)
}

fn show_entry(e: &Entry) -> String {
    format!("{}/{}/{}/{}", e.inode, e.attr.st_ino, e.attr.st_uid, e.attr.st_gid)
}

fn cname(hexname: &str) -> CString {
    let mut b = unhex(hexname);
    b.retain(|&x| x != 0);
    CString::new(b).unwrap()
}

impl Drop for World {
    fn drop(&mut self) {
        unsafe {
            libc::close(self.sock.0);
            libc::close(self.sock.1);
        }
    }
}

impl World {
    pub fn new(cfg: &Cfg) -> World {
        let vfs = new_vfs(cfg, cfg.opts());
        World {
            cfg: cfg.clone(),
            server: Server::new(vfs.clone()),
            vfs,
            sh: Arc::new(Shared::default()),
            sock: socketpair(),
            live: BTreeMap::new(),
            slot_hist: BTreeMap::new(),
            unique: 1,
            stash: Stash { umount: None, mount: None, req: None, init: None },
        }
    }

    fn take_log(&self) -> Vec<String> {
        std::mem::take(&mut *self.sh.log.lock().unwrap())
    }

    /// `X:<umount path>:<mount fields>`: UMOUNT on one thread, parked inside the backend's
    /// destroy(); the MOUNT attempted on a second thread meanwhile; then the umount is released.
    /// The raw results are stashed; the caller books them with the ordinary `u` and `m` steps
    /// (sequentially equivalent order: umount, then mount).
    pub fn run_pair(&mut self, upath: &str, mf: &[&str]) {
        use std::sync::mpsc::sync_channel;
        let pino = self.vfs.get_root_pseudofs().path_walk(upath).ok().flatten();
        let spec = BkSpec { id: mf[2].parse().unwrap_or(0), mans: mf[4].to_string(), ie: mf[5].parse().unwrap_or(0) };
        let map = parse_map(mf[3]);
        let bk = self.bk(&spec);
        let (etx, erx) = sync_channel::<()>(1);
        let (gtx, grx) = sync_channel::<()>(1);
        *self.sh.gate.lock().unwrap() = Some((etx, grx));
        let vfs_a = self.vfs.clone();
        let up = upath.to_string();
        let ta = std::thread::spawn(move || {
            GATED.with(|g| g.set(true));
            vfs_a.umount(&up).map_err(|e| show_vfs_err(&e))
        });
        // wait until the umount is parked in destroy() — or is over without having got there
        let t_park = std::time::Instant::now();
        let mut _parked = false;
        while t_park.elapsed() < Duration::from_secs(60) {
            if erx.try_recv().is_ok() {
                _parked = true;
                break;
            }
            if ta.is_finished() {
                break;
            }
            std::thread::sleep(Duration::from_micros(200));
        }
        let vfs_b = self.vfs.clone();
        let mp = mf[1].to_string();
        let tb = std::thread::spawn(move || {
            match map {
                None => vfs_b.mount(bk, &mp),
                Some(m) => vfs_b.mount_with_id_mapping(bk, &mp, Some(m)),
            }
            .map_err(|e| show_vfs_err(&e))
        });
        let t0 = std::time::Instant::now();
        while !tb.is_finished() && t0.elapsed() < Duration::from_millis(25) {
            std::thread::sleep(Duration::from_micros(200));
        }
        let _ = gtx.send(());
        let ru = ta.join();
        let rm = tb.join();
        *self.sh.gate.lock().unwrap() = None;
        let log = self.take_log();
        let pre = format!("{}.", spec.id);
        let (mcalls, ucalls): (Vec<String>, Vec<String>) = log.into_iter().partition(|c| c.starts_with(&pre));
        // a half that panicked is booked as the step result `panic` (like a panicking plain step)
        self.stash.umount = Some((pino, ru.unwrap_or_else(|_| Err("panic".to_string())), ucalls));
        self.stash.mount = Some((rm.unwrap_or_else(|_| Err("panic".to_string())), mcalls));
    }

    fn bk(&self, spec: &BkSpec) -> Box<Bk> {
        Box::new(Bk { spec: spec.clone(), sh: self.sh.clone() })
    }

    pub fn root_live(&self) -> Option<&Live> {
        self.live.values().find(|l| l.pino == 1)
    }

    /// execute one step of a case line
    pub fn step(&mut self, st: &str) -> StepOut {
        let f: Vec<&str> = st.split(':').collect();
        *self.sh.ans.lock().unwrap() = String::new();
        let res = match f[0] {
            "m" => self.do_mount(&f),
            "u" => self.do_umount(&f),
            "i" if self.stash.init.is_some() => {
                let (r, calls) = self.stash.init.take().unwrap();
                self.sh.log.lock().unwrap().extend(calls);
                r
            }
            "i" => {
                let o = FsOptions::from_bits_truncate(f[1].parse().unwrap_or(0));
                match self.vfs.init(o) {
                    Ok(out) => format!("ok{}", out.bits()),
                    Err(e) => show_io(&e),
                }
            }
            "d" => {
                self.vfs.destroy();
                "ok".into()
            }
            "s" => self.do_save_restore(f.get(1).copied().unwrap_or("o")),
            "r" | "R" => self.do_req(&f),
            _ => "bad-step".into(),
        };
        StepOut { res, calls: self.take_log() }
    }

    fn do_mount(&mut self, f: &[&str]) -> String {
        let path = f[1];
        let spec = BkSpec { id: f[2].parse().unwrap_or(0), mans: f[4].to_string(), ie: f[5].parse().unwrap_or(0) };
        let map = parse_map(f[3]);
        let r: Result<u8, String> = if let Some((r, calls)) = self.stash.mount.take() {
            self.sh.log.lock().unwrap().extend(calls);
            r
        } else {
            match map {
                // `mount` is the public entry point without a mapping
                None => self.vfs.mount(self.bk(&spec), path),
                Some(m) => self.vfs.mount_with_id_mapping(self.bk(&spec), path, Some(m)),
            }
            .map_err(|e| show_vfs_err(&e))
        };
        match r {
            Ok(idx) => {
                let pino = self.vfs.get_root_pseudofs().path_walk(path).ok().flatten().unwrap_or(0);
                // an over-mount replaces whoever was mounted at the same pseudo inode
                let old: Vec<u8> = self.live.values().filter(|l| l.pino == pino).map(|l| l.idx).collect();
                for o in old {
                    self.live.remove(&o);
                }
                let p = nums(&spec.mans, '/');
                let earlier = self.slot_hist.get(&idx).cloned().unwrap_or_default();
                self.slot_hist.entry(idx).or_default().push(map);
                self.live.insert(idx, Live { idx, path: path.to_string(), spec, own_map: map, pino, root_ino: p[0], root_uid: p[1] as u32, root_gid: p[2] as u32, earlier_maps: earlier });
                format!("ok{}", idx)
            }
            Err(e) => e,
        }
    }

    fn do_umount(&mut self, f: &[&str]) -> String {
        let path = f[1];
        let (pino, r) = if let Some((pino, r, calls)) = self.stash.umount.take() {
            self.sh.log.lock().unwrap().extend(calls);
            (pino, r)
        } else {
            let pino = self.vfs.get_root_pseudofs().path_walk(path).ok().flatten();
            (pino, self.vfs.umount(path).map_err(|e| show_vfs_err(&e)))
        };
        match r {
            Ok((ino, parent)) => {
                let old: Vec<u8> = self.live.values().filter(|l| Some(l.pino) == pino).map(|l| l.idx).collect();
                for o in old {
                    self.live.remove(&o);
                }
                format!("ok{}.{}", ino, parent)
            }
            Err(e) => e,
        }
    }

    /// C19: save, restore into a fresh `Vfs`, re-attach the live backends at their recorded indices
    /// (ascending pseudo inode of the mount path), continue on the restored instance
    fn do_save_restore(&mut self, mode: &str) -> String {
        let mut buf = match self.vfs.save_to_bytes() {
            Ok(b) => b,
            Err(e) => return format!("save-{}", show_vfs_err(&e)),
        };
        // any inode order is a snapshot some writer may have produced
        self.unique += 1;
        buf = match v1::permute_pseudo_inodes(&buf, self.unique as usize) {
            Ok(b) => b,
            Err(e) => return format!("permute-{}", e),
        };
        if mode == "1" {
            // the same state as a format-version-1 writer stored it (no per-mount mappings)
            buf = match v1::transcode_to_v1(&buf) {
                Ok(b) => b,
                Err(e) => return format!("v1-transcode-{}", e),
            };
        }
        let opts = if mode == "d" { VfsOptions::default() } else { self.cfg.opts() };
        let nv = new_vfs(&self.cfg, opts);
        if let Err(e) = nv.restore_from_bytes(&mut buf) {
            return format!("restore-{}", show_vfs_err(&e));
        }
        let mut lives: Vec<Live> = self.live.values().cloned().collect();
        lives.sort_by_key(|l| l.pino);
        let mut out = String::from("ok");
        for l in lives.iter() {
            match nv.restore_mount(self.bk(&l.spec), l.idx, &l.path) {
                Ok(()) => {}
                Err(e) => out = format!("restore_mount-{}", show_io(&e)),
            }
        }
        self.server = Server::new(nv.clone());
        self.vfs = nv;
        if mode == "d" {
            // the restored instance was constructed without the global mapping
            self.cfg.gmap_raw = (0, 0, 0);
        }
        if mode == "1" {
            // format version 1 carries no per-mount mappings
            for l in self.live.values_mut() {
                l.own_map = None;
            }
            self.slot_hist.clear();
        }
        out
    }

    fn ctx_for(&self, uid: u32, gid: u32, nodeid: u64) -> Result<Context, String> {
        let mut ctx = Context::new();
        ctx.uid = uid;
        ctx.gid = gid;
        ctx.pid = 1;
        // exactly what `Server::remap_ctx_ids` does before dispatch
        self.vfs.id_remap_with_nodeid(&mut ctx, nodeid.into()).map_err(|e| show_io(&e))?;
        Ok(ctx)
    }

    /// `Z:<init bits>:<mount fields>`: a MOUNT on one thread, parked inside the backend's mount()
    /// callback (which runs before the mount lock is taken), while the client's INIT is served on
    /// another thread.  Booked as `i:..` then `m:..`: the mount completes after the negotiation and
    /// must initialise its backend with the negotiated options.
    pub fn run_pair_init(&mut self, bits: &str, mf: &[&str]) {
        use std::sync::mpsc::sync_channel;
        let spec = BkSpec { id: mf[2].parse().unwrap_or(0), mans: mf[4].to_string(), ie: mf[5].parse().unwrap_or(0) };
        let map = parse_map(mf[3]);
        let bk = self.bk(&spec);
        let (etx, erx) = sync_channel::<()>(1);
        let (gtx, grx) = sync_channel::<()>(1);
        *self.sh.gate.lock().unwrap() = Some((etx, grx));
        let vfs_a = self.vfs.clone();
        let mp = mf[1].to_string();
        let ta = std::thread::spawn(move || {
            GATED.with(|g| g.set(true));
            match map {
                None => vfs_a.mount(bk, &mp),
                Some(m) => vfs_a.mount_with_id_mapping(bk, &mp, Some(m)),
            }
            .map_err(|e| show_vfs_err(&e))
        });
        let t_park = std::time::Instant::now();
        while t_park.elapsed() < Duration::from_secs(60) {
            if erx.try_recv().is_ok() || ta.is_finished() {
                break;
            }
            std::thread::sleep(Duration::from_micros(200));
        }
        let vfs_b = self.vfs.clone();
        let o = FsOptions::from_bits_truncate(bits.parse().unwrap_or(0));
        let tb = std::thread::spawn(move || match vfs_b.init(o) {
            Ok(out) => format!("ok{}", out.bits()),
            Err(e) => show_io(&e),
        });
        // INIT never waits for the parked mount (which holds no lock inside its backend's mount()):
        // let it finish completely before the mount goes on, whatever the machine's load
        let t0 = std::time::Instant::now();
        while !tb.is_finished() && t0.elapsed() < Duration::from_secs(10) {
            std::thread::sleep(Duration::from_micros(200));
        }
        let _ = gtx.send(());
        let rm = ta.join();
        let ri = tb.join();
        *self.sh.gate.lock().unwrap() = None;
        let log = self.take_log();
        let pre = format!("{}.", spec.id);
        let (mcalls, icalls): (Vec<String>, Vec<String>) = log.into_iter().partition(|c| c.starts_with(&pre));
        self.stash.init = Some((ri.unwrap_or_else(|_| "panic".to_string()), icalls));
        self.stash.mount = Some((rm.unwrap_or_else(|_| Err("panic".to_string())), mcalls));
    }

    /// `W:<umount path>:<mount fields>`: a MOUNT on one thread, parked inside its backend's init()
    /// (called under the mount lock once the Vfs is initialised); the UMOUNT of another path is
    /// started on a second thread meanwhile and has to wait for the lock; then the mount is
    /// released.  Booked as `m:..` then `u:..` (sequentially equivalent order: the mount first).
    pub fn run_pair_mount_first(&mut self, upath: &str, mf: &[&str]) {
        use std::sync::mpsc::sync_channel;
        let pino = self.vfs.get_root_pseudofs().path_walk(upath).ok().flatten();
        let spec = BkSpec { id: mf[2].parse().unwrap_or(0), mans: mf[4].to_string(), ie: mf[5].parse().unwrap_or(0) };
        let map = parse_map(mf[3]);
        let bk = self.bk(&spec);
        let (etx, erx) = sync_channel::<()>(1);
        let (gtx, grx) = sync_channel::<()>(1);
        *self.sh.gate.lock().unwrap() = Some((etx, grx));
        let vfs_a = self.vfs.clone();
        let mp = mf[1].to_string();
        let ta = std::thread::spawn(move || {
            GATED_INIT.with(|g| g.set(true));
            match map {
                None => vfs_a.mount(bk, &mp),
                Some(m) => vfs_a.mount_with_id_mapping(bk, &mp, Some(m)),
            }
            .map_err(|e| show_vfs_err(&e))
        });
        // wait until the mount is parked in init() — or is over without having got there
        let t_park = std::time::Instant::now();
        while t_park.elapsed() < Duration::from_secs(60) {
            if erx.try_recv().is_ok() || ta.is_finished() {
                break;
            }
            std::thread::sleep(Duration::from_micros(200));
        }
        let vfs_b = self.vfs.clone();
        let up = upath.to_string();
        let tb = std::thread::spawn(move || vfs_b.umount(&up).map_err(|e| show_vfs_err(&e)));
        // the umount has to wait for the mount lock: give it time to get there
        let t0 = std::time::Instant::now();
        while !tb.is_finished() && t0.elapsed() < Duration::from_millis(25) {
            std::thread::sleep(Duration::from_micros(200));
        }
        let _ = gtx.send(());
        let rm = ta.join();
        let ru = tb.join();
        *self.sh.gate.lock().unwrap() = None;
        let log = self.take_log();
        let pre = format!("{}.", spec.id);
        let (mcalls, ucalls): (Vec<String>, Vec<String>) = log.into_iter().partition(|c| c.starts_with(&pre));
        self.stash.umount = Some((pino, ru.unwrap_or_else(|_| Err("panic".to_string())), ucalls));
        self.stash.mount = Some((rm.unwrap_or_else(|_| Err("panic".to_string())), mcalls));
    }

    /// `Y:<umount path>:<uid>:<gid>:<pseudo parent>:<hex name>`: UMOUNT on one thread, parked inside
    /// the backend's destroy(); meanwhile a second client thread LOOKs the mount path UP in the
    /// pseudo tree.  Booked as `u:..` then `r:lookup:..` (what the lookup may see during the
    /// teardown is the state after the umount: the mount point is taken away first).
    pub fn run_pair_lookup(&mut self, upath: &str, rf: &[&str]) {
        use std::sync::mpsc::sync_channel;
        let pino = self.vfs.get_root_pseudofs().path_walk(upath).ok().flatten();
        let (etx, erx) = sync_channel::<()>(1);
        let (gtx, grx) = sync_channel::<()>(1);
        *self.sh.gate.lock().unwrap() = Some((etx, grx));
        let vfs_a = self.vfs.clone();
        let up = upath.to_string();
        let ta = std::thread::spawn(move || {
            GATED.with(|g| g.set(true));
            vfs_a.umount(&up).map_err(|e| show_vfs_err(&e))
        });
        // wait until the umount is parked in destroy() — or is over without having got there
        let t_park = std::time::Instant::now();
        let mut _parked = false;
        while t_park.elapsed() < Duration::from_secs(60) {
            if erx.try_recv().is_ok() {
                _parked = true;
                break;
            }
            if ta.is_finished() {
                break;
            }
            std::thread::sleep(Duration::from_micros(200));
        }
        let uid: u32 = rf[2].parse().unwrap_or(0);
        let gid: u32 = rf[3].parse().unwrap_or(0);
        let ino: u64 = rf[4].parse().unwrap_or(0);
        let name = cname(rf[5]);
        // (the context translation itself may panic under an overflowing id mapping — a documented
        // configuration precondition; it is booked as the LOOKUP's outcome like in a plain step)
        let ctxr = std::panic::catch_unwind(std::panic::AssertUnwindSafe(|| self.ctx_for(uid, gid, ino)));
        let res = match ctxr {
            Err(_) => {
                let _ = gtx.send(());
                Ok("panic".to_string())
            }
            Ok(Err(e)) => Ok(e),
            Ok(Ok(ctx)) => {
                let vfs_b = self.vfs.clone();
                let tb = std::thread::spawn(move || match vfs_b.lookup(&ctx, ino.into(), &name) {
                    Ok(e) => show_entry(&e),
                    Err(e) => show_io(&e),
                });
                // the LOOKUP takes no lock: it finishes on its own
                let t0 = std::time::Instant::now();
                while !tb.is_finished() && t0.elapsed() < Duration::from_secs(10) {
                    std::thread::sleep(Duration::from_micros(200));
                }
                let _ = gtx.send(());
                tb.join()
            }
        };
        let _ = gtx.try_send(());
        let ru = ta.join();
        *self.sh.gate.lock().unwrap() = None;
        let log = self.take_log();
        let (ucalls, rcalls): (Vec<String>, Vec<String>) = log.into_iter().partition(|c| c.ends_with(".destroy"));
        self.stash.umount = Some((pino, ru.unwrap_or_else(|_| Err("panic".to_string())), ucalls));
        self.stash.req = Some((res.unwrap_or_else(|_| "panic".to_string()), rcalls));
    }

    fn do_req(&mut self, f: &[&str]) -> String {
        if let Some((r, calls)) = self.stash.req.take() {
            self.sh.log.lock().unwrap().extend(calls);
            return r;
        }
        // r:<op>:<uid>:<gid>:<ino>:<a1>:<a2>:<ans>
        let op = f[1];
        let uid: u32 = f[2].parse().unwrap_or(0);
        let gid: u32 = f[3].parse().unwrap_or(0);
        let ino: u64 = f[4].parse().unwrap_or(0);
        let a1 = f.get(5).copied().unwrap_or("");
        let a2 = f.get(6).copied().unwrap_or("");
        *self.sh.ans.lock().unwrap() = f.get(7).copied().unwrap_or("").to_string();
        if f[0] == "R" {
            if let Some(r) = self.via_server(op, uid, gid, ino, a1, a2) {
                return r;
            }
        }
        // the node id the request header would carry
        let nodeid = if op == "link" { a2.parse().unwrap_or(0) } else { ino };
        let ctx = match self.ctx_for(uid, gid, nodeid) {
            Ok(c) => c,
            Err(e) => return e,
        };
        let v = &self.vfs;
        let unit = |r: io::Result<()>| match r {
            Ok(()) => "ok".to_string(),
            Err(e) => show_io(&e),
        };
        let ent = |r: io::Result<Entry>| match r {
            Ok(e) => show_entry(&e),
            Err(e) => show_io(&e),
        };
        let attr = |r: io::Result<(libc::stat64, Duration)>| match r {
            Ok((st, _)) => format!("{}/{}/{}", st.st_ino, st.st_uid, st.st_gid),
            Err(e) => show_io(&e),
        };
        let num = |r: io::Result<u64>| match r {
            Ok(n) => format!("ok{}", n),
            Err(e) => show_io(&e),
        };
        let optn = |o: Option<u64>| match o {
            Some(n) => format!("ok{}", n),
            None => "ok-".to_string(),
        };
        let i = ino.into();
        match op {
            "lookup" => ent(v.lookup(&ctx, i, &cname(a1))),
            "forget" => {
                v.forget(&ctx, i, 1);
                "ok".into()
            }
            "getattr" => attr(v.getattr(&ctx, i, None)),
            "setattr" => {
                let p = nums(a1, '/');
                let st = mk_stat(0, p[0] as u32, p.get(1).copied().unwrap_or(0) as u32);
                // optional third component: which owner ids the request sets (1 = uid only,
                // 2 = gid only, default both); the translation must not depend on it
                let valid = match p.get(2).copied().unwrap_or(3) {
                    1 => SetattrValid::UID,
                    2 => SetattrValid::GID,
                    _ => SetattrValid::UID | SetattrValid::GID,
                };
                attr(v.setattr(&ctx, i, st, None, valid))
            }
            "readlink" => match v.readlink(&ctx, i) {
                Ok(b) => format!("ok{}", String::from_utf8_lossy(&b)),
                Err(e) => show_io(&e),
            },
            "symlink" => ent(v.symlink(&ctx, &cname("74"), i, &cname(a1))),
            "mknod" => ent(v.mknod(&ctx, i, &cname(a1), 0o100644, 0, 0)),
            "mkdir" => ent(v.mkdir(&ctx, i, &cname(a1), 0o755, 0)),
            "unlink" => unit(v.unlink(&ctx, i, &cname(a1))),
            "rmdir" => unit(v.rmdir(&ctx, i, &cname(a1))),
            "rename" => {
                let n: Vec<&str> = a1.split('/').collect();
                unit(v.rename(&ctx, i, &cname(n[0]), a2.parse::<u64>().unwrap_or(0).into(), &cname(n.get(1).copied().unwrap_or("")), 0))
            }
            "link" => ent(v.link(&ctx, i, a2.parse::<u64>().unwrap_or(0).into(), &cname(a1))),
            "open" => match v.open(&ctx, i, 0, 0) {
                Ok((h, _, _)) => optn(h),
                Err(e) => show_io(&e),
            },
            "create" => match v.create(&ctx, i, &cname(a1), CreateIn { flags: 0, mode: 0o644, umask: 0, fuse_flags: 0 }) {
                Ok((e, _, _, _)) => show_entry(&e),
                Err(e) => show_io(&e),
            },
            "read" => num(v.read(&ctx, i, 0, &mut NullIo, 16, 0, None, 0).map(|n| n as u64)),
            "write" => num(v.write(&ctx, i, 0, &mut NullIo, 16, 0, None, false, 0, 0).map(|n| n as u64)),
            "flush" => unit(v.flush(&ctx, i, 0, 0)),
            "fsync" => unit(v.fsync(&ctx, i, false, 0)),
            "fallocate" => unit(v.fallocate(&ctx, i, 0, 0, 0, 16)),
            "release" => unit(v.release(&ctx, i, 0, 0, false, false, None)),
            "statfs" => num(v.statfs(&ctx, i).map(|s| s.f_bsize)),
            "setxattr" => unit(v.setxattr(&ctx, i, &cname(a1), b"v", 0)),
            "getxattr" => match v.getxattr(&ctx, i, &cname(a1), 0) {
                Ok(GetxattrReply::Count(n)) => format!("ok{}", n),
                Ok(GetxattrReply::Value(b)) => format!("okv{}", b.len()),
                Err(e) => show_io(&e),
            },
            "listxattr" => match v.listxattr(&ctx, i, 0) {
                Ok(ListxattrReply::Count(n)) => format!("ok{}", n),
                Ok(ListxattrReply::Names(b)) => format!("okv{}", b.len()),
                Err(e) => show_io(&e),
            },
            "removexattr" => unit(v.removexattr(&ctx, i, &cname(a1))),
            "opendir" => match v.opendir(&ctx, i, 0) {
                Ok((h, _)) => optn(h),
                Err(e) => show_io(&e),
            },
            "fsyncdir" => unit(v.fsyncdir(&ctx, i, false, 0)),
            "releasedir" => unit(v.releasedir(&ctx, i, 0, 0)),
            "access" => unit(v.access(&ctx, i, 0)),
            "setupmapping" => unit(v.setupmapping(&ctx, i, 0, 0, 16, 0, 0, &mut NoCache)),
            "removemapping" => unit(v.removemapping(&ctx, i, vec![], &mut NoCache)),
            "readdir" => {
                let p = nums(a1, '/');
                let (size, off, stop) = (p[0] as u32, p.get(1).copied().unwrap_or(0), p.get(2).copied().unwrap_or(u64::MAX));
                let mut got: Vec<String> = Vec::new();
                let r = v.readdir(&ctx, i, 0, size, off, &mut |d: DirEntry| {
                    if got.len() as u64 >= stop {
                        return Ok(0);
                    }
                    got.push(format!("{}.{}.{}", d.ino, d.offset, hex(d.name)));
                    Ok(1)
                });
                match r {
                    Ok(()) => format!("ok[{}]", got.join(",")),
                    Err(e) => format!("{}[{}]", show_io(&e), got.join(",")),
                }
            }
            "readdirplus" => {
                let p = nums(a1, '/');
                let (size, off, stop) = (p[0] as u32, p.get(1).copied().unwrap_or(0), p.get(2).copied().unwrap_or(u64::MAX));
                let mut got: Vec<String> = Vec::new();
                let r = v.readdirplus(&ctx, i, 0, size, off, &mut |d: DirEntry, e: Entry| {
                    if got.len() as u64 >= stop {
                        return Ok(0);
                    }
                    got.push(format!("{}.{}.{}.{}.{}.{}.{}", d.ino, d.offset, e.inode, e.attr.st_ino, e.attr.st_uid, e.attr.st_gid, hex(d.name)));
                    Ok(1)
                });
                match r {
                    Ok(()) => format!("ok[{}]", got.join(",")),
                    Err(e) => format!("{}[{}]", show_io(&e), got.join(",")),
                }
            }
            _ => "bad-op".into(),
        }
    }

    /// the same request as FUSE bytes through `Server::handle_message` on a /dev/fuse-style writer;
    /// None = this op has no server encoding here (falls back to the direct call)
    fn via_server(&mut self, op: &str, uid: u32, gid: u32, ino: u64, a1: &str, a2: &str) -> Option<String> {
        let mut body: Vec<u8> = Vec::new();
        let z = |b: &mut Vec<u8>, h: &str| {
            let mut n = unhex(h);
            n.retain(|&x| x != 0);
            b.extend_from_slice(&n);
            b.push(0);
        };
        let (opcode, nodeid, kind): (u32, u64, &str) = match op {
            "lookup" => {
                z(&mut body, a1);
                (1, ino, "entry")
            }
            "forget" => {
                body.extend_from_slice(&1u64.to_le_bytes());
                (2, ino, "none")
            }
            "getattr" => {
                body.extend_from_slice(&[0u8; 16]);
                (3, ino, "attr")
            }
            "setattr" => {
                let p = nums(a1, '/');
                let mut b = vec![0u8; 88];
                let bits: u32 = match p.get(2).copied().unwrap_or(3) { 1 => 2, 2 => 4, _ => 6 }; // FATTR_UID = 2, FATTR_GID = 4
                b[0..4].copy_from_slice(&bits.to_le_bytes());
                b[76..80].copy_from_slice(&(p[0] as u32).to_le_bytes());
                b[80..84].copy_from_slice(&(p.get(1).copied().unwrap_or(0) as u32).to_le_bytes());
                body = b;
                (4, ino, "attr")
            }
            "symlink" => {
                z(&mut body, a1);
                z(&mut body, "74");
                (6, ino, "entry")
            }
            "mknod" => {
                body.extend_from_slice(&0o100644u32.to_le_bytes());
                body.extend_from_slice(&[0u8; 12]);
                z(&mut body, a1);
                (8, ino, "entry")
            }
            "mkdir" => {
                body.extend_from_slice(&0o755u32.to_le_bytes());
                body.extend_from_slice(&[0u8; 4]);
                z(&mut body, a1);
                (9, ino, "entry")
            }
            "unlink" => {
                z(&mut body, a1);
                (10, ino, "unit")
            }
            "rmdir" => {
                z(&mut body, a1);
                (11, ino, "unit")
            }
            "rename" => {
                let n: Vec<&str> = a1.split('/').collect();
                body.extend_from_slice(&a2.parse::<u64>().unwrap_or(0).to_le_bytes());
                z(&mut body, n[0]);
                z(&mut body, n.get(1).copied().unwrap_or(""));
                (12, ino, "unit")
            }
            "link" => {
                body.extend_from_slice(&ino.to_le_bytes());
                z(&mut body, a1);
                (13, a2.parse::<u64>().unwrap_or(0), "entry")
            }
            "create" => {
                body.extend_from_slice(&0u32.to_le_bytes());
                body.extend_from_slice(&0o644u32.to_le_bytes());
                body.extend_from_slice(&[0u8; 8]);
                z(&mut body, a1);
                (35, ino, "entry")
            }
            "access" => {
                body.extend_from_slice(&[0u8; 8]);
                (34, ino, "unit")
            }
            _ => return None,
        };
        self.unique += 1;
        let mut msg: Vec<u8> = Vec::new();
        msg.extend_from_slice(&((40 + body.len()) as u32).to_le_bytes());
        msg.extend_from_slice(&opcode.to_le_bytes());
        msg.extend_from_slice(&self.unique.to_le_bytes());
        msg.extend_from_slice(&nodeid.to_le_bytes());
        msg.extend_from_slice(&uid.to_le_bytes());
        msg.extend_from_slice(&gid.to_le_bytes());
        msg.extend_from_slice(&1u32.to_le_bytes());
        msg.extend_from_slice(&0u32.to_le_bytes());
        msg.extend_from_slice(&body);
        let mut scratch = vec![0u8; 4096];
        let ret = {
            let r: Reader<'_, ()> = Reader::from_fuse_buffer(FuseBuf::new(&mut msg)).unwrap();
            let w = FuseDevWriter::<()>::new(self.sock.0, &mut scratch).unwrap();
            self.server.handle_message(r, Writer::FuseDev(w), None, None)
        };
        // drain the reply record
        let mut buf = vec![0u8; 8192];
        let n = unsafe { libc::recv(self.sock.1, buf.as_mut_ptr() as *mut libc::c_void, buf.len(), libc::MSG_DONTWAIT) };
        if kind == "none" {
            return Some(if n >= 0 { "replied-to-forget".into() } else { "ok".into() });
        }
        if ret.is_err() || n < 16 {
            return Some(format!("srv-error:{}", ret.is_err()));
        }
        let rp = &buf[..n as usize];
        let err = le32(rp, 4) as i32;
        if le64(rp, 8) != self.unique {
            return Some("srv-unique-mismatch".into());
        }
        if err != 0 {
            return Some(format!("e{}", -err));
        }
        Some(match kind {
            "entry" if rp.len() >= 16 + 128 => {
                let b = &rp[16..];
                format!("{}/{}/{}/{}", le64(b, 0), le64(b, 40), le32(b, 108), le32(b, 112))
            }
            "attr" if rp.len() >= 16 + 16 + 88 => {
                let b = &rp[32..];
                format!("{}/{}/{}", le64(b, 0), le32(b, 68), le32(b, 72))
            }
            "unit" => "ok".into(),
            _ => format!("srv-short-reply:{}", rp.len()),
        })
    }
}

/// Previous snapshot format (root version 1) without a hook: mirror structures with the same field
/// layout as `VfsState` / `VfsOptionsState` decode the bytes `save_to_bytes` produced and encode
/// them again at version 1, exactly as the crate's own v1 test does with the private types.
pub mod v1 {
    use dbs_snapshot::Snapshot;
    use versionize::{VersionMap, Versionize, VersionizeResult};
    use versionize_derive::Versionize;

    #[derive(Versionize, Debug, Default, Clone, Copy)]
    pub struct IdMappingStateM {
        internal_id: u32,
        external_id: u32,
        range: u32,
    }

    #[derive(Versionize, Debug)]
    pub struct VfsStateM {
        options: VfsOptionsStateM,
        root: Vec<u8>,
        pub next_super: u8,
        #[version(start = 2, default_fn = "default_mount_id_mappings")]
        mount_id_mappings: Vec<Option<IdMappingStateM>>,
    }

    impl VfsStateM {
        fn default_mount_id_mappings(_source_version: u16) -> Vec<Option<IdMappingStateM>> {
            vec![None; 256]
        }
    }

    #[derive(Versionize, Debug, Default)]
    pub struct VfsOptionsStateM {
        in_opts: u64,
        out_opts: u64,
        no_readdir: bool,
        seal_size: bool,
        id_mapping_internal: u32,
        id_mapping_external: u32,
        id_mapping_range: u32,
        no_open: bool,
        no_opendir: bool,
        no_writeback: bool,
        killpriv_v2: bool,
    }

    fn vm2() -> VersionMap {
        let mut vm = VersionMap::new();
        vm.set_type_version(VfsStateM::type_id(), 1).set_type_version(VfsOptionsStateM::type_id(), 1);
        vm.new_version().set_type_version(VfsStateM::type_id(), 2);
        vm
    }

    pub fn decode(buf: &[u8]) -> Result<VfsStateM, String> {
        let r: Result<(VfsStateM, u16), _> = Snapshot::load(&mut &buf[..], buf.len(), vm2());
        r.map(|x| x.0).map_err(|e| format!("{:?}", e))
    }

    #[derive(Versionize, PartialEq, Debug, Default, Clone)]
    pub struct PseudoInodeStateM {
        ino: u64,
        parent: u64,
        name: String,
    }

    #[derive(Versionize, PartialEq, Debug, Default)]
    pub struct PseudoFsStateM {
        next_inode: u64,
        inodes: Vec<PseudoInodeStateM>,
    }

    /// The saved pseudo tree lists its inodes in the writer's hash-map order: any order is a state
    /// some writer may have produced.  Re-encode the snapshot (same format version) with the inode
    /// list rotated and reversed; a restore must not depend on the order.
    pub fn permute_pseudo_inodes(buf: &[u8], k: usize) -> Result<Vec<u8>, String> {
        let mut st = decode(buf)?;
        let mut pvm = VersionMap::new();
        pvm.set_type_version(PseudoFsStateM::type_id(), 1);
        let r: Result<(PseudoFsStateM, u16), _> = Snapshot::load(&mut &st.root[..], st.root.len(), pvm.clone());
        let mut ps = r.map(|x| x.0).map_err(|e| format!("{:?}", e))?;
        if ps.inodes.len() > 1 {
            let n = ps.inodes.len();
            ps.inodes.rotate_left(k % n);
            ps.inodes.reverse();
        }
        let mut root = Vec::new();
        Snapshot::new(pvm, 1).save(&mut root, &ps).map_err(|e| format!("{:?}", e))?;
        st.root = root;
        let mut out = Vec::new();
        Snapshot::new(vm2(), 2).save(&mut out, &st).map_err(|e| format!("{:?}", e))?;
        Ok(out)
    }

    pub fn transcode_to_v1(buf: &[u8]) -> Result<Vec<u8>, String> {
        let st = decode(buf)?;
        let mut vm = VersionMap::new();
        vm.set_type_version(VfsStateM::type_id(), 1).set_type_version(VfsOptionsStateM::type_id(), 1);
        let mut s = Snapshot::new(vm, 1);
        let mut out = Vec::new();
        s.save(&mut out, &st).map_err(|e| format!("{:?}", e))?;
        Ok(out)
    }
}
