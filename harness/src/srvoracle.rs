//! Independent decoder of replies (written from the kernel header, not from the library's
//! structs): given the scripted answer in the case line, what must the client read?
use crate::scriptfs::{kn, ks, Kv};
use crate::util::unhex;

fn le32(b: &[u8], off: usize) -> u64 {
    u32::from_le_bytes([b[off], b[off + 1], b[off + 2], b[off + 3]]) as u64
}
fn le64(b: &[u8], off: usize) -> u64 {
    let mut a = [0u8; 8];
    a.copy_from_slice(&b[off..off + 8]);
    u64::from_le_bytes(a)
}

/// kernel `struct fuse_attr` at `off` must carry the scripted stat
fn check_attr(kv: &Kv, b: &[u8], off: usize, flags: u64) -> Option<String> {
    let want: [(&str, usize, usize, u64); 16] = [
        ("ino", 0, 8, kn(kv, "st_ino")),
        ("size", 8, 8, kn(kv, "st_size")),
        ("blocks", 16, 8, kn(kv, "st_blocks")),
        ("atime", 24, 8, kn(kv, "st_atime")),
        ("mtime", 32, 8, kn(kv, "st_mtime")),
        ("ctime", 40, 8, kn(kv, "st_ctime")),
        ("atimensec", 48, 4, kn(kv, "st_atimensec") & 0xffff_ffff),
        ("mtimensec", 52, 4, kn(kv, "st_mtimensec") & 0xffff_ffff),
        ("ctimensec", 56, 4, kn(kv, "st_ctimensec") & 0xffff_ffff),
        ("mode", 60, 4, kn(kv, "st_mode")),
        ("nlink", 64, 4, kn(kv, "st_nlink") & 0xffff_ffff),
        ("uid", 68, 4, kn(kv, "st_uid")),
        ("gid", 72, 4, kn(kv, "st_gid")),
        ("rdev", 76, 4, kn(kv, "st_rdev") & 0xffff_ffff),
        ("blksize", 80, 4, kn(kv, "st_blksize") & 0xffff_ffff),
        ("flags", 84, 4, flags),
    ];
    for (n, o, w, v) in want {
        let got = if w == 8 { le64(b, off + o) } else { le32(b, off + o) };
        if got != v {
            return Some(format!("attr.{}: got {} expected {}", n, got, v));
        }
    }
    None
}

fn check_entry(kv: &Kv, b: &[u8], off: usize, ino: u64) -> Option<String> {
    let w: [(&str, usize, usize, u64); 6] = [
        ("nodeid", 0, 8, ino),
        ("generation", 8, 8, kn(kv, "e_gen")),
        ("entry_valid", 16, 8, kn(kv, "e_esec")),
        ("attr_valid", 24, 8, kn(kv, "e_asec")),
        ("entry_valid_nsec", 32, 4, kn(kv, "e_ensec")),
        ("attr_valid_nsec", 36, 4, kn(kv, "e_ansec")),
    ];
    for (n, o, wd, v) in w {
        let got = if wd == 8 { le64(b, off + o) } else { le32(b, off + o) };
        if got != v {
            return Some(format!("entry.{}: got {} expected {}", n, got, v));
        }
    }
    check_attr(kv, b, off + 40, kn(kv, "e_flags"))
}

fn optv(s: &str) -> u64 {
    if s.is_empty() || s == "none" { 0 } else { s.parse().unwrap_or(0) }
}

/// Some((tag, description)) when the reply does not decode to the scripted answer.
pub fn check_reply(kv: &Kv, op: u32, rp: &[u8]) -> Option<(String, String)> {
    if rp.len() < 16 {
        return None;
    }
    let err = le32(rp, 4) as u32 as i32;
    let ans = ks(kv, "ans");
    let body = &rp[16..];
    let bad = |t: &str, d: String| Some((t.to_string(), d));
    if op == 26 {
        return check_init(kv, rp);
    }
    // errors
    if ans == "err" {
        let e = kn(kv, "errno") as u32 as i32;
        if (1..=4095).contains(&e) && op != 38 && op != 26 && op != 36 && err != -e && !matches!(op, 2 | 42) {
            // INIT with a bad major answers EPROTO before asking the fs; those cases are not wf
            return bad("errno", format!("error field {} expected {}", err, -e));
        }
        return None;
    }
    if ans == "errkind" {
        let want = match ks(kv, "kind") {
            "PermissionDenied" => libc::EACCES,
            "NotFound" => libc::ENOENT,
            "Interrupted" => libc::EINTR,
            "AlreadyExists" => libc::EEXIST,
            "WouldBlock" => libc::EWOULDBLOCK,
            _ => libc::EIO,
        };
        if op != 38 && op != 36 && err != -want {
            return bad("errkind", format!("error field {} expected {}", err, -want));
        }
        return None;
    }
    if err != 0 {
        return None; // an error the server produced on its own (ENOSYS for shape mismatch, ENOMEM, ...)
    }
    match (op, ans) {
        (1 | 6 | 8 | 9 | 13, "entry") => {
            if body.len() != 128 {
                return bad("entry-size", format!("entry reply body {} bytes", body.len()));
            }
            check_entry(kv, body, 0, kn(kv, "e_ino")).and_then(|d| bad("entry", d))
        }
        (35, "created") => {
            if body.len() != 144 {
                return bad("create-size", format!("create reply body {} bytes", body.len()));
            }
            if let Some(d) = check_entry(kv, body, 0, kn(kv, "e_ino")) {
                return bad("create-entry", d);
            }
            let (fh, of, pt) = (le64(body, 128), le32(body, 136), le32(body, 140));
            if fh != optv(ks(kv, "fh")) || of != (kn(kv, "opts") & 0x1f) || pt != optv(ks(kv, "pt")) {
                return bad("create-open", format!("open part fh={} flags={} pt={}", fh, of, pt));
            }
            None
        }
        (3 | 4, "attr") => {
            if body.len() != 104 {
                return bad("attr-size", format!("attr reply body {} bytes", body.len()));
            }
            if le64(body, 0) != kn(kv, "t_sec") || le32(body, 8) != kn(kv, "t_nsec") {
                return bad("attr-timeout", format!("attr_valid {}.{}", le64(body, 0), le32(body, 8)));
            }
            check_attr(kv, body, 16, 0).and_then(|d| bad("attr", d))
        }
        (14 | 27, "opened") => {
            if body.len() != 16 {
                return bad("open-size", format!("open reply body {} bytes", body.len()));
            }
            let pt = if op == 14 { optv(ks(kv, "pt")) } else { 0 };
            if le64(body, 0) != optv(ks(kv, "fh")) || le32(body, 8) != (kn(kv, "opts") & 0x1f) || le32(body, 12) != pt {
                return bad("open", format!("fh={} flags={} pt={}", le64(body, 0), le32(body, 8), le32(body, 12)));
            }
            None
        }
        (5 | 15 | 22 | 23, "data") => {
            let d = unhex(ks(kv, "data"));
            if body != &d[..] {
                return bad("data", format!("payload of {} bytes differs from the {} bytes the fs produced", body.len(), d.len()));
            }
            None
        }
        (16, "count") => (body.len() != 8 || le32(body, 0) != (kn(kv, "count") & 0xffff_ffff)).then(|| ("write".to_string(), "write size".to_string())),
        (22 | 23, "count") => (body.len() != 8 || le32(body, 0) != (kn(kv, "count") & 0xffff_ffff)).then(|| ("xattr-size".to_string(), "xattr size".to_string())),
        (37, "count") | (46, "count") => (body.len() != 8 || le64(body, 0) != kn(kv, "count")).then(|| ("u64".to_string(), "bmap/lseek value".to_string())),
        (40, "count") => (body.len() != 8 || le32(body, 0) != (kn(kv, "count") & 0xffff_ffff)).then(|| ("poll".to_string(), "revents".to_string())),
        (17, "statfs") => {
            if body.len() != 80 {
                return bad("statfs-size", format!("{}", body.len()));
            }
            let w = [("blocks", 0, 8, kn(kv, "sv_blocks")), ("bfree", 8, 8, kn(kv, "sv_bfree")), ("bavail", 16, 8, kn(kv, "sv_bavail")),
                ("files", 24, 8, kn(kv, "sv_files")), ("ffree", 32, 8, kn(kv, "sv_ffree")), ("bsize", 40, 4, kn(kv, "sv_bsize") & 0xffff_ffff),
                ("namelen", 44, 4, kn(kv, "sv_namemax") & 0xffff_ffff), ("frsize", 48, 4, kn(kv, "sv_frsize") & 0xffff_ffff)];
            for (n, o, wd, v) in w {
                let got = if wd == 8 { le64(body, o) } else { le32(body, o) };
                if got != v {
                    return bad("statfs", format!("{} got {} expected {}", n, got, v));
                }
            }
            None
        }
        (31, "lock") => {
            if body.len() != 24 || le64(body, 0) != kn(kv, "lk_start") || le64(body, 8) != kn(kv, "lk_end")
                || le32(body, 16) != kn(kv, "lk_type") || le32(body, 20) != kn(kv, "lk_pid") {
                return bad("lock", "lock reply differs".into());
            }
            None
        }
        (39, "ioctl") => {
            let d = if ks(kv, "io_data") == "none" { vec![] } else { unhex(ks(kv, "io_data")) };
            if body.len() != 16 + d.len() || le32(body, 0) != kn(kv, "io_res") || body[16..] != d[..] {
                return bad("ioctl", "ioctl reply differs".into());
            }
            None
        }
        (28 | 44, "dirents") => check_dirents(kv, op == 44, body).and_then(|d| bad("dirents", d)),
        (_, "unit") => (!body.is_empty() && op != 26).then(|| ("unit".to_string(), format!("{} unexpected body bytes", body.len()))),
        _ => None,
    }
}

/// INIT (C12): the reply enables exactly capable ∩ want, extended bits only with the marker,
/// laid out for the client's minor, major mismatch handled as the protocol prescribes
fn check_init(kv: &Kv, rp: &[u8]) -> Option<(String, String)> {
    const KNOWN: u64 = 0x1fff_ffff | 0x4000_0000 | 0x2_0000_0000 | (1 << 39) | (1 << 63);
    const INIT_EXT: u64 = 0x4000_0000;
    let req = unhex(ks(kv, "req"));
    if req.len() < 56 {
        return None;
    }
    let (major, minor, ra, flags) = (le32(&req, 40), le32(&req, 44), le32(&req, 48), le32(&req, 52));
    let err = le32(rp, 4) as u32 as i32;
    let body = &rp[16..];
    let bad = |t: &str, d: String| Some((format!("init:{}", t), d));
    if major < 7 {
        return if err != -libc::EPROTO { bad("major-low", format!("major {} answered with error {}", major, err)) } else { None };
    }
    if major > 7 {
        if err != 0 || body.len() != 64 || le32(body, 0) != 7 || le32(body, 4) != 33 || body[8..].iter().any(|&b| b != 0) {
            return bad("major-high", "a newer major must be answered with a bare 7.33 reply".into());
        }
        return None;
    }
    if ks(kv, "ans") != "want" || err != 0 {
        return None;
    }
    let mut cap = flags;
    if flags & INIT_EXT != 0 {
        if req.len() >= 56 + 48 { cap |= le32(&req, 56) << 32 } else { cap &= !INIT_EXT }
    }
    let enabled = cap & KNOWN & kn(kv, "want");
    let want_size = if minor < 5 { 8 } else if minor < 23 { 24 } else { 64 };
    if body.len() != want_size {
        return bad("size", format!("minor {} answered with a {}-byte body, expected {}", minor, body.len(), want_size));
    }
    if le32(body, 0) != 7 {
        return bad("major", "reply major is not 7".into());
    }
    if want_size >= 24 {
        let f = le32(body, 12);
        if f & !INIT_EXT != (enabled & 0xffff_ffff) & !INIT_EXT {
            return bad("flags", format!("flags {:#x} but capable&want = {:#x}", f, enabled & 0xffff_ffff));
        }
        if le32(body, 8) != ra {
            return bad("readahead", "max_readahead not echoed".into());
        }
        let mw = le32(body, 20);
        if mw + 4096 > (1 << 20) + 4096 || mw == 0 {
            return bad("max_write", format!("max_write {} does not fit the request buffer limit", mw));
        }
        if want_size == 64 {
            let f2 = le32(body, 32);
            if f2 != enabled >> 32 {
                return bad("flags2", format!("flags2 {:#x} but capable&want high = {:#x}", f2, enabled >> 32));
            }
            if f2 != 0 && f & INIT_EXT == 0 {
                return bad("marker", "extended bits enabled without the INIT_EXT marker".into());
            }
        }
        if f & INIT_EXT != 0 && cap & INIT_EXT == 0 {
            return bad("marker-unoffered", "INIT_EXT enabled although the client did not offer it".into());
        }
    }
    None
}

/// the kernel's walk over a READDIR(PLUS) payload: whole 8-aligned records, within `size`,
/// a prefix of the scripted entries with the same ino/off/type/name (and entry for plus)
fn check_dirents(kv: &Kv, plus: bool, body: &[u8]) -> Option<String> {
    let req = unhex(ks(kv, "req"));
    if req.len() < 40 + 20 {
        return None;
    }
    let size = le32(&req, 40 + 16) as usize;
    if body.len() > size {
        return Some(format!("payload {} bytes exceeds requested size {}", body.len(), size));
    }
    let ents: Vec<(Vec<u8>, u64, u64, u64)> = ks(kv, "ents")
        .split(',')
        .filter(|s| !s.is_empty())
        .filter_map(|it| {
            let p: Vec<&str> = it.split(':').collect();
            Some((unhex(p[0]), p[1].parse().ok()?, p[2].parse().ok()?, p[3].parse().ok()?))
        })
        .collect();
    let mut off = 0usize;
    let mut i = 0usize;
    while off < body.len() {
        let e_off = off;
        if plus {
            if off + 128 > body.len() {
                return Some(format!("truncated entry_out at {}", off));
            }
            off += 128;
        }
        if off + 24 > body.len() {
            return Some(format!("truncated dirent at {}", off));
        }
        let (ino, o, nl, ty) = (le64(body, off), le64(body, off + 8), le32(body, off + 16) as usize, le32(body, off + 20));
        let rec = (24 + nl + 7) / 8 * 8;
        if off + rec > body.len() {
            return Some(format!("partial record at {} (namelen {}, {} bytes left)", off, nl, body.len() - off));
        }
        if i >= ents.len() {
            return Some("more records than the fs produced".into());
        }
        let (nm, eino, eoff, ety) = &ents[i];
        if &body[off + 24..off + 24 + nl] != &nm[..] || ino != *eino || o != *eoff || ty != *ety {
            return Some(format!("record {} differs from the entry the fs produced", i));
        }
        if body[off + 24 + nl..off + rec].iter().any(|&b| b != 0) {
            return Some(format!("non-zero padding in record {}", i));
        }
        if plus {
            let mut kv2 = kv.clone();
            kv2.insert("st_ino".into(), eino.to_string());
            if let Some(d) = check_entry(&kv2, body, e_off, *eino) {
                return Some(format!("plus record {}: {}", i, d));
            }
        }
        off += rec;
        i += 1;
    }
    None
}
