//! Shared helpers for the correspondence harness.
pub mod prng;
pub mod scriptfs;
pub mod scriptfs_async;
pub mod srvgen;
pub mod srvoracle;
pub mod util;
pub mod vq;
pub mod vfsrun;
pub mod ovlhost;
pub mod xscript;
