//! Shared helpers for the correspondence harness.
pub mod prng;
pub mod util;
