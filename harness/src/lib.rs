//! Shared helpers for the correspondence harness.
pub mod prng;
pub mod scriptfs;
pub mod srvgen;
pub mod srvoracle;
pub mod util;
pub mod vq;
