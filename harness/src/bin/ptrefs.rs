//! `ptrefs` engine: drives the real `PassthroughFs` (inode table, handle table, descriptors)
//! through whole histories on a temp directory and prints, per step, the canonical observation
//! the Lean model `Fbr.PtRefs` must reproduce: result, validity of every inode number ever seen
//! (`getattr` != EBADF), table sizes (hook H2) and the number of open descriptors.
//! Serves C08 (lookup references) and C15 (handles / descriptors, with EMFILE injection through
//! RLIMIT_NOFILE headroom around a single request).
//!
//! Case line:  case=N cfg=fh:B,hi:B,no:B,nod:B ops=<op>;<op>;...   (see `Fbr.PtRefsShow`)
//! Every host answer (what a name resolves to as dense ids, results of mkdirat/linkat/openat,
//! the getdents order) is computed by this harness with its own system calls on the export tree
//! and written into the op, so the model needs no oracle of its own.
use std::collections::{BTreeMap, BTreeSet, HashMap};
use std::ffi::{CStr, CString};
use std::io;
use std::io::Write as _;
use std::os::unix::ffi::OsStrExt;
use std::os::unix::fs::MetadataExt;
use std::path::{Path, PathBuf};

use fbrh::prng::Prng;
use fbrh::util::{args, Out};
use fuse_backend_rs::abi::fuse_abi::CreateIn;
use fuse_backend_rs::api::filesystem::{Context, Entry, FileSystem, FsOptions};
use fuse_backend_rs::passthrough::{CachePolicy, Config, PassthroughFs};

const NAMES: [&str; 6] = ["a", "b", "c", "d", "e", "f"];
const BOGUS: u64 = 1 << 60;

#[derive(Clone, Copy, PartialEq, Eq, Debug)]
struct Cfg {
    fh: bool,
    hi: bool,
    /// zero-message open / opendir in force (what the model sees): configured AND offered by the client
    no: bool,
    nod: bool,
    /// "under a VFS": `do_import: false`, cfg.no_open / cfg.no_opendir off — the negotiated modes
    /// then follow the client's offer alone; the embedder calls import() itself
    uv: bool,
    /// cfg.no_open / cfg.no_opendir configured although the client does not offer the capability
    xo: bool,
}

impl Cfg {
    fn show(&self) -> String {
        format!("fh:{},hi:{},no:{},nod:{}{}{}", self.fh as u8, self.hi as u8, self.no as u8, self.nod as u8,
            if self.uv { ",uv:1" } else { "" }, if self.xo { ",xo:1" } else { "" })
    }
    fn parse(s: &str) -> Cfg {
        let mut c = Cfg { fh: false, hi: false, no: false, nod: false, uv: false, xo: false };
        for t in s.split(',') {
            let mut it = t.split(':');
            let k = it.next().unwrap_or("");
            let v = it.next().unwrap_or("0") == "1";
            match k {
                "fh" => c.fh = v,
                "hi" => c.hi = v,
                "no" => c.no = v,
                "nod" => c.nod = v,
                "uv" => c.uv = v,
                "xo" => c.xo = v,
                _ => {}
            }
        }
        c
    }
}

/// an abstract request: inode numbers / handles by first-occurrence index, names, no host answers
#[derive(Clone, Debug)]
enum Plan {
    Lookup { p: usize, name: String },
    Forget { i: usize, n: u64 },
    Batch(Vec<(usize, u64)>),
    Mkdir { p: usize, name: String },
    Symlink { p: usize, name: String },
    Mknod { p: usize, name: String },
    Link { i: usize, p: usize, name: String },
    Create { p: usize, name: String, excl: bool },
    Open { i: usize, rw: bool },
    Opendir { i: usize },
    Release { i: usize, h: usize },
    Releasedir { i: usize, h: usize },
    Rdp { i: usize, h: usize, fit: usize, err: bool },
    Getattr { i: usize, h: Option<usize> },
    Rename { p1: usize, n1: String, p2: usize, n2: String },
    Unlink { p: usize, name: String },
    Destroy,
    Init,
}

impl Plan {
    fn kind(&self) -> &'static str {
        match self {
            Plan::Lookup { .. } => "lookup",
            Plan::Forget { .. } => "forget",
            Plan::Batch(_) => "batch_forget",
            Plan::Mkdir { .. } => "mkdir",
            Plan::Symlink { .. } => "symlink",
            Plan::Mknod { .. } => "mknod",
            Plan::Link { .. } => "link",
            Plan::Create { .. } => "create",
            Plan::Open { .. } => "open",
            Plan::Opendir { .. } => "opendir",
            Plan::Release { .. } => "release",
            Plan::Releasedir { .. } => "releasedir",
            Plan::Rdp { .. } => "readdirplus",
            Plan::Getattr { .. } => "getattr",
            Plan::Rename { .. } => "rename",
            Plan::Unlink { .. } => "unlink",
            Plan::Destroy => "destroy",
            Plan::Init => "init",
        }
    }
}

fn idx(s: &str) -> usize {
    s[1..].trim_end_matches('*').parse().unwrap_or(0)
}

/// parse an (annotated or bare) op string back into the abstract request + headroom
fn parse_plan(tok: &str) -> Option<(Plan, Option<u32>)> {
    let (body, cap) = match tok.split_once('!') {
        Some((b, k)) => (b, k.parse().ok()),
        None => (tok, None),
    };
    let f: Vec<&str> = body.split(':').collect();
    let p = match f[0] {
        "L" => Plan::Lookup { p: idx(f[1]), name: f[2].into() },
        "F" => Plan::Forget { i: idx(f[1]), n: f[2].parse().unwrap_or(0) },
        "B" => Plan::Batch(
            f.get(1)
                .filter(|s| !s.is_empty() && **s != "-")
                .map(|s| {
                    s.split(',')
                        .map(|p| {
                            let (a, b) = p.split_once('/').unwrap();
                            (idx(a), b.parse().unwrap_or(0))
                        })
                        .collect()
                })
                .unwrap_or_default(),
        ),
        "MD" => Plan::Mkdir { p: idx(f[1]), name: f[2].into() },
        "SL" => Plan::Symlink { p: idx(f[1]), name: f[2].into() },
        "MN" => Plan::Mknod { p: idx(f[1]), name: f[2].into() },
        "LN" => Plan::Link { i: idx(f[1]), p: idx(f[2]), name: f[3].into() },
        "CR" => Plan::Create { p: idx(f[1]), name: f[2].into(), excl: f[3] == "x1" },
        "O" => Plan::Open { i: idx(f[1]), rw: f[2] == "w" },
        "OD" => Plan::Opendir { i: idx(f[1]) },
        "R" => Plan::Release { i: idx(f[1]), h: idx(f[2]) },
        "RD" => Plan::Releasedir { i: idx(f[1]), h: idx(f[2]) },
        "RP" => Plan::Rdp { i: idx(f[1]), h: idx(f[2]), fit: f[5].parse().unwrap_or(0), err: f[6] == "err" },
        "G" => Plan::Getattr { i: idx(f[1]), h: if f[2] == "-" { None } else { Some(idx(f[2])) } },
        "RN" => Plan::Rename { p1: idx(f[1]), n1: f[2].into(), p2: idx(f[3]), n2: f[4].into() },
        "UL" => Plan::Unlink { p: idx(f[1]), name: f[2].into() },
        "D" => Plan::Destroy,
        "I" => Plan::Init,
        _ => return None,
    };
    Some((p, cap))
}

// ---------------------------------------------------------------- host side (own syscalls)

#[repr(C)]
struct RawHandle {
    handle_bytes: u32,
    handle_type: i32,
    f_handle: [u8; 128],
}

/// kernel file handle of a path (not following a final symlink), as bytes
fn handle_of(path: &Path) -> Option<Vec<u8>> {
    let c = CString::new(path.as_os_str().as_bytes()).ok()?;
    let mut h = RawHandle { handle_bytes: 128, handle_type: 0, f_handle: [0; 128] };
    let mut mnt: libc::c_int = 0;
    let r = unsafe { libc::syscall(libc::SYS_name_to_handle_at, libc::AT_FDCWD, c.as_ptr(), &mut h as *mut RawHandle, &mut mnt as *mut libc::c_int, 0) };
    if r != 0 {
        return None;
    }
    let mut v = Vec::with_capacity(8 + h.handle_bytes as usize);
    v.extend_from_slice(&h.handle_type.to_le_bytes());
    v.extend_from_slice(&h.f_handle[..h.handle_bytes as usize]);
    Some(v)
}

fn errno_of(e: &io::Error) -> i32 {
    e.raw_os_error().unwrap_or(0)
}

#[derive(Clone, PartialEq, Eq, Hash, Debug, PartialOrd, Ord)]
struct Key {
    dev: u64,
    ino: u64,
    fh: Option<Vec<u8>>,
}

#[derive(Clone, Debug)]
struct Fact {
    key: Key,
    id: usize,
    fhid: Option<usize>,
    safe: bool,
    is_dir: bool,
}

struct World {
    cfg: Cfg,
    root: PathBuf,
    fs: PassthroughFs<()>,
    mount_fd: i32,
    base_fds: usize,
    inos: Vec<u64>,
    hnds: Vec<u64>,
    // dense ids
    ids: HashMap<(u64, u64), usize>,
    fhs: HashMap<Vec<u8>, usize>,
    // client ledger (direct oracles; independent of the Lean model)
    held: BTreeMap<u64, u64>,
    hheld: BTreeMap<u64, u64>,
    ident: HashMap<u64, Fact>,
    num_of: HashMap<Key, u64>,
    released: BTreeSet<u64>,
    root_ok: bool,
    faulted: bool,
    /// errno of the harness's own open_by_handle_at on a vanished file during this request
    stale_errno: std::cell::Cell<Option<i32>>,
    /// numbers the client holds whose host (dev, ino) the current request's target reuses with a
    /// different file handle (inode_file_handles + use_host_ino only)
    alias_now: Vec<u64>,
}

fn list_fds() -> Vec<i32> {
    let mut v: Vec<i32> = Vec::new();
    let d = std::fs::read_dir("/proc/self/fd").unwrap();
    let mut names: Vec<i32> = d.filter_map(|e| e.ok()?.file_name().to_str()?.parse().ok()).collect();
    names.sort();
    // the directory stream itself was one of them; it is closed now: drop the entry that is not open
    for fd in names {
        if unsafe { libc::fcntl(fd, libc::F_GETFD) } >= 0 {
            v.push(fd);
        }
    }
    v
}

fn nfds() -> usize {
    list_fds().len()
}

/// Run `f` with RLIMIT_NOFILE leaving exactly `k` descriptors of headroom.  The limit bounds
/// descriptor *numbers*, so every hole below the highest open descriptor is plugged with a dummy
/// first: then "k numbers are free below the limit" and "closing any descriptor makes room for one
/// more" both hold, i.e. the limit acts on the *count* of open descriptors (what the model's
/// ledger counts).
fn with_limit<T>(cap: Option<u32>, f: impl FnOnce() -> T) -> T {
    match cap {
        None => f(),
        Some(k) => {
            let max = list_fds().into_iter().max().unwrap_or(2);
            let mut dummies = vec![];
            loop {
                let fd = unsafe { libc::dup(0) };
                if fd < 0 || fd > max {
                    if fd >= 0 {
                        unsafe { libc::close(fd) };
                    }
                    break;
                }
                dummies.push(fd);
            }
            let mut old = libc::rlimit { rlim_cur: 0, rlim_max: 0 };
            unsafe { libc::getrlimit(libc::RLIMIT_NOFILE, &mut old) };
            let lim = libc::rlimit { rlim_cur: (max + 1) as u64 + k as u64, rlim_max: old.rlim_max };
            unsafe { libc::setrlimit(libc::RLIMIT_NOFILE, &lim) };
            let r = f();
            unsafe { libc::setrlimit(libc::RLIMIT_NOFILE, &old) };
            for fd in dummies {
                unsafe { libc::close(fd) };
            }
            r
        }
    }
}

fn cstr(s: &str) -> CString {
    CString::new(s).unwrap()
}

/// raw getdents64 listing of a directory, names in kernel order including "." and ".."
fn list_dir(path: &Path) -> Result<Vec<String>, i32> {
    let c = CString::new(path.as_os_str().as_bytes()).unwrap();
    let fd = unsafe { libc::open(c.as_ptr(), libc::O_RDONLY | libc::O_DIRECTORY | libc::O_NOFOLLOW | libc::O_CLOEXEC) };
    if fd < 0 {
        return Err(errno_of(&io::Error::last_os_error()));
    }
    let mut out = Vec::new();
    let mut buf = vec![0u8; 4096];
    loop {
        let n = unsafe { libc::syscall(libc::SYS_getdents64, fd, buf.as_mut_ptr(), buf.len()) };
        if n < 0 {
            let e = errno_of(&io::Error::last_os_error());
            unsafe { libc::close(fd) };
            return Err(e);
        }
        if n == 0 {
            break;
        }
        let mut off = 0usize;
        while off < n as usize {
            let reclen = u16::from_le_bytes([buf[off + 16], buf[off + 17]]) as usize;
            let name = unsafe { CStr::from_ptr(buf[off + 19..].as_ptr() as *const libc::c_char) };
            out.push(name.to_string_lossy().into_owned());
            off += reclen;
        }
    }
    unsafe { libc::close(fd) };
    Ok(out)
}

impl World {
    fn new(cfg: Cfg, root: PathBuf) -> World {
        std::fs::create_dir_all(&root).unwrap();
        let c = CString::new(root.as_os_str().as_bytes()).unwrap();
        let mount_fd = unsafe { libc::open(c.as_ptr(), libc::O_RDONLY | libc::O_DIRECTORY | libc::O_CLOEXEC) };
        assert!(mount_fd >= 0);
        let base_fds = nfds();
        let fcfg = Config {
            root_dir: root.to_str().unwrap().to_string(),
            inode_file_handles: cfg.fh,
            use_host_ino: cfg.hi,
            no_open: !cfg.uv && (cfg.no || cfg.xo),
            no_opendir: !cfg.uv && (cfg.nod || cfg.xo),
            cache_policy: CachePolicy::Always,
            do_import: !cfg.uv,
            ..Default::default()
        };
        let fs = PassthroughFs::<()>::new(fcfg).unwrap();
        World {
            cfg,
            root,
            fs,
            mount_fd,
            base_fds,
            inos: vec![1],
            hnds: vec![],
            ids: HashMap::new(),
            fhs: HashMap::new(),
            held: BTreeMap::new(),
            hheld: BTreeMap::new(),
            ident: HashMap::new(),
            num_of: HashMap::new(),
            released: BTreeSet::new(),
            root_ok: false,
            faulted: false,
            stale_errno: std::cell::Cell::new(None),
            alias_now: vec![],
        }
    }

    fn ino(&self, k: usize) -> u64 {
        self.inos.get(k).copied().unwrap_or(BOGUS + k as u64)
    }
    fn hnd(&self, k: usize) -> u64 {
        self.hnds.get(k).copied().unwrap_or(BOGUS + k as u64)
    }
    fn note_ino(&mut self, v: u64) -> usize {
        if let Some(i) = self.inos.iter().position(|x| *x == v) {
            i
        } else {
            self.inos.push(v);
            self.inos.len() - 1
        }
    }
    fn note_hnd(&mut self, v: u64) -> usize {
        if let Some(i) = self.hnds.iter().position(|x| *x == v) {
            i
        } else {
            self.hnds.push(v);
            self.hnds.len() - 1
        }
    }

    /// host facts of a path (lstat + file handle), with dense ids
    fn fact(&mut self, path: &Path) -> Result<Fact, i32> {
        let md = std::fs::symlink_metadata(path).map_err(|e| errno_of(&e))?;
        let fh = if self.cfg.fh { handle_of(path) } else { None };
        let n = self.ids.len();
        let id = *self.ids.entry((md.dev(), md.ino())).or_insert(n);
        let fhid = fh.as_ref().map(|b| {
            let n = self.fhs.len();
            *self.fhs.entry(b.clone()).or_insert(n)
        });
        let ft = md.file_type();
        let key = Key { dev: md.dev(), ino: md.ino(), fh };
        if self.cfg.fh && self.cfg.hi {
            for (ino, c) in self.held.iter() {
                if *c > 0 {
                    if let Some(f) = self.ident.get(ino) {
                        if (f.key.dev, f.key.ino) == (key.dev, key.ino) && f.key.fh != key.fh && !self.alias_now.contains(ino) {
                            self.alias_now.push(*ino);
                        }
                    }
                }
            }
        }
        Ok(Fact { key, id, fhid, safe: ft.is_file() || ft.is_dir(), is_dir: ft.is_dir() })
    }

    fn ans(&mut self, path: Result<PathBuf, i32>) -> (String, Option<Fact>) {
        match path {
            Err(e) => (format!("e{}", e), None),
            Ok(p) => match self.fact(&p) {
                Err(e) => (format!("e{}", e), None),
                Ok(f) => (
                    format!("f{}/{}/{}", f.id, f.fhid.map(|x| x.to_string()).unwrap_or_else(|| "-".into()), if f.is_dir { "d" } else if f.safe { "s" } else { "u" }),
                    Some(f),
                ),
            },
        }
    }

    /// a path of the host file an inode number denotes (walk of the export tree)
    fn path_of(&self, ino: u64) -> Option<PathBuf> {
        if ino == 1 {
            return Some(self.root.clone());
        }
        let f = self.ident.get(&ino)?;
        fn walk(dir: &Path, key: &Key, cfg_fh: bool) -> Option<PathBuf> {
            let mut names: Vec<_> = std::fs::read_dir(dir).ok()?.filter_map(|e| e.ok()).map(|e| e.path()).collect();
            names.sort();
            for p in names {
                let md = match std::fs::symlink_metadata(&p) {
                    Ok(m) => m,
                    Err(_) => continue,
                };
                if md.dev() == key.dev && md.ino() == key.ino && (!cfg_fh || handle_of(&p) == key.fh) {
                    return Some(p);
                }
                if md.file_type().is_dir() {
                    if let Some(r) = walk(&p, key, cfg_fh) {
                        return Some(r);
                    }
                }
            }
            None
        }
        walk(&self.root, &f.key, self.cfg.fh)
    }

    fn child(&self, p: u64, name: &str) -> Result<PathBuf, i32> {
        if let Some((false, _)) = self.kind_of(p) {
            // a non-directory parent: every *at() call through it answers ENOTDIR
            return Err(20);
        }
        let dir = self.path_of(p).ok_or(2)?;
        if p == 1 && name.starts_with("..") {
            return Ok(dir);
        }
        Ok(dir.join(name))
    }

    /// the file an inode number denotes is gone from the host (only meaningful by file handle)
    fn stale(&self, ino: u64) -> bool {
        if !self.cfg.fh || ino == 1 {
            return false;
        }
        let Some(f) = self.ident.get(&ino) else { return false };
        let Some(b) = &f.key.fh else { return false };
        let mut h = RawHandle { handle_bytes: (b.len() - 4) as u32, handle_type: i32::from_le_bytes([b[0], b[1], b[2], b[3]]), f_handle: [0; 128] };
        h.f_handle[..b.len() - 4].copy_from_slice(&b[4..]);
        let fd = unsafe { libc::syscall(libc::SYS_open_by_handle_at, self.mount_fd, &h as *const RawHandle, libc::O_PATH) };
        if fd >= 0 {
            unsafe { libc::close(fd as i32) };
            false
        } else {
            // usually ESTALE; ext4 sometimes answers ENOMEM for a just-deleted inode
            self.stale_errno.set(Some(errno_of(&io::Error::last_os_error())));
            true
        }
    }

    /// `i<k>` with a trailing `*` when the host file is gone (matters only when kept by handle)
    fn iref(&self, k: usize) -> String {
        format!("i{}{}", k, if self.stale(self.ino(k)) { "*" } else { "" })
    }

    fn kind_of(&self, ino: u64) -> Option<(bool, bool)> {
        // (is_dir, safe) as recorded at delivery
        if ino == 1 {
            return Some((true, true));
        }
        self.ident.get(&ino).map(|f| (f.is_dir, f.safe))
    }

    fn sizes(&self) -> (usize, usize, usize, usize, usize, usize) {
        self.fs.verif_table_sizes()
    }

    fn fds(&self) -> usize {
        nfds() - self.base_fds
    }
}

struct StepOut {
    op: String,
    res: String,
    entry: Vec<(u64, bool, Option<Fact>)>, // numbers delivered(+)/undone(-) with the fact used
    handle: Option<u64>,
    is_err: bool,
    errno: i32,
}

fn res_err(e: &io::Error) -> (String, i32) {
    let n = errno_of(e);
    (format!("e{}", n), n)
}

/// execute one abstract request against the real file system; returns the annotated op
fn exec(w: &mut World, plan: &Plan, cap: Option<u32>) -> StepOut {
    let ctx = Context::default();
    let capsfx = cap.map(|k| format!("!{}", k)).unwrap_or_default();
    let mut so = StepOut { op: String::new(), res: String::new(), entry: vec![], handle: None, is_err: false, errno: 0 };
    let mut entry_result = |w: &mut World, so: &mut StepOut, r: io::Result<Entry>, fact: Option<Fact>| match r {
        Ok(e) => {
            let k = w.note_ino(e.inode);
            so.res = format!("ok:i{}", k);
            so.entry.push((e.inode, true, fact));
        }
        Err(e) => {
            let (s, n) = res_err(&e);
            so.res = s;
            so.is_err = true;
            so.errno = n;
        }
    };
    match plan {
        Plan::Lookup { p, name } => {
            let pn = w.ino(*p);
            let path = w.child(pn, name);
            let (a, fact) = w.ans(path);
            so.op = format!("L:{}:{}:{}{}", w.iref(*p), name, a, capsfx);
            let c = cstr(name);
            let r = with_limit(cap, || w.fs.lookup(&ctx, pn, &c));
            entry_result(w, &mut so, r, fact);
        }
        Plan::Forget { i, n } => {
            so.op = format!("F:i{}:{}", i, n);
            w.fs.forget(&ctx, w.ino(*i), *n);
            so.res = "ok".into();
        }
        Plan::Batch(l) => {
            so.op = format!("B:{}", if l.is_empty() { "-".to_string() } else { l.iter().map(|(i, n)| format!("i{}/{}", i, n)).collect::<Vec<_>>().join(",") });
            w.fs.batch_forget(&ctx, l.iter().map(|(i, n)| (w.ino(*i), *n)).collect());
            so.res = "ok".into();
        }
        Plan::Mkdir { p, name } | Plan::Symlink { p, name } | Plan::Mknod { p, name } => {
            let pn = w.ino(*p);
            let path = w.child(pn, name);
            let parent_dir = w.kind_of(pn).map(|k| k.0).unwrap_or(false);
            let exists = path.as_ref().map(|q| std::fs::symlink_metadata(q).is_ok()).unwrap_or(false);
            let hr = if !parent_dir { 20 } else if w.path_of(pn).is_none() { 2 } else if exists { 17 } else { 0 };
            let pref = w.iref(*p);
            let c = cstr(name);
            let (tag, r) = match plan {
                Plan::Mkdir { .. } => ("MD", with_limit(cap, || w.fs.mkdir(&ctx, pn, &c, 0o755, 0))),
                Plan::Symlink { .. } => ("SL", with_limit(cap, || w.fs.symlink(&ctx, &cstr("t"), pn, &c))),
                _ => {
                    let mode = if name.as_str() < "d" { libc::S_IFREG | 0o644 } else { libc::S_IFIFO | 0o644 };
                    ("MN", with_limit(cap, || w.fs.mknod(&ctx, pn, &c, mode, 0, 0)))
                }
            };
            let (a, fact) = w.ans(path);
            so.op = format!("{}:{}:{}:{}:{}{}", tag, pref, name, hr, a, capsfx);
            entry_result(w, &mut so, r, fact);
        }
        Plan::Link { i, p, name } => {
            let inn = w.ino(*i);
            let pn = w.ino(*p);
            let path = w.child(pn, name);
            let parent_dir = w.kind_of(pn).map(|k| k.0).unwrap_or(false);
            let exists = path.as_ref().map(|q| std::fs::symlink_metadata(q).is_ok()).unwrap_or(false);
            let src_path = w.path_of(inn);
            let (iref, pref) = (w.iref(*i), w.iref(*p));
            let src_is_dir = w.kind_of(inn).map(|k| k.0).unwrap_or(false);
            let hr = if !parent_dir {
                20
            } else if w.path_of(pn).is_none() {
                2
            } else if exists {
                17
            } else if src_is_dir {
                1
            } else if src_path.is_none() {
                2
            } else {
                0
            };
            let c = cstr(name);
            let r = with_limit(cap, || w.fs.link(&ctx, inn, pn, &c));
            let (a, fact) = w.ans(path);
            so.op = format!("LN:{}:{}:{}:{}:{}{}", iref, pref, name, hr, a, capsfx);
            entry_result(w, &mut so, r, fact);
        }
        Plan::Create { p, name, excl } => {
            let pn = w.ino(*p);
            let path = w.child(pn, name);
            let ppath = w.path_of(pn);
            let parent_dir = w.kind_of(pn).map(|k| k.0).unwrap_or(false);
            let pre = path.as_ref().ok().and_then(|q| std::fs::symlink_metadata(q).ok());
            let pref = w.iref(*p);
            let cr = if !parent_dir {
                "e20".to_string()
            } else if ppath.is_none() {
                "e2".to_string()
            } else if pre.is_some() {
                "x".to_string()
            } else {
                "c".to_string()
            };
            // open_inode of an existing file with O_RDWR
            let ohr = 0;
            let flags = (libc::O_CREAT | libc::O_RDWR | if *excl { libc::O_EXCL } else { 0 }) as u32;
            let c = cstr(name);
            let r = with_limit(cap, || w.fs.create(&ctx, pn, &c, CreateIn { flags, mode: 0o644, umask: 0, fuse_flags: 0 }));
            let (a, fact) = w.ans(path);
            so.op = format!("CR:{}:{}:{}:{}:{}:{}{}", pref, name, if *excl { "x1" } else { "x0" }, cr, a, ohr, capsfx);
            match r {
                Ok((e, h, _, _)) => {
                    let k = w.note_ino(e.inode);
                    so.entry.push((e.inode, true, fact));
                    match h {
                        Some(hh) => {
                            let j = w.note_hnd(hh);
                            so.handle = Some(hh);
                            so.res = format!("ok:i{}:h{}", k, j);
                        }
                        None => so.res = format!("ok:i{}:-", k),
                    }
                }
                Err(e) => {
                    let (s, n) = res_err(&e);
                    so.res = s;
                    so.is_err = true;
                    so.errno = n;
                }
            }
        }
        Plan::Open { i, rw } => {
            let inn = w.ino(*i);
            let hr = if w.stale(inn) {
                116
            } else {
                match w.kind_of(inn) {
                    Some((true, _)) if *rw => 21,
                    _ => 0,
                }
            };
            so.op = format!("O:i{}:{}:{}{}", i, if *rw { "w" } else { "r" }, hr, capsfx);
            let fl = if *rw { libc::O_RDWR } else { libc::O_RDONLY } as u32;
            let r = with_limit(cap, || w.fs.open(&ctx, inn, fl, 0));
            match r {
                Ok((Some(h), _, _)) => {
                    let j = w.note_hnd(h);
                    so.handle = Some(h);
                    so.res = format!("ok:h{}", j);
                }
                Ok((None, _, _)) => so.res = "ok".into(),
                Err(e) => {
                    let (s, n) = res_err(&e);
                    so.res = s;
                    so.is_err = true;
                    so.errno = n;
                }
            }
        }
        Plan::Opendir { i } => {
            let inn = w.ino(*i);
            let hr = if w.stale(inn) {
                116
            } else {
                match w.kind_of(inn) {
                    Some((false, _)) => 20,
                    _ => 0,
                }
            };
            so.op = format!("OD:i{}:{}{}", i, hr, capsfx);
            let r = with_limit(cap, || w.fs.opendir(&ctx, inn, libc::O_RDONLY as u32));
            match r {
                Ok((Some(h), _)) => {
                    let j = w.note_hnd(h);
                    so.handle = Some(h);
                    so.res = format!("ok:h{}", j);
                }
                Ok((None, _)) => so.res = "ok".into(),
                Err(e) => {
                    let (s, n) = res_err(&e);
                    so.res = s;
                    so.is_err = true;
                    so.errno = n;
                }
            }
        }
        Plan::Release { i, h } | Plan::Releasedir { i, h } => {
            let inn = w.ino(*i);
            let hn = w.hnd(*h);
            let dir = matches!(plan, Plan::Releasedir { .. });
            so.op = format!("{}:i{}:h{}", if dir { "RD" } else { "R" }, i, h);
            let r = if dir { w.fs.releasedir(&ctx, inn, 0, hn) } else { w.fs.release(&ctx, inn, 0, hn, false, false, None) };
            match r {
                Ok(()) => so.res = "ok".into(),
                Err(e) => {
                    let (s, n) = res_err(&e);
                    so.res = s;
                    so.is_err = true;
                    so.errno = n;
                }
            }
        }
        Plan::Rdp { i, h, fit, err } => {
            let inn = w.ino(*i);
            let hn = w.hnd(*h);
            let dpath = w.path_of(inn);
            let is_dir = w.kind_of(inn).map(|k| k.0).unwrap_or(false);
            let dhr = if w.stale(inn) { 116 } else if !is_dir { 20 } else { 0 };
            let mut facts: Vec<Option<Fact>> = vec![];
            let lst = match &dpath {
                _ if !is_dir => "e20".to_string(),
                None => "e2".to_string(),
                Some(d) => match list_dir(d) {
                    Err(e) => format!("e{}", e),
                    Ok(names) => {
                        let mut parts = vec![];
                        for n in names {
                            if n == "." || n == ".." {
                                parts.push(".".to_string());
                            } else {
                                let (a, f) = w.ans(Ok(d.join(&n)));
                                facts.push(f);
                                parts.push(format!("{}~{}", n, a));
                            }
                        }
                        if parts.is_empty() { "-".to_string() } else { parts.join(",") }
                    }
                },
            };
            so.op = format!("RP:i{}:h{}:{}:{}:{}:{}{}", i, h, dhr, lst, fit, if *err { "err" } else { "full" }, capsfx);
            let mut seen: Vec<(u64, bool)> = vec![];
            let r = {
                let mut left = *fit;
                let seen = &mut seen;
                let mut cb = |_d: fuse_backend_rs::api::filesystem::DirEntry, e: Entry| -> io::Result<usize> {
                    if left > 0 {
                        left -= 1;
                        seen.push((e.inode, true));
                        Ok(1)
                    } else {
                        seen.push((e.inode, false));
                        if *err { Err(io::Error::from_raw_os_error(5)) } else { Ok(0) }
                    }
                };
                with_limit(cap, || w.fs.readdirplus(&ctx, inn, hn, 4096, 0, &mut cb))
            };
            let mut parts = vec![];
            for (n, (ino, ok)) in seen.iter().enumerate() {
                let k = w.note_ino(*ino);
                parts.push(format!("i{}{}", k, if *ok { "+" } else { "-" }));
                so.entry.push((*ino, *ok, facts.get(n).cloned().flatten()));
            }
            match r {
                Ok(()) => so.res = format!("ents[{}]:ok", parts.join(",")),
                Err(e) => {
                    let (s, n) = res_err(&e);
                    so.errno = n;
                    so.is_err = true;
                    // errors before the record loop print like every other error
                    so.res = if seen.is_empty() { s } else { format!("ents[{}]:{}", parts.join(","), s) };
                }
            }
        }
        Plan::Getattr { i, h } => {
            let inn = w.ino(*i);
            let hr = if w.stale(inn) { 116 } else { 0 };
            so.op = format!("G:i{}:{}:{}{}", i, h.map(|x| format!("h{}", x)).unwrap_or_else(|| "-".into()), hr, capsfx);
            let r = with_limit(cap, || w.fs.getattr(&ctx, inn, h.map(|x| w.hnd(x))));
            match r {
                Ok(_) => so.res = "ok".into(),
                Err(e) => {
                    let (s, n) = res_err(&e);
                    so.res = s;
                    so.is_err = true;
                    so.errno = n;
                }
            }
        }
        Plan::Rename { p1, n1, p2, n2 } => {
            let a = w.ino(*p1);
            let b = w.ino(*p2);
            // never delete a directory (the model has no "stale parent"): refuse a directory target
            let tgt_dir = w.child(b, n2).ok().map(|q| std::fs::symlink_metadata(&q).map(|m| m.file_type().is_dir()).unwrap_or(false)).unwrap_or(false);
            if tgt_dir {
                return exec(w, &Plan::Getattr { i: 0, h: None }, cap);
            }
            let (r1, r2) = (w.iref(*p1), w.iref(*p2));
            let r = with_limit(cap, || w.fs.rename(&ctx, a, &cstr(n1), b, &cstr(n2), 0));
            // no table effect: the host's own answer is the scripted answer
            let hr = match &r {
                Ok(()) => 0,
                Err(e) => errno_of(e),
            };
            let hr_host = if hr == 9 || hr == 24 || hr == 116 { 0 } else { hr };
            so.op = format!("RN:{}:{}:{}:{}:{}{}", r1, n1, r2, n2, hr_host, capsfx);
            match r {
                Ok(()) => so.res = "ok".into(),
                Err(e) => {
                    let (s, n) = res_err(&e);
                    so.res = s;
                    so.is_err = true;
                    so.errno = n;
                }
            }
        }
        Plan::Unlink { p, name } => {
            let pn = w.ino(*p);
            let pref = w.iref(*p);
            let r = with_limit(cap, || w.fs.unlink(&ctx, pn, &cstr(name)));
            let hr = match &r {
                Ok(()) => 0,
                Err(e) => errno_of(e),
            };
            let hr_host = if hr == 9 || hr == 24 || hr == 116 { 0 } else { hr };
            so.op = format!("UL:{}:{}:{}{}", pref, name, hr_host, capsfx);
            match r {
                Ok(()) => so.res = "ok".into(),
                Err(e) => {
                    let (s, n) = res_err(&e);
                    so.res = s;
                    so.is_err = true;
                    so.errno = n;
                }
            }
        }
        Plan::Destroy | Plan::Init => {
            let root = w.root.clone();
            let (a, fact) = w.ans(Ok(root));
            let d = matches!(plan, Plan::Destroy);
            so.op = format!("{}:{}{}", if d { "D" } else { "I" }, a, capsfx);
            if d {
                with_limit(cap, || w.fs.destroy());
                so.res = "ok".into();
            } else {
                let mut capable = FsOptions::empty();
                if w.cfg.no {
                    capable |= FsOptions::ZERO_MESSAGE_OPEN;
                }
                if w.cfg.nod {
                    capable |= FsOptions::ZERO_MESSAGE_OPENDIR;
                }
                if w.cfg.uv {
                    // under a VFS the embedder imports the root itself
                    let _ = w.fs.import();
                }
                match with_limit(cap, || w.fs.init(capable)) {
                    Ok(_) => so.res = "ok".into(),
                    Err(e) => {
                        let (s, n) = res_err(&e);
                        so.res = s;
                        so.is_err = true;
                        so.errno = n;
                    }
                }
            }
            if let Some(f) = fact {
                w.ident.insert(1, f);
            }
        }
    }
    so
}

fn oracle(out: &mut Out, prop: &str, key: &str, case: &str, what: &str) {
    let v = serde_json::json!({"prop": prop, "key": key, "case": case, "what": what});
    writeln!(out.oracle, "{}", v).unwrap();
    out.n_oracle += 1;
}

struct Finding {
    prop: &'static str,
    key: String,
    what: String,
}

/// run one history; returns (annotated case line body `ops=...`, impl output, findings)
fn run_history(cfg: Cfg, root: PathBuf, auto_cleanup: bool, plans: &mut dyn FnMut(&World, usize) -> Option<(Plan, Option<u32>)>, out: &mut Out) -> (String, String, Vec<Finding>) {
    let mut w = World::new(cfg, root.clone());
    let mut ops: Vec<String> = vec![];
    let mut obs: Vec<String> = vec![];
    let mut finds: Vec<Finding> = vec![];
    let mut step = 0usize;
    let mut cleanup: Vec<Plan> = vec![];
    let mut in_cleanup = false;
    loop {
        let next = if in_cleanup {
            if cleanup.is_empty() { None } else { Some((cleanup.remove(0), None)) }
        } else {
            match plans(&w, step) {
                Some(x) => Some(x),
                None if !auto_cleanup => None,
                None => {
                    // client releases everything it holds
                    in_cleanup = true;
                    for (h, ino) in w.hheld.clone() {
                        let hi = w.hnds.iter().position(|x| *x == h).unwrap();
                        let ii = w.inos.iter().position(|x| *x == ino).unwrap();
                        cleanup.push(if !w.cfg.no { Plan::Release { i: ii, h: hi } } else { Plan::Releasedir { i: ii, h: hi } });
                    }
                    let mut batch = vec![];
                    for (n, (ino, c)) in w.held.clone().into_iter().filter(|(i, c)| *c > 0 && *i != 1).enumerate() {
                        let ii = w.inos.iter().position(|x| *x == ino).unwrap();
                        if n % 2 == 0 { cleanup.push(Plan::Forget { i: ii, n: c }) } else { batch.push((ii, c)) }
                    }
                    if !batch.is_empty() {
                        cleanup.push(Plan::Batch(batch));
                    }
                    cleanup.push(Plan::Getattr { i: 0, h: None });
                    continue;
                }
            }
        };
        let Some((plan, cap)) = next else { break };
        step += 1;
        let before = w.sizes();
        let fds_before = w.fds();
        w.stale_errno.set(None);
        w.alias_now.clear();
        let mut so = exec(&mut w, &plan, cap);
        let kind = plan.kind();
        if let Some(e) = w.stale_errno.get() {
            // the errno of opening a vanished file by handle is a host answer: normalise to ESTALE
            // (ESTALE or ENOMEM, and not necessarily the same one for the harness's own probe and
            // for the call the implementation makes a moment later: ext4 under memory pressure)
            if so.is_err && so.errno != 116 && (so.errno == e || so.errno == 12) {
                let was = so.errno;
                so.errno = 116;
                so.res = so.res.replace(&format!("e{}", was), "e116");
            }
        }
        let aliased: Vec<u64> = w.alias_now.clone();
        if cap.is_some() && so.errno == 24 {
            w.faulted = true;
        }
        out.stat(&format!("op:{}", kind));
        out.stat(&format!("res:{}:{}", kind, if so.is_err { format!("e{}", so.errno) } else { "ok".into() }));
        if cap.is_some() {
            out.stat(&format!("fault:{}:{}", kind, if so.errno == 24 { "hit" } else { "miss" }));
        }
        // ---------------- client ledger
        let mut alias: Vec<String> = vec![];
        match &plan {
            Plan::Forget { i, n } => {
                let x = w.ino(*i);
                if x != 1 {
                    if let Some(c) = w.held.get_mut(&x) {
                        *c = c.saturating_sub(*n);
                    }
                }
            }
            Plan::Batch(l) => {
                for (i, n) in l {
                    let x = w.ino(*i);
                    if x != 1 {
                        if let Some(c) = w.held.get_mut(&x) {
                            *c = c.saturating_sub(*n);
                        }
                    }
                }
            }
            Plan::Destroy => {
                w.held.clear();
                w.hheld.clear();
                w.num_of.clear();
                w.root_ok = w.sizes().0 >= 1;
            }
            Plan::Init => {
                if !so.is_err {
                    w.root_ok = true;
                }
            }
            Plan::Release { i, h } | Plan::Releasedir { i, h } => {
                let hn = w.hnd(*h);
                let inn = w.ino(*i);
                if !so.is_err {
                    match w.hheld.get(&hn) {
                        Some(b) if *b == inn => {}
                        Some(_) => finds.push(Finding { prop: "C15", key: format!("C15:handle-wrong-inode:{}", kind), what: format!("{} succeeded with an inode the handle was not opened on", kind) }),
                        None => finds.push(Finding { prop: "C15", key: format!("C15:handle-after-release:{}", kind), what: format!("{} succeeded on a handle the client does not hold", kind) }),
                    }
                    w.hheld.remove(&hn);
                    w.released.insert(hn);
                } else if so.errno == 9 && w.hheld.get(&hn) == Some(&inn) {
                    finds.push(Finding { prop: "C15", key: format!("C15:handle-lost:{}", kind), what: "EBADF for a handle the client holds, on its own inode".into() });
                }
            }
            Plan::Getattr { i, h: Some(h) } if !w.cfg.no => {
                let hn = w.hnd(*h);
                let inn = w.ino(*i);
                if !so.is_err {
                    match w.hheld.get(&hn) {
                        Some(b) if *b == inn => {}
                        Some(_) => finds.push(Finding { prop: "C15", key: "C15:handle-wrong-inode:getattr".into(), what: "a handle was accepted with an inode it was not opened on".into() }),
                        None => finds.push(Finding { prop: "C15", key: "C15:handle-after-release:getattr".into(), what: "a released / never issued handle was accepted".into() }),
                    }
                } else if so.errno == 9 && w.hheld.get(&hn) == Some(&inn) && (inn == 1 || w.held.get(&inn).copied().unwrap_or(0) > 0) {
                    finds.push(Finding { prop: "C15", key: "C15:handle-lost:getattr".into(), what: "EBADF for a held handle on its own, held inode".into() });
                }
            }
            _ => {}
        }
        for (ino, delivered, fact) in &so.entry {
            if *delivered {
                if let Some(f) = fact {
                    // C08: aliasing / stability, judged on the harness's own view of the host
                    let held_now = *ino == 1 || w.held.get(ino).copied().unwrap_or(0) > 0;
                    if held_now {
                        if let Some(old) = w.ident.get(ino) {
                            if old.key != f.key {
                                if w.cfg.fh && w.cfg.hi && (old.key.dev, old.key.ino) == (f.key.dev, f.key.ino) && *ino != 1 {
                                    // known: the host reused the inode id of a file the client still
                                    // references (kept by handle, so nothing pins the host inode) and
                                    // use_host_ino derives the same number: the old entry is replaced
                                    // and its count restarts at 1.  Resynchronise the client ledger.
                                    alias.push("C08:number-aliased:host-ino-reused-while-held".into());
                                    w.held.insert(*ino, 0);
                                } else {
                                    alias.push(format!("C08:number-aliased:two-files-one-number:{}", kind));
                                }
                            }
                        }
                    }
                    for (other, c) in w.held.iter() {
                        if *c > 0 && other != ino {
                            if let Some(of) = w.ident.get(other) {
                                if of.key == f.key {
                                    alias.push(format!("C08:number-aliased:one-file-two-numbers:{}", kind));
                                }
                            }
                        }
                    }
                    if let Some(prev) = w.num_of.get(&f.key) {
                        if prev != ino {
                            alias.push(format!("C08:stale-number:changed-after-forget:{}", kind));
                        }
                    }
                    w.num_of.insert(f.key.clone(), *ino);
                    w.ident.insert(*ino, f.clone());
                }
                if *ino != 1 {
                    *w.held.entry(*ino).or_insert(0) += 1;
                }
            } else if let Some(f) = fact {
                w.ident.entry(*ino).or_insert_with(|| f.clone());
            }
        }
        for k in alias {
            finds.push(Finding { prop: "C08", key: k, what: "inode number / host file relation broken (harness view of the host)".into() });
        }
        if let Some(h) = so.handle {
            if w.hheld.contains_key(&h) {
                finds.push(Finding { prop: "C15", key: format!("C15:handles-not-distinct:{}", kind), what: "a new handle equals a handle the client still holds".into() });
            }
            let ino = so.entry.first().map(|e| e.0).unwrap_or_else(|| match &plan {
                Plan::Open { i, .. } | Plan::Opendir { i } => w.ino(*i),
                _ => 0,
            });
            w.hheld.insert(h, ino);
        }
        // ---------------- known finding: host inode number reused while the old file is referenced
        if !aliased.is_empty() {
            let what = "inode_file_handles + use_host_ino: the host reused the (dev, ino) of a file the client still references; the same number is derived for the new file and the live entry is replaced";
            finds.push(Finding { prop: "C08", key: "C08:number-aliased:host-ino-reused-while-held".into(), what: what.into() });
            finds.push(Finding { prop: "C15", key: "C15:number-aliased:host-ino-reused-while-held".into(), what: what.into() });
            // resynchronise the client ledger with what the server did to the replaced entry
            for ino in &aliased {
                let delivered = so.entry.iter().any(|e| e.0 == *ino && e.1);
                if !delivered {
                    let gone = matches!(w.fs.getattr(&Context::default(), *ino, None), Err(e) if errno_of(&e) == 9);
                    if gone {
                        w.held.insert(*ino, 0);
                    }
                }
            }
        }
        // ---------------- observation
        let mut bits = String::new();
        let inos = w.inos.clone();
        let probe_ctx = Context::default();
        let mut valid_bad: Vec<Finding> = vec![];
        for x in &inos {
            let ok = match w.fs.getattr(&probe_ctx, *x, None) {
                Ok(_) => true,
                Err(e) => errno_of(&e) != 9,
            };
            bits.push(if ok { '1' } else { '0' });
            let expect = if *x == 1 { w.root_ok } else { w.held.get(x).copied().unwrap_or(0) > 0 };
            if ok && !expect {
                valid_bad.push(Finding { prop: "C08", key: format!("C08:getattr-after-zero:{}", kind), what: format!("inode number still resolves although the client holds no reference (after {})", kind) });
            }
            if !ok && expect {
                valid_bad.push(Finding { prop: "C08", key: format!("C08:ebadf-while-held:{}", kind), what: format!("EBADF on an inode number the client still holds references to (after {})", kind) });
            }
        }
        finds.extend(valid_bad);
        let sz = w.sizes();
        let fds = w.fds();
        // C08/C15 direct oracles on sizes and descriptors
        let live = w.held.values().filter(|c| **c > 0).count() + if w.root_ok { 1 } else { 0 };
        if sz.0 != live {
            finds.push(Finding { prop: "C08", key: format!("C08:{}-{}:{}", kind, if so.is_err { "fail-leaks-ref" } else { "table-size" }, if sz.0 > live { "extra-inode" } else { "missing-inode" }), what: format!("server holds {} inode objects, the client holds references to {}", sz.0, live) });
        }
        if sz.3 != w.hheld.len() {
            finds.push(Finding { prop: "C15", key: format!("C15:handle-table-size:{}", kind), what: format!("server holds {} handles, the client {}", sz.3, w.hheld.len()) });
        }
        if sz.4 > sz.3 {
            finds.push(Finding { prop: "C15", key: format!("C15:cookie-orphan:{}", kind), what: "more directory-position records than handles".into() });
        }
        let exp_fds = 2 + if cfg.fh { if w.root_ok { 1 } else { 0 } } else { live } + w.hheld.len();
        if fds != exp_fds {
            finds.push(Finding { prop: "C15", key: format!("C15:fd-leak:{}{}", kind, if so.is_err { ":on-error" } else { "" }), what: format!("{} descriptors open, {} accounted for by held inodes/handles", fds, exp_fds) });
        }
        if so.is_err && aliased.is_empty() && !matches!(plan, Plan::Init | Plan::Destroy | Plan::Rdp { .. }) && (sz.0 != before.0 || sz.3 != before.3 || fds != fds_before) {
            finds.push(Finding { prop: "C15", key: format!("C15:failed-op-changed-tables:{}", kind), what: "a request that returned an error changed the inode/handle tables or the descriptor count".into() });
        }
        ops.push(so.op.clone());
        obs.push(format!("{}|{}|{},{},{},{},{},{}|{}", so.res, bits, sz.0, sz.1, sz.2, sz.3, sz.4, sz.5, fds));
        out.class(&format!("{}:{}:{}", kind, so.res.split(':').next().unwrap_or(""), if cap.is_some() { "cap" } else { "" }));
    }
    // end of history: the client holds nothing -> tables must be those of a fresh server
    let sz = w.sizes();
    let fds = w.fds();
    let fresh = (if w.root_ok { 1 } else { 0 }, 0usize, 0usize, if cfg.fh && w.root_ok { 1 } else { 0 });
    if (sz.0, sz.3, sz.4, sz.5) != fresh || fds != 2 + if w.root_ok { 1 } else { 0 } {
        finds.push(Finding { prop: "C15", key: "C15:tables-not-fresh".into(), what: format!("after releasing every handle and forgetting every inode: sizes {:?}, {} descriptors", sz, fds) });
    }
    let mount_fd = w.mount_fd;
    drop(w);
    unsafe { libc::close(mount_fd) };
    let _ = std::fs::remove_dir_all(&root);
    (format!("cfg={} ops={}", cfg.show(), ops.join(";")), obs.join(";"), finds)
}

/// generator: next abstract request from the client's current view
fn gen_plan(w: &World, r: &mut Prng, prop: &str) -> Plan {
    let ni = w.inos.len();
    let pick_ino = |r: &mut Prng| -> usize {
        if r.chance(1, 25) { ni + r.below(2) as usize } else { r.below(ni as u64) as usize }
    };
    let dirs: Vec<usize> = (0..ni).filter(|k| w.kind_of(w.inos[*k]).map(|x| x.0).unwrap_or(false)).collect();
    let pick_dir = |r: &mut Prng| -> usize {
        if r.chance(9, 10) {
            if r.chance(1, 2) { 0 } else { *r.pick(&dirs) }
        } else {
            pick_ino(r)
        }
    };
    let name = |r: &mut Prng| -> String {
        match r.below(40) {
            0 => ".".into(),
            1 => "..".into(),
            _ => r.pick(&NAMES).to_string(),
        }
    };
    let plain = |r: &mut Prng| -> String { r.pick(&NAMES).to_string() };
    let nh = w.hnds.len();
    let pick_h = |r: &mut Prng| -> usize { if nh == 0 || r.chance(1, 20) { nh + r.below(2) as usize } else { r.below(nh as u64) as usize } };
    let c15 = prop == "C15";
    let roll = r.below(100);
    let t = |a: u64, b: u64| if c15 { b } else { a };
    let mut acc = 0u64;
    let mut hit = |wgt: u64| -> bool {
        acc += wgt;
        roll < acc
    };
    if hit(t(22, 10)) {
        Plan::Lookup { p: pick_dir(r), name: name(r) }
    } else if hit(t(12, 6)) {
        let i = pick_ino(r);
        let held = w.held.get(&w.ino(i)).copied().unwrap_or(0);
        let n = match r.below(6) {
            0 => held + 1 + r.below(3),
            1 => u64::MAX,
            2 => 0,
            3 if held > 0 => held,
            _ => 1,
        };
        Plan::Forget { i, n }
    } else if hit(t(5, 3)) {
        let k = r.below(4) as usize;
        Plan::Batch((0..k).map(|_| (pick_ino(r), 1 + r.below(3))).collect())
    } else if hit(t(7, 5)) {
        Plan::Mkdir { p: pick_dir(r), name: plain(r) }
    } else if hit(t(5, 3)) {
        Plan::Mknod { p: pick_dir(r), name: plain(r) }
    } else if hit(t(4, 2)) {
        Plan::Symlink { p: pick_dir(r), name: plain(r) }
    } else if hit(t(6, 3)) {
        Plan::Link { i: pick_ino(r), p: pick_dir(r), name: plain(r) }
    } else if hit(t(8, 12)) {
        Plan::Create { p: pick_dir(r), name: plain(r), excl: r.chance(1, 3) }
    } else if hit(t(5, 5)) {
        Plan::Rename { p1: pick_dir(r), n1: plain(r), p2: pick_dir(r), n2: plain(r) }
    } else if hit(t(5, 4)) {
        Plan::Unlink { p: pick_dir(r), name: plain(r) }
    } else if hit(t(3, 10)) {
        Plan::Open { i: pick_ino(r), rw: r.chance(1, 2) }
    } else if hit(t(3, 8)) {
        Plan::Opendir { i: if r.chance(3, 4) { pick_dir(r) } else { pick_ino(r) } }
    } else if hit(t(2, 8)) {
        let h = pick_h(r);
        let i = match w.hheld.get(&w.hnd(h)) {
            Some(ino) if r.chance(5, 6) => w.inos.iter().position(|x| x == ino).unwrap_or(0),
            _ => pick_ino(r),
        };
        if r.chance(1, 2) { Plan::Release { i, h } } else { Plan::Releasedir { i, h } }
    } else if hit(t(8, 10)) {
        let h = pick_h(r);
        let i = match w.hheld.get(&w.hnd(h)) {
            Some(ino) if r.chance(7, 8) => w.inos.iter().position(|x| x == ino).unwrap_or(0),
            _ => pick_dir(r),
        };
        Plan::Rdp { i, h, fit: r.below(5) as usize, err: r.chance(1, 4) }
    } else if hit(t(2, 6)) {
        let h = pick_h(r);
        let i = match w.hheld.get(&w.hnd(h)) {
            Some(ino) if r.chance(2, 3) => w.inos.iter().position(|x| x == ino).unwrap_or(0),
            _ => pick_ino(r),
        };
        Plan::Getattr { i, h: if r.chance(4, 5) { Some(h) } else { None } }
    } else if hit(t(2, 3)) {
        Plan::Destroy
    } else {
        Plan::Init
    }
}

/// Model-free probe: OPEN / OPENDIR / CREATE served on several threads at once must hand out
/// pairwise distinct handle numbers, and every handle must be releasable exactly once (a number
/// handed out twice closes the first descriptor behind the client).  Probabilistic.
fn concurrent_open_probe(out: &mut Out, root: PathBuf, prop: &str, threads: usize, rounds: usize) {
    use std::sync::{Arc, Barrier, Mutex};
    std::fs::create_dir_all(&root).unwrap();
    std::fs::write(root.join("f"), b"x").unwrap();
    let fcfg = Config { root_dir: root.to_str().unwrap().to_string(), cache_policy: CachePolicy::Always, ..Default::default() };
    let fs = Arc::new(PassthroughFs::<()>::new(fcfg).unwrap());
    fs.init(FsOptions::empty()).unwrap();
    let ctx = Context::default();
    let ino = fs.lookup(&ctx, 1, &cstr("f")).unwrap().inode;
    let bad: Arc<Mutex<Vec<String>>> = Arc::new(Mutex::new(vec![]));
    for _ in 0..rounds {
        let bar = Arc::new(Barrier::new(threads));
        let got: Arc<Mutex<Vec<(u64, bool)>>> = Arc::new(Mutex::new(vec![]));
        let mut js = vec![];
        for t in 0..threads {
            let (fs, bar, got) = (fs.clone(), bar.clone(), got.clone());
            js.push(std::thread::spawn(move || {
                let ctx = Context::default();
                bar.wait();
                for k in 0..8 {
                    let dir = (t + k) % 3 == 0;
                    let r = if dir { fs.opendir(&ctx, 1, libc::O_RDONLY as u32).map(|x| x.0) } else { fs.open(&ctx, ino, libc::O_RDONLY as u32, 0).map(|x| x.0) };
                    if let Ok(Some(h)) = r {
                        got.lock().unwrap().push((h, dir));
                    }
                }
            }));
        }
        for j in js {
            let _ = j.join();
        }
        let hs = got.lock().unwrap().clone();
        let mut seen = BTreeSet::new();
        for (h, _) in &hs {
            if !seen.insert(*h) {
                bad.lock().unwrap().push(format!("handle {} handed out twice while both are open", h));
            }
        }
        for (h, dir) in hs {
            let r = if dir { fs.releasedir(&ctx, 1, 0, h) } else { fs.release(&ctx, ino, 0, h, false, false, None) };
            if let Err(e) = r {
                if seen.remove(&h) {
                    bad.lock().unwrap().push(format!("release of handle {} answers {}", h, errno_of(&e)));
                }
            }
        }
        if bad.lock().unwrap().len() > 3 {
            break;
        }
    }
    out.stat("probe:concurrent-open");
    let b = bad.lock().unwrap();
    if !b.is_empty() {
        let line = format!("probe=concurrent-open threads={} rounds={}", threads, rounds);
        for p in ["C15", "C08"] {
            if p == prop || prop == "all" {
                oracle(out, p, &format!("{}:concurrent-open:handle-not-unique", p), &line, &b.join(" | "));
            }
        }
    }
    let _ = std::fs::remove_dir_all(&root);
}

fn main() {
    let a = args();
    let mut out = Out::new(a.get("out").map(|s| s.as_str()).unwrap_or("/verif/.work/ptrefs"));
    let tmp = PathBuf::from(format!("/verif/.work/ptrefs-tmp/{}", std::process::id()));
    let _ = std::fs::remove_dir_all(&tmp);
    std::fs::create_dir_all(&tmp).unwrap();
    let prop = a.get("prop").cloned().unwrap_or_else(|| "C08".into());
    let mut run_no = 0usize;
    let mut emit = |out: &mut Out, id: &str, body: String, obs: String, finds: Vec<Finding>, prop: &str| {
        let line = format!("case={} {}", id, body);
        for f in finds {
            if f.prop == prop || prop == "all" {
                oracle(out, f.prop, &f.key, &line, &f.what);
            } else if prop == "C09" && f.prop == "C08" && !f.key.contains("host-ino-reused") {
                // run as C09's sequential stage: a lost or surplus reference in a one-thread history
                oracle(out, "C09", &f.key.replacen("C08:", "C09:seq:", 1), &line, &f.what);
            }
        }
        out.case(&line, &obs);
    };
    if let Some(f) = a.get("cases") {
        for line in std::fs::read_to_string(f).unwrap().lines() {
            fbrh::util::crumb(line);
            if line.trim().is_empty() {
                continue;
            }
            let mut cfg = Cfg { fh: false, hi: false, no: false, nod: false, uv: false, xo: false };
            let mut id = "0".to_string();
            let mut toks: Vec<(Plan, Option<u32>)> = vec![];
            for t in line.split(' ') {
                if let Some(v) = t.strip_prefix("cfg=") {
                    cfg = Cfg::parse(v);
                } else if let Some(v) = t.strip_prefix("case=") {
                    id = v.to_string();
                } else if let Some(v) = t.strip_prefix("ops=") {
                    toks = v.split(';').filter(|s| !s.is_empty()).filter_map(parse_plan).collect();
                }
            }
            run_no += 1;
            // the recorded line already carries the client's cleanup tail: replay it verbatim
            let mut it = toks.into_iter();
            let mut plans = |_w: &World, _n: usize| it.next();
            let (body, obs, finds) = run_history(cfg, tmp.join(format!("r{}", run_no)), false, &mut plans, &mut out);
            emit(&mut out, &id, body, obs, finds, &prop);
        }
        out.finish();
        let _ = std::fs::remove_dir_all(&tmp);
        return;
    }
    let seed: u64 = a.get("seed").and_then(|s| s.parse().ok()).unwrap_or(1);
    let n: usize = a.get("n").and_then(|s| s.parse().ok()).unwrap_or(100);
    let len: usize = a.get("len").and_then(|s| s.parse().ok()).unwrap_or(30);
    let faults: usize = a.get("faults").and_then(|s| s.parse().ok()).unwrap_or(0);
    let flen: usize = a.get("flen").and_then(|s| s.parse().ok()).unwrap_or(10);
    let mut r = Prng::new(seed ^ 0x7074_7265);
    let mut case_no = 0usize;
    for h in 0..n {
        let cfg = if prop == "C15" {
            Cfg { fh: h & 1 != 0, hi: (h >> 3) & 1 != 0, no: (h >> 1) & 1 != 0, nod: (h >> 2) & 1 != 0,
                  uv: h >= faults && (h >> 4) % 3 == 1, xo: h >= faults && (h >> 4) % 3 == 2 }
        } else {
            Cfg { fh: h & 1 != 0, hi: (h >> 1) & 1 != 0, no: false, nod: (h >> 2) % 4 == 3, uv: false, xo: false }
        };
        out.stat(&format!("cfg:{}", cfg.show()));
        let with_faults = h < faults;
        let l = if with_faults { flen } else { len };
        // base run: requests are generated from the client's view as the history unfolds
        let mut recorded: Vec<Plan> = vec![];
        {
            let mut plans = |w: &World, k: usize| -> Option<(Plan, Option<u32>)> {
                if k >= l + 1 {
                    return None;
                }
                let p = if k == 0 { Plan::Init } else { gen_plan(w, &mut r, &prop) };
                recorded.push(p.clone());
                Some((p, None))
            };
            run_no += 1;
            case_no += 1;
            let (body, obs, finds) = run_history(cfg, tmp.join(format!("r{}", run_no)), true, &mut plans, &mut out);
            emit(&mut out, &case_no.to_string(), body, obs, finds, &prop);
        }
        if with_faults {
            // fault enumeration: the same requests with the descriptor limit leaving k free
            // descriptor numbers around request j, for every j and every k that can matter
            for j in 1..recorded.len() {
                if matches!(recorded[j], Plan::Forget { .. } | Plan::Batch(_) | Plan::Release { .. } | Plan::Releasedir { .. }) {
                    continue;
                }
                for k in 0..4u32 {
                    let rec = recorded.clone();
                    let mut plans = |_w: &World, n: usize| -> Option<(Plan, Option<u32>)> { rec.get(n).map(|p| (p.clone(), if n == j { Some(k) } else { None })) };
                    run_no += 1;
                    case_no += 1;
                    let before = out.stats.get(&format!("fault:{}:hit", recorded[j].kind())).copied().unwrap_or(0);
                    let (body, obs, finds) = run_history(cfg, tmp.join(format!("r{}", run_no)), true, &mut plans, &mut out);
                    emit(&mut out, &case_no.to_string(), body, obs, finds, &prop);
                    let after = out.stats.get(&format!("fault:{}:hit", recorded[j].kind())).copied().unwrap_or(0);
                    if after == before {
                        break; // this headroom no longer makes an allocation fail
                    }
                }
            }
        }
    }
    if prop == "C15" || prop == "all" {
        concurrent_open_probe(&mut out, tmp.join("conc-open"), &prop, 8, 400);
    }
    out.finish();
    let _ = std::fs::remove_dir_all(&tmp);
}
