//! `ovl` engine (C10, C11): the real `OverlayFs` over `PassthroughFs` layers on real directories
//! under /verif/.work/ovl-tmp/<pid>, driven by path-addressed operation histories the way the
//! kernel VFS would drive it (component-wise LOOKUP, type pre-checks for UNLINK/RMDIR/OPEN...).
//!
//! Case line:  `up=<0|1> nl=<n> L0=<upper spec> L1=<lower spec> ... ops=<op;op;...>`
//! (layer syntax: `fbrh::ovlhost`).  Output line: one record per op, `;`-separated,
//!   `<result>|<mutating layer calls, sorted set of idx:method>|<tree walked through a FRESH
//!    OverlayFs over the same directories>|<scan of the upper directory on the host>`
//! The Lean driver prints the same from the model (`Fbr.Ovl`): result, logged mutating calls,
//! `merge disk`, the model's upper layer.
//!
//! Direct oracles (implementation alone):
//!   C10:lower-modified:<op>            fingerprint (names, modes, owners, content, every xattr,
//!                                      mtime/ctime) of a lower directory changed
//!   C10:no-upper:<op>:succeeded        modifying op succeeded without an upper layer
//!   C10:no-upper:<op>:mutating-call    a mutating layer method was called without an upper layer
//!   C10:mutated-lower-layer:<method>   a mutating method reached a layer that is not the upper
//!   C10:view-not-union:<live|fresh>:<op>:<kind>   walked tree differs from the overlayfs union of
//!                                      the directories on the host (independent Rust union);
//!                                      kind = extra|missing|type|mode|content|target|xattr
//!   C10:not-plain-fs:<op>:<kind>       result / tree differs from the same history applied with
//!                                      plain syscalls to an ordinary directory holding the union
//!   C10:readdir:<dup|dot>              a name listed twice / "." ".." not listed exactly once
//!   C10:copy-up:xattr-lost:<file|dir>  KNOWN: copy-up drops user.* xattrs (the plain reference is
//!                                      re-aligned so that nothing else is masked)
//!   C10:panic                          the overlay panicked
//!   C11:restart-diff:<op>:<kind>       fresh instance walks to a different tree than the live one
//!   C11:deleted-resurfaced:<op>        a path just unlinked / rmdir'ed is visible after a restart
//!   C11:recreated-dir-not-empty        a directory just made shows entries after a restart
//!   C11:rmdir-empty-dir-refused        RMDIR of a directory that is empty in the view: ENOTEMPTY
//!   C11:copy-up:<attr>                 an attribute the op does not touch differs between the
//!                                      lower original and its new upper copy (type:<a>-became-<b>,
//!                                      mode, content, target, parent-mode)
use std::collections::{BTreeMap, BTreeSet};
use std::ffi::{CStr, CString};
use std::io::{self, Read, Seek, SeekFrom, Write};
use std::sync::atomic::{AtomicI64, Ordering};
use std::cell::Cell;
use std::sync::mpsc::{sync_channel, Receiver, SyncSender};
use std::sync::{Arc, Mutex};
use std::time::Duration;

use fbrh::ovlhost::{self as host, Node};
use fbrh::prng::Prng;
use fbrh::scriptfs::{kn, ks, parse_kv};
use fbrh::util::{args, Out};
use fuse_backend_rs::abi::fuse_abi::{stat64, statvfs64, CreateIn, OpenOptions, SetattrValid};
use fuse_backend_rs::api::filesystem::{
    Context, DirEntry, Entry, FileSystem, GetxattrReply, Layer, ListxattrReply, ZeroCopyReader, ZeroCopyWriter,
};
use fuse_backend_rs::overlayfs::config::Config as OvlConfig;
use fuse_backend_rs::overlayfs::OverlayFs;
use fuse_backend_rs::passthrough::{Config as PtConfig, PassthroughFs};

type CallLog = Arc<Mutex<Vec<(usize, &'static str)>>>;

/// A layer that logs every *mutating* method with its layer index and forwards to PassthroughFs.
struct LogLayer {
    inner: PassthroughFs<()>,
    idx: usize,
    log: CallLog,
    /// fault injection: when > 0, counts layer lookups down; the lookup that reaches 0 fails once
    /// with EMFILE (a transient resource fault of the host)
    fault: Arc<AtomicI64>,
    /// armed: the next mutating call on the upper layer (index 0) fails with EIO
    fail_mut: Arc<std::sync::atomic::AtomicBool>,
    /// schedule control: a thread marked SLOW is parked at its first `forget` (which the overlay
    /// calls between scanning a directory and recording the scan) until the gate is opened
    gate: Gate,
}

type Gate = Arc<Mutex<Option<(SyncSender<()>, Receiver<()>)>>>;

thread_local! {
    static SLOW: Cell<bool> = const { Cell::new(false) };
    /// the upper-layer method the `fail` step refused (the request runs on the calling thread)
    static REFUSED: Cell<&'static str> = const { Cell::new("") };
}

impl LogLayer {
    fn rec(&self, m: &'static str) {
        self.log.lock().unwrap().push((self.idx, m));
    }
    /// a mutating call: logged; refused with EIO when the `fail` step armed the upper layer
    fn mutating(&self, m: &'static str) -> io::Result<()> {
        self.rec(m);
        if self.idx == 0 && self.fail_mut.swap(false, Ordering::SeqCst) {
            REFUSED.with(|r| r.set(m));
            return Err(io::Error::from_raw_os_error(libc::EIO));
        }
        Ok(())
    }
}

impl FileSystem for LogLayer {
    type Inode = u64;
    type Handle = u64;
    fn lookup(&self, ctx: &Context, parent: u64, name: &CStr) -> io::Result<Entry> {
        if self.fault.load(Ordering::SeqCst) > 0 && self.fault.fetch_sub(1, Ordering::SeqCst) == 1 {
            return Err(io::Error::from_raw_os_error(libc::EMFILE));
        }
        self.inner.lookup(ctx, parent, name)
    }
    fn forget(&self, ctx: &Context, inode: u64, count: u64) {
        if SLOW.with(|s| s.get()) {
            let hook = self.gate.lock().unwrap().take();
            if let Some((entered, go)) = hook {
                let _ = entered.send(());
                let _ = go.recv_timeout(Duration::from_secs(20));
            }
        }
        self.inner.forget(ctx, inode, count)
    }
    fn getattr(&self, ctx: &Context, inode: u64, handle: Option<u64>) -> io::Result<(stat64, Duration)> {
        self.inner.getattr(ctx, inode, handle)
    }
    fn setattr(&self, ctx: &Context, inode: u64, attr: stat64, handle: Option<u64>, valid: SetattrValid) -> io::Result<(stat64, Duration)> {
        self.mutating("setattr")?;
        self.inner.setattr(ctx, inode, attr, handle, valid)
    }
    fn readlink(&self, ctx: &Context, inode: u64) -> io::Result<Vec<u8>> {
        self.inner.readlink(ctx, inode)
    }
    fn symlink(&self, ctx: &Context, linkname: &CStr, parent: u64, name: &CStr) -> io::Result<Entry> {
        self.mutating("symlink")?;
        self.inner.symlink(ctx, linkname, parent, name)
    }
    fn mknod(&self, ctx: &Context, inode: u64, name: &CStr, mode: u32, rdev: u32, umask: u32) -> io::Result<Entry> {
        self.mutating("mknod")?;
        self.inner.mknod(ctx, inode, name, mode, rdev, umask)
    }
    fn mkdir(&self, ctx: &Context, parent: u64, name: &CStr, mode: u32, umask: u32) -> io::Result<Entry> {
        self.mutating("mkdir")?;
        self.inner.mkdir(ctx, parent, name, mode, umask)
    }
    fn unlink(&self, ctx: &Context, parent: u64, name: &CStr) -> io::Result<()> {
        self.mutating("unlink")?;
        self.inner.unlink(ctx, parent, name)
    }
    fn rmdir(&self, ctx: &Context, parent: u64, name: &CStr) -> io::Result<()> {
        self.mutating("rmdir")?;
        self.inner.rmdir(ctx, parent, name)
    }
    fn rename(&self, ctx: &Context, olddir: u64, oldname: &CStr, newdir: u64, newname: &CStr, flags: u32) -> io::Result<()> {
        self.mutating("rename")?;
        self.inner.rename(ctx, olddir, oldname, newdir, newname, flags)
    }
    fn link(&self, ctx: &Context, inode: u64, newparent: u64, newname: &CStr) -> io::Result<Entry> {
        self.mutating("link")?;
        self.inner.link(ctx, inode, newparent, newname)
    }
    fn open(&self, ctx: &Context, inode: u64, flags: u32, fuse_flags: u32) -> io::Result<(Option<u64>, OpenOptions, Option<u32>)> {
        if flags & (libc::O_WRONLY | libc::O_RDWR | libc::O_TRUNC | libc::O_APPEND | libc::O_CREAT) as u32 != 0 {
            self.mutating("open-w")?;
        }
        self.inner.open(ctx, inode, flags, fuse_flags)
    }
    fn create(&self, ctx: &Context, parent: u64, name: &CStr, args: CreateIn) -> io::Result<(Entry, Option<u64>, OpenOptions, Option<u32>)> {
        self.mutating("create")?;
        self.inner.create(ctx, parent, name, args)
    }
    fn read(&self, ctx: &Context, inode: u64, handle: u64, w: &mut dyn ZeroCopyWriter, size: u32, offset: u64, lock_owner: Option<u64>, flags: u32) -> io::Result<usize> {
        self.inner.read(ctx, inode, handle, w, size, offset, lock_owner, flags)
    }
    fn write(&self, ctx: &Context, inode: u64, handle: u64, r: &mut dyn ZeroCopyReader, size: u32, offset: u64, lock_owner: Option<u64>, delayed_write: bool, flags: u32, fuse_flags: u32) -> io::Result<usize> {
        self.mutating("write")?;
        self.inner.write(ctx, inode, handle, r, size, offset, lock_owner, delayed_write, flags, fuse_flags)
    }
    fn flush(&self, ctx: &Context, inode: u64, handle: u64, lock_owner: u64) -> io::Result<()> {
        self.inner.flush(ctx, inode, handle, lock_owner)
    }
    fn fsync(&self, ctx: &Context, inode: u64, datasync: bool, handle: u64) -> io::Result<()> {
        self.inner.fsync(ctx, inode, datasync, handle)
    }
    fn fallocate(&self, ctx: &Context, inode: u64, handle: u64, mode: u32, offset: u64, length: u64) -> io::Result<()> {
        self.mutating("fallocate")?;
        self.inner.fallocate(ctx, inode, handle, mode, offset, length)
    }
    fn release(&self, ctx: &Context, inode: u64, flags: u32, handle: u64, flush: bool, flock_release: bool, lock_owner: Option<u64>) -> io::Result<()> {
        self.inner.release(ctx, inode, flags, handle, flush, flock_release, lock_owner)
    }
    fn statfs(&self, ctx: &Context, inode: u64) -> io::Result<statvfs64> {
        self.inner.statfs(ctx, inode)
    }
    fn setxattr(&self, ctx: &Context, inode: u64, name: &CStr, value: &[u8], flags: u32) -> io::Result<()> {
        self.mutating("setxattr")?;
        self.inner.setxattr(ctx, inode, name, value, flags)
    }
    fn getxattr(&self, ctx: &Context, inode: u64, name: &CStr, size: u32) -> io::Result<GetxattrReply> {
        self.inner.getxattr(ctx, inode, name, size)
    }
    fn listxattr(&self, ctx: &Context, inode: u64, size: u32) -> io::Result<ListxattrReply> {
        self.inner.listxattr(ctx, inode, size)
    }
    fn removexattr(&self, ctx: &Context, inode: u64, name: &CStr) -> io::Result<()> {
        self.mutating("removexattr")?;
        self.inner.removexattr(ctx, inode, name)
    }
    fn opendir(&self, ctx: &Context, inode: u64, flags: u32) -> io::Result<(Option<u64>, OpenOptions)> {
        self.inner.opendir(ctx, inode, flags)
    }
    fn readdir(&self, ctx: &Context, inode: u64, handle: u64, size: u32, offset: u64, add_entry: &mut dyn FnMut(DirEntry) -> io::Result<usize>) -> io::Result<()> {
        self.inner.readdir(ctx, inode, handle, size, offset, add_entry)
    }
    fn releasedir(&self, ctx: &Context, inode: u64, flags: u32, handle: u64) -> io::Result<()> {
        self.inner.releasedir(ctx, inode, flags, handle)
    }
    fn access(&self, ctx: &Context, inode: u64, mask: u32) -> io::Result<()> {
        self.inner.access(ctx, inode, mask)
    }
    fn lseek(&self, ctx: &Context, inode: u64, handle: u64, offset: u64, whence: u32) -> io::Result<u64> {
        self.inner.lseek(ctx, inode, handle, offset, whence)
    }
}

impl Layer for LogLayer {
    fn root_inode(&self) -> u64 {
        self.inner.root_inode()
    }
    // the three helpers are logged under their own names; their default bodies run on the inner
    // layer (so the mknod/unlink/setxattr they issue are not logged a second time)
    fn create_whiteout(&self, ctx: &Context, parent: u64, name: &CStr) -> io::Result<Entry> {
        self.mutating("create_whiteout")?;
        self.inner.create_whiteout(ctx, parent, name)
    }
    fn delete_whiteout(&self, ctx: &Context, parent: u64, name: &CStr) -> io::Result<()> {
        self.mutating("delete_whiteout")?;
        self.inner.delete_whiteout(ctx, parent, name)
    }
    fn set_opaque(&self, ctx: &Context, inode: u64) -> io::Result<()> {
        self.mutating("set_opaque")?;
        self.inner.set_opaque(ctx, inode)
    }
    fn is_whiteout(&self, ctx: &Context, inode: u64) -> io::Result<bool> {
        self.inner.is_whiteout(ctx, inode)
    }
    fn is_opaque(&self, ctx: &Context, inode: u64) -> io::Result<bool> {
        self.inner.is_opaque(ctx, inode)
    }
}

type BoxedLayer = Box<dyn Layer<Inode = u64, Handle = u64> + Send + Sync>;

fn new_layer(dir: &str, idx: usize, log: &CallLog, fault: &Arc<AtomicI64>, gate: &Gate, fail_mut: &Arc<std::sync::atomic::AtomicBool>) -> io::Result<Arc<BoxedLayer>> {
    // exactly the documented construction (tests/overlay): new + import, xattr on, never `init`
    let cfg = PtConfig { root_dir: dir.to_string(), xattr: true, do_import: true, ..Default::default() };
    let fs = PassthroughFs::<()>::new(cfg)?;
    fs.import()?;
    Ok(Arc::new(Box::new(LogLayer { inner: fs, idx, log: log.clone(), fault: fault.clone(), gate: gate.clone(), fail_mut: fail_mut.clone() }) as BoxedLayer))
}

struct Inst {
    fs: OverlayFs,
    log: CallLog,
    fault: Arc<AtomicI64>,
    /// armed: the next mutating call on the upper layer (index 0) fails with EIO
    fail_mut: Arc<std::sync::atomic::AtomicBool>,
    gate: Gate,
    /// inode numbers this client has LOOKed UP (and never forgets): their count stays positive
    /// when a READDIRPLUS reference is given back
    held: Mutex<std::collections::HashSet<u64>>,
}

fn layer_dir(base: &str, i: usize) -> String {
    format!("{}/L{}", base, i)
}

fn build(base: &str, up: bool, nl: usize) -> io::Result<Inst> {
    let log: CallLog = Arc::new(Mutex::new(Vec::new()));
    let fault = Arc::new(AtomicI64::new(0));
    let gate: Gate = Arc::new(Mutex::new(None));
    let fail_mut = Arc::new(std::sync::atomic::AtomicBool::new(false));
    let upper = if up { Some(new_layer(&layer_dir(base, 0), 0, &log, &fault, &gate, &fail_mut)?) } else { None };
    let mut lowers = Vec::new();
    for i in 1..=nl {
        lowers.push(new_layer(&layer_dir(base, i), i, &log, &fault, &gate, &fail_mut)?);
    }
    let cfg = OvlConfig { do_import: true, ..Default::default() };
    let fs = OverlayFs::new(upper, lowers, cfg)?;
    fs.import()?;
    Ok(Inst { fs, log, fault, gate, fail_mut, held: Mutex::new(Default::default()) })
}

fn errno(e: &io::Error) -> String {
    match e.raw_os_error() {
        Some(n) => format!("e{}", n),
        None => "eX".to_string(),
    }
}

fn cname(c: char) -> CString {
    CString::new(c.to_string()).unwrap()
}

const S_IFMT: u32 = libc::S_IFMT;

fn kind_of(st: &stat64) -> char {
    match st.st_mode & S_IFMT {
        libc::S_IFDIR => 'd',
        libc::S_IFREG => 'f',
        libc::S_IFLNK => 'l',
        _ => 'o',
    }
}

struct Io {
    path: String,
}

impl Io {
    fn file(&self) -> std::fs::File {
        std::fs::OpenOptions::new().read(true).write(true).create(true).truncate(true).open(&self.path).unwrap()
    }
}

/// component-wise LOOKUP from the root, as the kernel walks a path
fn resolve(inst: &Inst, path: &str) -> Result<(u64, stat64), String> {
    let ctx = Context::default();
    let fs = &inst.fs;
    let (mut st, _) = fs.getattr(&ctx, 1, None).map_err(|e| errno(&e))?;
    let mut ino = 1u64;
    for c in path.chars() {
        if kind_of(&st) != 'd' {
            return Err("e20".into()); // VFS: ENOTDIR without asking the file system
        }
        let e = fs.lookup(&ctx, ino, &cname(c)).map_err(|e| errno(&e))?;
        if e.inode == 0 {
            return Err("e2".into());
        }
        inst.held.lock().unwrap().insert(e.inode);
        ino = e.inode;
        st = e.attr;
    }
    Ok((ino, st))
}

fn split_parent(path: &str) -> Option<(&str, char)> {
    let c = path.chars().last()?;
    Some((&path[..path.len() - 1], c))
}

fn read_all(inst: &Inst, io: &Io, ino: u64) -> Result<Vec<u8>, String> {
    let ctx = Context::default();
    let (h, _, _) = inst.fs.open(&ctx, ino, libc::O_RDONLY as u32, 0).map_err(|e| errno(&e))?;
    let h = h.unwrap_or(0);
    let mut f = io.file();
    let mut total = Vec::new();
    let mut off = 0u64;
    loop {
        f.set_len(0).unwrap();
        f.seek(SeekFrom::Start(0)).unwrap();
        let n = match inst.fs.read(&ctx, ino, h, &mut f, 1 << 16, off, None, libc::O_RDONLY as u32) {
            Ok(n) => n,
            Err(e) => {
                let _ = inst.fs.release(&ctx, ino, libc::O_RDONLY as u32, h, false, false, None);
                return Err(errno(&e));
            }
        };
        if n == 0 {
            break;
        }
        f.seek(SeekFrom::Start(0)).unwrap();
        let mut buf = vec![0u8; n];
        f.read_exact(&mut buf).unwrap();
        total.extend_from_slice(&buf);
        off += n as u64;
        if total.len() > 1 << 20 {
            break;
        }
    }
    inst.fs.release(&ctx, ino, libc::O_RDONLY as u32, h, false, false, None).map_err(|e| errno(&e))?;
    Ok(total)
}

fn list_dir(inst: &Inst, ino: u64, orc: &mut Vec<(String, String)>) -> Result<Vec<char>, String> {
    let ctx = Context::default();
    let (h, _) = inst.fs.opendir(&ctx, ino, libc::O_RDONLY as u32).map_err(|e| errno(&e))?;
    let h = h.unwrap_or(0);
    let mut names: Vec<String> = Vec::new();
    let mut off = 0u64;
    loop {
        let mut got = 0;
        let r = inst.fs.readdir(&ctx, ino, h, 4096, off, &mut |d: DirEntry| {
            got += 1;
            off = d.offset;
            names.push(String::from_utf8_lossy(d.name).into_owned());
            Ok(24 + d.name.len())
        });
        if let Err(e) = r {
            let _ = inst.fs.releasedir(&ctx, ino, 0, h);
            return Err(errno(&e));
        }
        if got == 0 {
            break;
        }
    }
    inst.fs.releasedir(&ctx, ino, 0, h).map_err(|e| errno(&e))?;
    let dots = names.iter().filter(|n| n.as_str() == "." || n.as_str() == "..").count();
    if dots != 2 {
        orc.push(("C10:readdir:dot".into(), format!("'.'/'..' listed {} times", dots)));
    }
    let mut out: Vec<char> = Vec::new();
    for n in names.iter().filter(|n| n.as_str() != "." && n.as_str() != "..") {
        let c = n.chars().next().unwrap_or('?');
        if out.contains(&c) {
            orc.push(("C10:readdir:dup".into(), format!("name {} listed twice", n)));
        } else {
            out.push(c);
        }
    }
    out.sort();
    Ok(out)
}

/// the attributes READDIRPLUS reports for `name` in directory `ino` (None = not listed)
fn entry_via_readdirplus(inst: &Inst, ino: u64, name: char) -> Result<Option<stat64>, String> {
    let ctx = Context::default();
    let (h, _) = inst.fs.opendir(&ctx, ino, libc::O_RDONLY as u32).map_err(|e| errno(&e))?;
    let h = h.unwrap_or(0);
    let mut found: Option<stat64> = None;
    let mut off = 0u64;
    // every delivered entry carries one lookup reference, which the client gives back with FORGET
    // (as the kernel does when it drops the dentry); the reply buffer holds exactly two entries,
    // so most replies end because the buffer is full
    let mut delivered: Vec<u64> = Vec::new();
    loop {
        let mut got = 0;
        let r = inst.fs.readdirplus(&ctx, ino, h, 306, off, &mut |d: DirEntry, e: Entry| {
            got += 1;
            off = d.offset;
            if d.name == name.to_string().as_bytes() {
                found = Some(e.attr);
            }
            if e.inode != 0 && d.name != b"." && d.name != b".." {
                delivered.push(e.inode);
            }
            Ok(152 + d.name.len())
        });
        if let Err(e) = r {
            let _ = inst.fs.releasedir(&ctx, ino, 0, h);
            return Err(errno(&e));
        }
        if got == 0 {
            break;
        }
    }
    inst.fs.releasedir(&ctx, ino, 0, h).map_err(|e| errno(&e))?;
    // (only for entries this client also holds a LOOKUP reference on, so that the node stays
    // cached and the rest of the history runs on the same inode numbers; dropping the LAST
    // reference is exercised by the `flast` step)
    let held = inst.held.lock().unwrap().clone();
    for i in delivered {
        if held.contains(&i) {
            inst.fs.forget(&ctx, i, 1);
        }
    }
    Ok(found)
}

fn getx(inst: &Inst, ino: u64) -> Result<u32, String> {
    let ctx = Context::default();
    match inst.fs.getxattr(&ctx, ino, &CString::new(host::XNAME).unwrap(), 64) {
        Ok(GetxattrReply::Value(v)) => Ok(String::from_utf8_lossy(&v).strip_prefix('v').and_then(|s| s.parse().ok()).unwrap_or(9999)),
        Ok(GetxattrReply::Count(_)) => Ok(9998),
        Err(e) if e.raw_os_error() == Some(libc::ENODATA) => Ok(0),
        Err(e) => Err(errno(&e)),
    }
}

/// the node at `ino` as a client sees it
fn view_node(inst: &Inst, io: &Io, ino: u64, st: &stat64) -> String {
    let mode = st.st_mode & 0o7777;
    match kind_of(st) {
        'd' => match getx(inst, ino) {
            Ok(x) => format!("d.{:o}.{}", mode, x),
            Err(e) => format!("d.{:o}.{}", mode, e),
        },
        'f' => {
            let c = match read_all(inst, io, ino) {
                Ok(b) => match host::bytes_chunks(&b) {
                    Some(c) => {
                        if b.len() as i64 != st.st_size {
                            format!("size{}!={}", st.st_size, b.len())
                        } else {
                            host::chunks_str(&c)
                        }
                    }
                    None => format!("raw{}", b.len()),
                },
                Err(e) => e,
            };
            let x = match getx(inst, ino) {
                Ok(x) => x.to_string(),
                Err(e) => e,
            };
            format!("f.{:o}.{}.{}", mode, c, x)
        }
        'l' => match inst.fs.readlink(&Context::default(), ino) {
            Ok(t) => match String::from_utf8_lossy(&t).strip_prefix('t').and_then(|s| s.parse::<u32>().ok()) {
                Some(id) => format!("l.{}", id),
                None => format!("l.?{}", String::from_utf8_lossy(&t)),
            },
            Err(e) => format!("l.{}", errno(&e)),
        },
        _ => format!("o.{:o}", mode),
    }
}

/// walk the whole tree through the overlay (opendir/readdir/lookup/getattr/readlink/open/read/getxattr)
fn walk(inst: &Inst, io: &Io, orc: &mut Vec<(String, String)>) -> BTreeMap<String, String> {
    let mut out = BTreeMap::new();
    let ctx = Context::default();
    fn rec(inst: &Inst, io: &Io, ino: u64, st: &stat64, path: &str, out: &mut BTreeMap<String, String>, orc: &mut Vec<(String, String)>, depth: usize) {
        let ctx = Context::default();
        // GETATTR must agree with the attributes LOOKUP returned
        match inst.fs.getattr(&ctx, ino, None) {
            Ok((g, _)) => {
                if g.st_mode != st.st_mode || g.st_size != st.st_size {
                    out.insert(format!("{}!attr", path), format!("lookup{:o}/getattr{:o}", st.st_mode, g.st_mode));
                }
            }
            Err(e) => {
                out.insert(format!("{}!getattr", path), errno(&e));
            }
        }
        out.insert(path.to_string(), view_node(inst, io, ino, st));
        if kind_of(st) == 'd' && depth < 10 {
            match list_dir(inst, ino, orc) {
                Ok(names) => {
                    for c in names {
                        let p = format!("{}{}", path, c);
                        match inst.fs.lookup(&ctx, ino, &cname(c)) {
                            Ok(e) if e.inode != 0 => {
                                inst.held.lock().unwrap().insert(e.inode);
                                rec(inst, io, e.inode, &e.attr, &p, out, orc, depth + 1)
                            }
                            Ok(_) => {
                                out.insert(p, "listed-but-negative".into());
                            }
                            Err(e) => {
                                out.insert(p, format!("listed-but-{}", errno(&e)));
                            }
                        }
                    }
                }
                Err(e) => {
                    out.insert(format!("{}!readdir", path), e);
                }
            }
        }
    }
    match inst.fs.getattr(&ctx, 1, None) {
        Ok((st, _)) => rec(inst, io, 1, &st, "", &mut out, orc, 0),
        Err(e) => {
            out.insert("!root".into(), errno(&e));
        }
    }
    out
}

/// `race,<path>`: the request is `unlink,<path>`, but a second client thread performs the first
/// LOOKUP of the parent directory concurrently and is parked between scanning the directory and
/// recording the scan until this thread has looked the directory up itself and finished the
/// UNLINK.  Sequentially equivalent to the unlink alone (a lookup changes nothing visible).
fn race_unlink(inst: &Inst, io: &Io, op: &[&str], orc: &mut Vec<(String, String)>, stats: &mut Vec<String>) -> String {
    let path = op[1];
    let (pp, _) = match split_parent(path) {
        Some(x) => x,
        None => return do_op(inst, io, op, orc),
    };
    let (gp, d) = match split_parent(pp) {
        Some(x) => x,
        None => return do_op(inst, io, op, orc), // parent is the root: loaded at import
    };
    let gino = match resolve(inst, gp) {
        Ok((i, st)) if kind_of(&st) == 'd' => i,
        _ => return do_op(inst, io, op, orc),
    };
    let (entered_tx, entered_rx) = sync_channel::<()>(1);
    let (go_tx, go_rx) = sync_channel::<()>(1);
    *inst.gate.lock().unwrap() = Some((entered_tx, go_rx));
    let mut res = String::new();
    std::thread::scope(|sc| {
        let slow = sc.spawn(|| {
            SLOW.with(|s| s.set(true));
            let _ = inst.fs.lookup(&Context::default(), gino, &cname(d));
            SLOW.with(|s| s.set(false));
        });
        // wait until the second client is parked — or has finished without getting there
        let t0 = std::time::Instant::now();
        let mut parked = false;
        while t0.elapsed() < Duration::from_secs(60) {
            if entered_rx.try_recv().is_ok() {
                parked = true;
                break;
            }
            if slow.is_finished() {
                break;
            }
            std::thread::sleep(Duration::from_micros(200));
        }
        stats.push(format!("race:{}", if parked { "second-client-parked" } else { "no-park" }));
        res = do_op(inst, io, op, orc);
        let _ = go_tx.send(());
        let _ = slow.join();
    });
    *inst.gate.lock().unwrap() = None;
    res
}

/// `cup,<request>`: the request runs on this thread, parked at the first layer `forget` it
/// causes (a copy-up drops the lower real inodes of the node it has just given an upper one);
/// meanwhile a second client LOOKs the target UP and GETATTRs it.  The request is booked alone;
/// the observer must find the object (with its old or its new attributes): an object that exists
/// before and after the request never disappears in between.
fn observed_op(inst: &Inst, io: &Io, op: &[&str], orc: &mut Vec<(String, String)>, stats: &mut Vec<String>) -> String {
    let path = op[1].to_string();
    let pre = resolve(inst, &path).is_ok();
    let (entered_tx, entered_rx) = sync_channel::<()>(1);
    let (go_tx, go_rx) = sync_channel::<()>(1);
    *inst.gate.lock().unwrap() = Some((entered_tx, go_rx));
    let done = std::sync::atomic::AtomicBool::new(false);
    let mut res = String::new();
    let mut seen: Option<Result<(), String>> = None;
    let mut parked = false;
    std::thread::scope(|sc| {
        let (done, path) = (&done, &path);
        let obs = sc.spawn(move || {
            let t0 = std::time::Instant::now();
            let mut parked = false;
            while t0.elapsed() < Duration::from_secs(60) {
                if entered_rx.try_recv().is_ok() {
                    parked = true;
                    break;
                }
                if done.load(Ordering::SeqCst) {
                    break;
                }
                std::thread::sleep(Duration::from_micros(200));
            }
            // the read itself on a helper thread: it may have to wait for the node's lock
            let h = sc.spawn(move || {
                std::panic::catch_unwind(std::panic::AssertUnwindSafe(|| match resolve(inst, path) {
                    Ok((ino, _)) => inst.fs.getattr(&Context::default(), ino, None).map(|_| ()).map_err(|e| errno(&e)),
                    Err(e) => Err(e),
                }))
                .unwrap_or_else(|_| Err("panic".to_string()))
            });
            let t1 = std::time::Instant::now();
            while !h.is_finished() && t1.elapsed() < Duration::from_millis(25) {
                std::thread::sleep(Duration::from_micros(200));
            }
            let _ = go_tx.send(());
            (parked, h.join().unwrap_or_else(|_| Err("panic".to_string())))
        });
        SLOW.with(|s| s.set(true));
        res = do_op(inst, io, op, orc);
        SLOW.with(|s| s.set(false));
        done.store(true, Ordering::SeqCst);
        if let Ok((p, r)) = obs.join() {
            parked = p;
            seen = Some(r);
        }
    });
    *inst.gate.lock().unwrap() = None;
    stats.push(format!("cup:{}", if parked { "request-parked" } else { "no-park" }));
    let post = resolve(inst, &path).is_ok();
    if let (true, true, Some(Err(e))) = (pre, post, &seen) {
        orc.push(("C10:concurrent-read:vanished-during-copy-up".into(),
                  format!("`{}` exists before and after `{}`, but a LOOKUP+GETATTR issued while the request was in flight answered {}", path, op.join(","), e)));
    }
    res
}

fn oflags(s: &str) -> i32 {
    match s {
        "r" => libc::O_RDONLY,
        "w" => libc::O_WRONLY,
        "rw" => libc::O_RDWR,
        "wt" => libc::O_WRONLY | libc::O_TRUNC,
        "wa" => libc::O_WRONLY | libc::O_APPEND,
        "rt" => libc::O_RDONLY | libc::O_TRUNC,
        "ra" => libc::O_RDONLY | libc::O_APPEND,
        _ => libc::O_RDONLY,
    }
}

fn is_modifying_op(op: &[&str]) -> bool {
    is_modifying(op[0]) || (op[0] == "open" && op.get(2).copied().unwrap_or("r") != "r")
}

fn is_modifying(op: &str) -> bool {
    matches!(op, "create" | "mkdir" | "mknod" | "symlink" | "link" | "unlink" | "rmdir" | "write" | "chmod" | "truncate" | "setx" | "rmx")
}

/// one operation through the overlay; returns the result string
fn do_op(inst: &Inst, io: &Io, op: &[&str], orc: &mut Vec<(String, String)>) -> String {
    let ctx = Context::default();
    let fs = &inst.fs;
    let r: Result<String, String> = (|| {
        match op[0] {
            "lookup" => {
                let (_, st) = resolve(inst, op[1])?;
                Ok(format!("ok:{}{:o}", kind_of(&st), if kind_of(&st) == 'l' { 0 } else { st.st_mode & 0o7777 }))
            }
            "readdir" => {
                let (ino, st) = resolve(inst, op[1])?;
                if kind_of(&st) != 'd' {
                    return Err("e20".into());
                }
                let names = list_dir(inst, ino, orc)?;
                Ok(format!("ok:{}", names.iter().collect::<String>()))
            }
            "create" | "mkdir" | "mknod" | "symlink" => {
                let (pp, c) = split_parent(op[1]).ok_or("e22")?;
                let (pino, pst) = resolve(inst, pp)?;
                if kind_of(&pst) != 'd' {
                    return Err("e20".into());
                }
                let arg = op.get(2).copied().unwrap_or("0");
                match op[0] {
                    "create" => {
                        let mode = u32::from_str_radix(arg, 8).unwrap_or(0o644);
                        let a = CreateIn { flags: (libc::O_WRONLY | libc::O_CREAT) as u32, mode: libc::S_IFREG | mode, umask: 0, fuse_flags: 0 };
                        let (e, h, _, _) = fs.create(&ctx, pino, &cname(c), a).map_err(|e| errno(&e))?;
                        if let Some(h) = h {
                            fs.release(&ctx, e.inode, libc::O_WRONLY as u32, h, false, false, None).map_err(|e| format!("release-{}", errno(&e)))?;
                        }
                    }
                    "mkdir" => {
                        let mode = u32::from_str_radix(arg, 8).unwrap_or(0o755);
                        fs.mkdir(&ctx, pino, &cname(c), mode, 0).map_err(|e| errno(&e))?;
                    }
                    "mknod" => {
                        let mode = u32::from_str_radix(arg, 8).unwrap_or(0o644);
                        fs.mknod(&ctx, pino, &cname(c), libc::S_IFIFO | mode, 0, 0).map_err(|e| errno(&e))?;
                    }
                    _ => {
                        let t = CString::new(format!("t{}", arg)).unwrap();
                        fs.symlink(&ctx, &t, pino, &cname(c)).map_err(|e| errno(&e))?;
                    }
                }
                Ok("ok".into())
            }
            "link" => {
                let (ino, st) = resolve(inst, op[1])?;
                if kind_of(&st) == 'd' {
                    return Err("e1".into());
                }
                let (pp, c) = split_parent(op[2]).ok_or("e22")?;
                let (pino, pst) = resolve(inst, pp)?;
                if kind_of(&pst) != 'd' {
                    return Err("e20".into());
                }
                fs.link(&ctx, ino, pino, &cname(c)).map_err(|e| errno(&e))?;
                Ok("ok".into())
            }
            "unlink" | "rmdir" => {
                let (pp, c) = split_parent(op[1]).ok_or("e22")?;
                let (pino, pst) = resolve(inst, pp)?;
                if kind_of(&pst) != 'd' {
                    return Err("e20".into());
                }
                // "nl": the client knows the entry from READDIRPLUS only (no LOOKUP of the child
                // before the request, as the kernel does with a dentry primed by readdirplus)
                let k = if op.get(2).copied() == Some("nl") {
                    match entry_via_readdirplus(inst, pino, c)? {
                        Some(st) => kind_of(&st),
                        None => return Err("e2".into()),
                    }
                } else {
                    let e = fs.lookup(&ctx, pino, &cname(c)).map_err(|e| errno(&e))?;
                    if e.inode == 0 {
                        return Err("e2".into());
                    }
                    kind_of(&e.attr)
                };
                if op[0] == "unlink" {
                    if k == 'd' {
                        return Err("e21".into());
                    }
                    fs.unlink(&ctx, pino, &cname(c)).map_err(|e| errno(&e))?;
                } else {
                    if k != 'd' {
                        return Err("e20".into());
                    }
                    fs.rmdir(&ctx, pino, &cname(c)).map_err(|e| errno(&e))?;
                }
                Ok("ok".into())
            }
            "open" | "write" | "read" => {
                let (ino, st) = resolve(inst, op[1])?;
                match kind_of(&st) {
                    'd' => return Err("e21".into()),
                    'l' => return Err("e40".into()),
                    'o' => return Err("e6".into()),
                    _ => {}
                }
                if op[0] == "read" {
                    let b = read_all(inst, io, ino)?;
                    return Ok(format!("ok:{}", host::bytes_chunks(&b).map(|c| host::chunks_str(&c)).unwrap_or_else(|| format!("raw{}", b.len()))));
                }
                let fl = oflags(op[2]);
                let (h, _, _) = fs.open(&ctx, ino, fl as u32, 0).map_err(|e| errno(&e))?;
                let h = h.unwrap_or(0);
                let mut res = Ok("ok".to_string());
                if op[0] == "write" {
                    let data = host::chunk_bytes(&host::parse_chunks(op[4]));
                    let off: u64 = if op[2] == "wa" { st.st_size as u64 } else { 4 * op[3].parse::<u64>().unwrap_or(0) };
                    let mut f = io.file();
                    f.write_all(&data).unwrap();
                    f.seek(SeekFrom::Start(0)).unwrap();
                    match fs.write(&ctx, ino, h, &mut f, data.len() as u32, off, None, false, fl as u32, 0) {
                        Ok(n) if n == data.len() => {}
                        Ok(n) => res = Err(format!("short{}", n)),
                        Err(e) => res = Err(errno(&e)),
                    }
                }
                fs.release(&ctx, ino, fl as u32, h, true, false, None).map_err(|e| format!("release-{}", errno(&e)))?;
                res
            }
            "readlink" => {
                let (ino, st) = resolve(inst, op[1])?;
                if kind_of(&st) != 'l' {
                    return Err("e22".into());
                }
                let t = fs.readlink(&ctx, ino).map_err(|e| errno(&e))?;
                Ok(format!("ok:{}", String::from_utf8_lossy(&t).strip_prefix('t').unwrap_or("?")))
            }
            "chmod" | "truncate" => {
                let (ino, st) = resolve(inst, op[1])?;
                let k = kind_of(&st);
                let mut attr: stat64 = unsafe { std::mem::zeroed() };
                let valid;
                if op[0] == "chmod" {
                    if k == 'l' {
                        return Err("e95".into());
                    }
                    attr.st_mode = u32::from_str_radix(op[2], 8).unwrap_or(0o644);
                    valid = SetattrValid::MODE;
                } else {
                    match k {
                        'd' => return Err("e21".into()),
                        'l' => return Err("e40".into()),
                        'o' => return Err("e22".into()),
                        _ => {}
                    }
                    attr.st_size = 4 * op[2].parse::<i64>().unwrap_or(0);
                    valid = SetattrValid::SIZE;
                }
                // `chmod,…,h`: fchmod-style — the client holds a handle from a READ-ONLY open of the
                // file and passes it along (only regular files can be opened here)
                if op[0] == "chmod" && op.get(3).copied() == Some("h") && k == 'f' {
                    let (h, _, _) = fs.open(&ctx, ino, libc::O_RDONLY as u32, 0).map_err(|e| errno(&e))?;
                    let r = fs.setattr(&ctx, ino, attr, h, valid).map_err(|e| errno(&e));
                    let _ = fs.release(&ctx, ino, libc::O_RDONLY as u32, h.unwrap_or(0), false, false, None);
                    r?;
                } else {
                    fs.setattr(&ctx, ino, attr, None, valid).map_err(|e| errno(&e))?;
                }
                Ok("ok".into())
            }
            "setx" | "rmx" | "getx" => {
                let (ino, st) = resolve(inst, op[1])?;
                let k = kind_of(&st);
                if k == 'l' || k == 'o' {
                    // VFS xattr_permission: user.* only on regular files and directories
                    return Err(if op[0] == "getx" { "e61".into() } else { "e1".into() });
                }
                let xn = CString::new(host::XNAME).unwrap();
                match op[0] {
                    "setx" => fs.setxattr(&ctx, ino, &xn, format!("v{}", op[2]).as_bytes(), 0).map_err(|e| errno(&e))?,
                    "rmx" => fs.removexattr(&ctx, ino, &xn).map_err(|e| errno(&e))?,
                    _ => return Ok(format!("ok:{}", getx(inst, ino)?)),
                }
                Ok("ok".into())
            }
            "walk" => Ok(format!("ok:{}", host::show_view(&walk(inst, io, orc)))),
            _ => Err("e38".into()),
        }
    })();
    match r {
        Ok(s) => s,
        Err(e) => e,
    }
}

// ------------------------------------------------------------------ plain-fs reference (syscalls)

/// the same operation with plain syscalls on an ordinary directory `dir`
fn plain_op(dir: &str, op: &[&str]) -> String {
    use std::os::unix::fs::PermissionsExt;
    let hp = |p: &str| host::host_path(dir, p);
    let cs = |s: &str| CString::new(s).unwrap();
    let e = |e: io::Error| format!("e{}", e.raw_os_error().unwrap_or(0));
    let last = || e(io::Error::last_os_error());
    let lst = |p: &str| std::fs::symlink_metadata(hp(p));
    let kind = |m: &std::fs::Metadata| {
        let ft = m.file_type();
        if ft.is_dir() { 'd' } else if ft.is_file() { 'f' } else if ft.is_symlink() { 'l' } else { 'o' }
    };
    // path walk like `resolve`: ENOTDIR for a non-directory in the middle, no symlink following
    let walk_to = |p: &str| -> Result<std::fs::Metadata, String> {
        let mut cur = String::new();
        let mut md = lst("").map_err(e)?;
        for c in p.chars() {
            if kind(&md) != 'd' {
                return Err("e20".into());
            }
            cur.push(c);
            md = lst(&cur).map_err(e)?;
        }
        Ok(md)
    };
    let r: Result<String, String> = (|| {
        use std::os::unix::fs::MetadataExt;
        match op[0] {
            "lookup" => {
                let md = walk_to(op[1])?;
                Ok(format!("ok:{}{:o}", kind(&md), if kind(&md) == 'l' { 0 } else { md.mode() & 0o7777 }))
            }
            "readdir" => {
                let md = walk_to(op[1])?;
                if kind(&md) != 'd' {
                    return Err("e20".into());
                }
                let mut n: Vec<String> = std::fs::read_dir(hp(op[1])).map_err(e)?.filter_map(|x| x.ok()).map(|x| x.file_name().to_string_lossy().into_owned()).collect();
                n.sort();
                Ok(format!("ok:{}", n.concat()))
            }
            "create" | "mkdir" | "mknod" | "symlink" => {
                let (pp, _) = split_parent(op[1]).ok_or("e22")?;
                let pmd = walk_to(pp)?;
                if kind(&pmd) != 'd' {
                    return Err("e20".into());
                }
                let arg = op.get(2).copied().unwrap_or("0");
                let mode = u32::from_str_radix(arg, 8).unwrap_or(0o644);
                let p = cs(&hp(op[1]));
                let rc = match op[0] {
                    "create" => {
                        let fd = unsafe { libc::open(p.as_ptr(), libc::O_WRONLY | libc::O_CREAT | libc::O_EXCL | libc::O_NOFOLLOW, mode) };
                        if fd >= 0 {
                            unsafe { libc::close(fd) };
                            0
                        } else {
                            -1
                        }
                    }
                    "mkdir" => unsafe { libc::mkdir(p.as_ptr(), mode) },
                    "mknod" => unsafe { libc::mknod(p.as_ptr(), libc::S_IFIFO | mode, 0) },
                    _ => unsafe { libc::symlink(cs(&format!("t{}", arg)).as_ptr(), p.as_ptr()) },
                };
                if rc != 0 {
                    return Err(last());
                }
                Ok("ok".into())
            }
            "link" => {
                let md = walk_to(op[1])?;
                if kind(&md) == 'd' {
                    return Err("e1".into());
                }
                let (pp, _) = split_parent(op[2]).ok_or("e22")?;
                let pmd = walk_to(pp)?;
                if kind(&pmd) != 'd' {
                    return Err("e20".into());
                }
                let rc = unsafe { libc::linkat(libc::AT_FDCWD, cs(&hp(op[1])).as_ptr(), libc::AT_FDCWD, cs(&hp(op[2])).as_ptr(), 0) };
                if rc != 0 {
                    return Err(last());
                }
                Ok("ok".into())
            }
            "unlink" | "rmdir" => {
                let (pp, _) = split_parent(op[1]).ok_or("e22")?;
                let pmd = walk_to(pp)?;
                if kind(&pmd) != 'd' {
                    return Err("e20".into());
                }
                let md = lst(op[1]).map_err(e)?;
                if op[0] == "unlink" {
                    if kind(&md) == 'd' {
                        return Err("e21".into());
                    }
                    std::fs::remove_file(hp(op[1])).map_err(e)?;
                } else {
                    if kind(&md) != 'd' {
                        return Err("e20".into());
                    }
                    std::fs::remove_dir(hp(op[1])).map_err(e)?;
                }
                Ok("ok".into())
            }
            "open" | "write" | "read" => {
                let md = walk_to(op[1])?;
                match kind(&md) {
                    'd' => return Err("e21".into()),
                    'l' => return Err("e40".into()),
                    'o' => return Err("e6".into()),
                    _ => {}
                }
                if op[0] == "read" {
                    let b = std::fs::read(hp(op[1])).map_err(e)?;
                    return Ok(format!("ok:{}", host::bytes_chunks(&b).map(|c| host::chunks_str(&c)).unwrap_or_else(|| format!("raw{}", b.len()))));
                }
                let fd = unsafe { libc::open(cs(&hp(op[1])).as_ptr(), oflags(op[2]) | libc::O_NOFOLLOW) };
                if fd < 0 {
                    return Err(last());
                }
                let mut res = Ok("ok".to_string());
                if op[0] == "write" {
                    let data = host::chunk_bytes(&host::parse_chunks(op[4]));
                    let off: i64 = if op[2] == "wa" { md.size() as i64 } else { 4 * op[3].parse::<i64>().unwrap_or(0) };
                    let n = unsafe { libc::pwrite(fd, data.as_ptr() as *const libc::c_void, data.len(), off) };
                    if n < 0 {
                        res = Err(last());
                    }
                }
                unsafe { libc::close(fd) };
                res
            }
            "readlink" => {
                let md = walk_to(op[1])?;
                if kind(&md) != 'l' {
                    return Err("e22".into());
                }
                let t = std::fs::read_link(hp(op[1])).map_err(e)?;
                Ok(format!("ok:{}", t.to_string_lossy().strip_prefix('t').unwrap_or("?")))
            }
            "chmod" => {
                let md = walk_to(op[1])?;
                if kind(&md) == 'l' {
                    return Err("e95".into());
                }
                std::fs::set_permissions(hp(op[1]), std::fs::Permissions::from_mode(u32::from_str_radix(op[2], 8).unwrap_or(0o644))).map_err(e)?;
                Ok("ok".into())
            }
            "truncate" => {
                let md = walk_to(op[1])?;
                match kind(&md) {
                    'd' => return Err("e21".into()),
                    'l' => return Err("e40".into()),
                    'o' => return Err("e22".into()),
                    _ => {}
                }
                let rc = unsafe { libc::truncate(cs(&hp(op[1])).as_ptr(), 4 * op[2].parse::<i64>().unwrap_or(0)) };
                if rc != 0 {
                    return Err(last());
                }
                Ok("ok".into())
            }
            "setx" | "rmx" | "getx" => {
                let md = walk_to(op[1])?;
                let k = kind(&md);
                if k == 'l' || k == 'o' {
                    return Err(if op[0] == "getx" { "e61".into() } else { "e1".into() });
                }
                let p = hp(op[1]);
                match op[0] {
                    "setx" => {
                        if !host::lsetxattr(&p, host::XNAME, format!("v{}", op[2]).as_bytes()) {
                            return Err(last());
                        }
                    }
                    "rmx" => {
                        let rc = unsafe { libc::lremovexattr(cs(&p).as_ptr(), cs(host::XNAME).as_ptr()) };
                        if rc != 0 {
                            return Err(last());
                        }
                    }
                    _ => {
                        let v = host::lgetxattr(&p, host::XNAME);
                        return Ok(format!("ok:{}", v.map(|v| String::from_utf8_lossy(&v).strip_prefix('v').and_then(|s| s.parse::<u32>().ok()).unwrap_or(9999)).unwrap_or(0)));
                    }
                }
                Ok("ok".into())
            }
            "walk" => Ok("ok:".into()),
            _ => Err("e38".into()),
        }
    })();
    match r {
        Ok(s) => s,
        Err(e) => e,
    }
}

/// materialise the union of the scanned layers as an ordinary directory
fn materialise_union(dir: &str, layers: &[&BTreeMap<String, Node>]) {
    let u = host::union(layers);
    let mut spec: host::LayerSpec = Vec::new();
    for (p, s) in u.iter() {
        // view syntax -> layer syntax (directories get opaque 0)
        let f: Vec<&str> = s.split('.').collect();
        let n = if f[0] == "d" { Node::parse(&format!("d.{}.0.{}", f[1], f[2])) } else { Node::parse(s) };
        if let Some(n) = n {
            spec.push((p.clone(), n));
        }
    }
    host::materialise(dir, &spec).unwrap();
}

fn plain_view(dir: &str) -> BTreeMap<String, String> {
    host::scan(dir).iter().map(|(p, n)| (p.clone(), n.show_view())).collect()
}

fn field_kind(v: &str, w: &str) -> &'static str {
    let a: Vec<&str> = v.split('.').collect();
    let b: Vec<&str> = w.split('.').collect();
    if a[0] != b[0] {
        return "type";
    }
    match a[0] {
        "d" | "f" | "o" if a.get(1) != b.get(1) => "mode",
        "f" if a.get(2) != b.get(2) => "content",
        "l" => "target",
        _ => "xattr",
    }
}

fn diff_kind(a: &BTreeMap<String, String>, b: &BTreeMap<String, String>) -> Option<(String, String)> {
    // (kind, description) of the first difference; a = observed, b = expected
    for (p, v) in a.iter() {
        match b.get(p) {
            None => return Some(("extra".into(), format!("'{}' is {} but should not exist", p, v))),
            Some(w) if w != v => {
                return Some((field_kind(v, w).into(), format!("'{}' is {} expected {}", p, v, w)));
            }
            _ => {}
        }
    }
    for (p, w) in b.iter() {
        if !a.contains_key(p) {
            return Some(("missing".into(), format!("'{}' ({}) is missing", p, w)));
        }
    }
    None
}

// ------------------------------------------------------------------ one case

struct CaseOut {
    line: String,
    oracle: Vec<serde_json::Value>,
    stats: Vec<String>,
    classes: Vec<String>,
}

fn exec(line: &str, base: &str) -> CaseOut {
    let kv = parse_kv(line);
    let up = kn(&kv, "up") == 1;
    let nl = kn(&kv, "nl") as usize;
    let ops: Vec<String> = ks(&kv, "ops").split(';').filter(|s| !s.is_empty()).map(|s| s.to_string()).collect();
    let _ = std::fs::remove_dir_all(base);
    std::fs::create_dir_all(base).unwrap();
    for i in 0..=nl {
        let spec = if i == 0 && !up { vec![] } else { host::parse_layer(ks(&kv, &format!("L{}", i))) };
        if i == 0 && !up {
            continue;
        }
        host::materialise(&layer_dir(base, i), &spec).unwrap_or_else(|e| panic!("materialise {}: {}", line, e));
    }
    let io = Io { path: format!("{}/io", base) };
    let mut out = CaseOut { line: String::new(), oracle: vec![], stats: vec![], classes: vec![] };
    let mut fire = |prop: &str, key: String, what: String, oracle: &mut Vec<serde_json::Value>| {
        oracle.push(serde_json::json!({"prop": prop, "key": key, "case": line, "what": what}));
    };
    let scan_layers = |base: &str| -> Vec<BTreeMap<String, Node>> {
        (if up { 0 } else { 1 }..=nl).map(|i| host::scan(&layer_dir(base, i))).collect()
    };
    // plain reference directory holding the union
    let plain = format!("{}/plain", base);
    {
        let ls = scan_layers(base);
        let refs: Vec<&BTreeMap<String, Node>> = ls.iter().collect();
        materialise_union(&plain, &refs);
    }
    let lower_fp: Vec<String> = (1..=nl).map(|i| host::fingerprint(&layer_dir(base, i))).collect();
    let inst = match build(base, up, nl) {
        Ok(i) => i,
        Err(e) => {
            out.line = format!("build-{}", errno(&e));
            return out;
        }
    };
    let mut recs: Vec<String> = Vec::new();
    let mut plain_ok = true; // the plain reference is meaningful until a known divergence
    let mut prev_fresh: BTreeMap<String, String> = {
        let ls = scan_layers(base);
        let refs: Vec<&BTreeMap<String, Node>> = ls.iter().collect();
        host::union(&refs)
    };
    for o in ops.iter() {
        let mut op: Vec<&str> = o.split(',').collect();
        let racing = op[0] == "race";
        if racing {
            op[0] = "unlink";
            out.stats.push("op:race".to_string());
        }
        let observed = op[0] == "cup" && op.len() > 2;
        if observed {
            op.remove(0);
            out.stats.push("op:cup".to_string());
        }
        let name = op[0];
        out.stats.push(format!("op:{}", name));
        if name == "fwalk" {
            // a transient host fault (EMFILE on the k-th layer lookup) while the client walks the
            // tree; whatever that walk answered, every later operation must still see the union.
            // No record: the model has no faults and skips this step.
            let k: i64 = op.get(1).and_then(|s| s.parse().ok()).unwrap_or(1);
            inst.fault.store(k, Ordering::SeqCst);
            let mut scratch = Vec::new();
            let _ = walk(&inst, &io, &mut scratch);
            out.stats.push(format!("fwalk:{}", if inst.fault.load(Ordering::SeqCst) <= 0 { "fault-hit" } else { "fault-not-reached" }));
            inst.fault.store(0, Ordering::SeqCst);
            continue;
        }
        if name == "flast" && op.len() > 1 {
            // `flast,<name>`: READDIRPLUS of the root, FORGET of every delivered entry (the client
            // holds no other reference), then LOOKUP of the root-level <name>, which the listing
            // delivered: giving references back must not change the tree.  Model-free.
            let ctx = Context::default();
            let mut delivered: Vec<(Vec<u8>, u64)> = Vec::new();
            if let Ok((h, _)) = inst.fs.opendir(&ctx, 1, libc::O_RDONLY as u32) {
                let h = h.unwrap_or(0);
                let _ = inst.fs.readdirplus(&ctx, 1, h, 1 << 16, 0, &mut |d: DirEntry, e: Entry| {
                    if e.inode != 0 && d.name != b"." && d.name != b".." {
                        delivered.push((d.name.to_vec(), e.inode));
                    }
                    Ok(152 + d.name.len())
                });
                let _ = inst.fs.releasedir(&ctx, 1, 0, h);
            }
            for (_, i) in &delivered {
                inst.fs.forget(&ctx, *i, 1);
            }
            let c = op[1].chars().next().unwrap_or('a');
            if delivered.iter().any(|(n, _)| n == c.to_string().as_bytes()) {
                if let Err(e) = inst.fs.lookup(&ctx, 1, &cname(c)) {
                    for p in ["C10", "C11"] {
                        fire(p, format!("{}:forget-last-reference:entry-vanishes", p), format!("READDIRPLUS delivered `{}`, the client gave the reference back with FORGET, and the next LOOKUP of `{}` answers {}", c, c, errno(&e)), &mut out.oracle);
                    }
                }
            }
            out.stats.push(format!("flast:delivered{}", delivered.len()));
            out.stats.push("op:flast".into());
            continue;
        }
        if name == "fail" && op.len() > 2 {
            // `fail,<unlink|rmdir>,<path>`: the first mutating call the request makes on the upper
            // layer fails with EIO.  A failed request changes nothing: the view before and after
            // must agree (and the model, which has no faults, skips the step).
            let mut scratch = Vec::new();
            let v0 = walk(&inst, &io, &mut scratch);
            let l0 = scan_layers(base);
            inst.fail_mut.store(true, Ordering::SeqCst);
            REFUSED.with(|r| r.set(""));
            let inner: Vec<&str> = op[1..].to_vec();
            let res = do_op(&inst, &io, &inner, &mut scratch);
            let consumed = !inst.fail_mut.swap(false, Ordering::SeqCst);
            let v1 = walk(&inst, &io, &mut scratch);
            let l1 = scan_layers(base);
            let refused = REFUSED.with(|r| r.get());
            out.stats.push(format!("fail:{}", if consumed { format!("fault-hit:{}", refused) } else { "fault-not-reached".to_string() }));
            if consumed && res.starts_with("ok") {
                fire("C10", format!("C10:failed-op:reported-success:{}:{}", inner[0], refused), format!("{}: the upper layer refused the request's first modification (EIO) but the client was answered {}", o, res), &mut out.oracle);
            }
            if consumed && (v0 != v1 || l0 != l1) {
                let d: Vec<String> = v0.iter().filter(|(k, v)| v1.get(*k) != Some(v)).map(|(k, _)| k.clone()).chain(v1.keys().filter(|k| !v0.contains_key(*k)).cloned()).take(3).collect();
                fire("C10", format!("C10:failed-op:changed-view:{}:{}", inner[0], refused), format!("{} answered {} after the upper layer refused its first modification, yet these paths changed: {:?}", o, res, d), &mut out.oracle);
            }
            continue;
        }
        let before = scan_layers(base);
        inst.log.lock().unwrap().clear();
        let mut orc: Vec<(String, String)> = Vec::new();
        let res = if racing {
            race_unlink(&inst, &io, &op, &mut orc, &mut out.stats)
        } else if observed {
            observed_op(&inst, &io, &op, &mut orc, &mut out.stats)
        } else {
            do_op(&inst, &io, &op, &mut orc)
        };
        let calls: BTreeSet<String> = inst.log.lock().unwrap().iter().map(|(i, m)| format!("{}:{}", i, m)).collect();
        let raw_calls: Vec<(usize, &'static str)> = inst.log.lock().unwrap().clone();
        out.stats.push(format!("res:{}:{}", name, if res.starts_with("ok") { "ok" } else { res.as_str() }));
        // ---- direct oracles
        for (k, w) in orc.drain(..) {
            fire("C10", k, w, &mut out.oracle);
        }
        for (i, m) in raw_calls.iter() {
            if *i != 0 {
                fire("C10", format!("C10:mutated-lower-layer:{}", m), format!("{} called on layer {} during {}", m, i, o), &mut out.oracle);
            }
        }
        for i in 1..=nl {
            if host::fingerprint(&layer_dir(base, i)) != lower_fp[i - 1] {
                fire("C10", format!("C10:lower-modified:{}", name), format!("lower layer {} changed during {}", i, o), &mut out.oracle);
            }
        }
        if !up && is_modifying_op(&op) {
            if res.starts_with("ok") {
                fire("C10", format!("C10:no-upper:{}:succeeded", name), format!("{} succeeded without an upper layer", o), &mut out.oracle);
            }
            if !raw_calls.is_empty() {
                fire("C10", format!("C10:no-upper:{}:mutating-call", name), format!("{:?} during {}", raw_calls, o), &mut out.oracle);
            }
        }
        let after = scan_layers(base);
        let refs: Vec<&BTreeMap<String, Node>> = after.iter().collect();
        let union_now = host::union(&refs);
        // copy-up preservation: a path that was only in lower layers before and is now a
        // non-whiteout entry of the upper layer
        if up {
            let lost = copy_up_oracle(&before, &after, &op, o, res.starts_with("ok"), &mut |p, k, w| fire(p, k, w, &mut out.oracle));
            for p in lost {
                // known limitation (copy-up drops xattrs): keep the plain reference aligned
                let hp = CString::new(host::host_path(&plain, &p)).unwrap();
                unsafe { libc::lremovexattr(hp.as_ptr(), CString::new(host::XNAME).unwrap().as_ptr()) };
            }
        }
        // plain reference
        let pres = if !up && is_modifying_op(&op) { String::new() } else { plain_op(&plain, &op) };
        if !up && is_modifying_op(&op) {
            // without an upper layer the only requirement is "fails and changes nothing"
        } else if plain_ok && name != "walk" && pres != res {
            fire("C10", format!("C10:not-plain-fs:{}:result", name), format!("{} answered {} but an ordinary file system answers {}", o, res, pres), &mut out.oracle);
            plain_ok = false;
        }
        // fresh instance over the same directories
        let fresh_view = match build(base, up, nl) {
            Ok(f2) => {
                let mut orc2 = Vec::new();
                let v = walk(&f2, &io, &mut orc2);
                for (k, w) in orc2 {
                    fire("C10", k, w, &mut out.oracle);
                }
                v
            }
            Err(e) => {
                let mut m = BTreeMap::new();
                m.insert("!build".to_string(), errno(&e));
                m
            }
        };
        // C11: rmdir of a directory that a restart showed as empty must not fail with ENOTEMPTY
        if name == "rmdir" && res == "e39" && prev_fresh.contains_key(op[1]) && !prev_fresh.keys().any(|q| q.starts_with(op[1]) && q.len() > op[1].len()) {
            fire("C11", "C11:rmdir-empty-dir-refused".to_string(), format!("{} answered ENOTEMPTY although the directory is empty (left-over upper whiteouts?)", o), &mut out.oracle);
        }
        // C11: what was just deleted / re-created must look the same after a restart
        if res.starts_with("ok") && matches!(name, "unlink" | "rmdir") {
            if let Some((q, v)) = fresh_view.iter().find(|(q, _)| q.starts_with(op[1])) {
                fire("C11", format!("C11:deleted-resurfaced:{}", name), format!("after {} a fresh instance shows '{}' ({})", o, q, v), &mut out.oracle);
            }
        }
        if res.starts_with("ok") && name == "mkdir" {
            if let Some((q, v)) = fresh_view.iter().find(|(q, _)| q.starts_with(op[1]) && q.len() > op[1].len()) {
                fire("C11", "C11:recreated-dir-not-empty".to_string(), format!("after {} a fresh instance shows '{}' ({}) inside the new directory", o, q, v), &mut out.oracle);
            }
        }
        if let Some((k, w)) = diff_kind(&fresh_view, &union_now) {
            fire("C10", format!("C10:view-not-union:fresh:{}:{}", name, k), format!("after {}: {}", o, w), &mut out.oracle);
        }
        if plain_ok {
            if let Some((k, w)) = diff_kind(&fresh_view, &plain_view(&plain)) {
                fire("C10", format!("C10:not-plain-fs:{}:{}", name, k), format!("after {} (fresh instance vs ordinary directory): {}", o, w), &mut out.oracle);
                plain_ok = false;
            }
        }
        if name == "walk" {
            let live: BTreeMap<String, String> = res
                .strip_prefix("ok:")
                .unwrap_or("")
                .split(',')
                .filter(|s| !s.is_empty() || true)
                .filter_map(|e| {
                    let mut it = e.splitn(2, ':');
                    let p = it.next()?;
                    Some((p.to_string(), it.next()?.to_string()))
                })
                .collect();
            let prev = recs.len();
            let lastop = if prev == 0 { "import".to_string() } else { ops[..prev].iter().rev().find(|x| !x.starts_with("walk")).map(|x| x.split(',').next().unwrap().to_string()).unwrap_or("import".into()) };
            if let Some((k, w)) = diff_kind(&live, &union_now) {
                fire("C10", format!("C10:view-not-union:live:{}:{}", lastop, k), format!("live tree after {:?}: {}", &ops[..prev], w), &mut out.oracle);
            }
            if let Some((k, w)) = diff_kind(&fresh_view, &live) {
                fire("C11", format!("C11:restart-diff:{}:{}", lastop, k), format!("fresh instance vs live after {:?}: {}", &ops[..prev], w), &mut out.oracle);
            }
        }
        prev_fresh = fresh_view.clone();
        let upper_scan = if up { host::show_scan(&after[0]) } else { "-".to_string() };
        recs.push(format!("{}|{}|{}|{}", res, calls.iter().cloned().collect::<Vec<_>>().join(","), host::show_view(&fresh_view), upper_scan));
        out.classes.push(format!("{}:{}:{}", name, if res.starts_with("ok") { "ok" } else { res.as_str() }, calls.iter().cloned().collect::<Vec<_>>().join("+")));
    }
    drop(inst);
    let _ = std::fs::remove_dir_all(base);
    out.line = recs.join(";");
    out
}

fn copy_up_oracle(before: &[BTreeMap<String, Node>], after: &[BTreeMap<String, Node>], op: &[&str], o: &str, ok: bool, fire0: &mut dyn FnMut(&str, String, String)) -> Vec<String> {
    let mut lost: Vec<String> = Vec::new();
    let refs: Vec<&BTreeMap<String, Node>> = before.iter().collect();
    let union_before = host::union(&refs);
    let target: &str = match op[0] {
        "link" => op[2],
        _ => op.get(1).copied().unwrap_or(""),
    };
    let creating = matches!(op[0], "create" | "mkdir" | "mknod" | "symlink" | "link");
    for (p, n) in after[0].iter() {
        if before[0].contains_key(p) || matches!(n, Node::Whiteout) {
            continue;
        }
        if ok && creating && p == target {
            continue;
        }
        // visible before the op => this is a copy of a lower entry
        let Some(orig) = union_before.get(p) else { continue };
        let now = n.show_view();
        let of: Vec<&str> = orig.split('.').collect();
        let nf: Vec<&str> = now.split('.').collect();
        // the op's own effect on its target is not a copy-up difference (only when it succeeded)
        let is_target = ok && (p == target || (op[0] == "link" && p == op[1]));
        if of[0] != nf[0] {
            fire0("C11", format!("C11:copy-up:type:{}-became-{}", of[0], nf[0]), format!("{}: '{}' was {} and its upper copy is {}", o, p, orig, now));
            continue;
        }
        match of[0] {
            "d" => {
                if of[1] != nf[1] && !(is_target && op[0] == "chmod") {
                    fire0("C11", if p == target { "C11:copy-up:mode".into() } else { "C11:copy-up:parent-mode".to_string() }, format!("{}: directory '{}' was {} and its upper copy is {}", o, p, orig, now));
                }
                if of[2] != nf[2] && !(is_target && matches!(op[0], "setx" | "rmx")) {
                    fire0("C10", "C10:copy-up:xattr-lost:dir".into(), format!("{}: directory '{}' was {} and its upper copy is {}", o, p, orig, now));
                    lost.push(p.clone());
                }
            }
            "f" => {
                if of[1] != nf[1] && !(is_target && op[0] == "chmod") {
                    fire0("C11", "C11:copy-up:mode".into(), format!("{}: '{}' was {} and its upper copy is {}", o, p, orig, now));
                }
                if of[2] != nf[2] && !(is_target && (matches!(op[0], "write" | "truncate") || (op[0] == "open" && (op[2] == "wt" || op[2] == "rt")))) {
                    fire0("C11", "C11:copy-up:content".into(), format!("{}: '{}' was {} and its upper copy is {}", o, p, orig, now));
                }
                if of[3] != nf[3] && !(is_target && matches!(op[0], "setx" | "rmx")) {
                    fire0("C10", "C10:copy-up:xattr-lost:file".into(), format!("{}: '{}' was {} and its upper copy is {}", o, p, orig, now));
                    lost.push(p.clone());
                }
            }
            "l" => {
                if of[1] != nf[1] {
                    fire0("C11", "C11:copy-up:target".into(), format!("{}: '{}' was {} and its upper copy is {}", o, p, orig, now));
                }
            }
            _ => {}
        }
    }
    lost
}

// ------------------------------------------------------------------ generation

const NAMES: [char; 5] = ['a', 'b', 'c', 'd', 'e'];
const DMODES: [u32; 7] = [0o755, 0o700, 0o775, 0o711, 0o777, 0o1777, 0o1770];
const FMODES: [u32; 6] = [0o644, 0o600, 0o666, 0o755, 0o444, 0o640];

fn gen_dir(r: &mut Prng, path: &str, depth: usize, lowest: bool, out: &mut host::LayerSpec) {
    let dens = [50u64, 40, 30, 0][depth.min(3)];
    for c in NAMES {
        if r.below(100) >= dens {
            continue;
        }
        let p = format!("{}{}", path, c);
        let k = r.below(100);
        if k < 36 && depth < 2 {
            let opaque = if r.chance(1, 5) { r.range(1, 3) as u32 } else { 0 };
            let x = if r.chance(1, 6) { r.range(1, 9) as u32 } else { 0 };
            out.push((p.clone(), Node::Dir { mode: *r.pick(&DMODES), opaque, x }));
            gen_dir(r, &p, depth + 1, lowest, out);
        } else if k < 36 {
            out.push((p, Node::Dir { mode: *r.pick(&DMODES), opaque: if r.chance(1, 5) { 1 } else { 0 }, x: 0 }));
        } else if k < 68 {
            let n = r.below(4) as usize;
            // now and then a file of zero bytes only (a pre-allocated placeholder), or one ending in them
            let content: Vec<u32> = match r.below(12) {
                0 => vec![0; 1 + r.below(3) as usize],
                1 => (0..n).map(|_| r.range(1, 99) as u32).chain(std::iter::once(0)).collect(),
                _ => (0..n).map(|_| r.range(1, 99) as u32).collect(),
            };
            let x = if r.chance(1, 6) { r.range(1, 9) as u32 } else { 0 };
            out.push((p, Node::File { mode: *r.pick(&FMODES), content, x }));
        } else if k < 76 {
            out.push((p, Node::Symlink { target: r.range(1, 9) as u32 }));
        } else if k < 94 && !(lowest && r.chance(1, 2)) {
            out.push((p, Node::Whiteout));
        } else {
            out.push((p, Node::Other { mode: *r.pick(&FMODES) }));
        }
    }
}

fn gen_layer(r: &mut Prng, lowest: bool) -> host::LayerSpec {
    let mut v = Vec::new();
    if r.chance(1, 25) {
        v.push((String::new(), Node::Dir { mode: 0o755, opaque: 1, x: 0 }));
    }
    gen_dir(r, "", 0, lowest, &mut v);
    v
}

fn rand_path(r: &mut Prng, known: &[String], maxlen: u64) -> String {
    if !known.is_empty() && r.chance(3, 4) {
        return r.pick(known).clone();
    }
    let n = r.range(1, maxlen);
    (0..n).map(|_| *r.pick(&NAMES)).collect()
}

fn child_path(r: &mut Prng, dirs: &[String], known: &[String]) -> String {
    // a (probably) new name inside a (probably) existing directory
    let parent = if !dirs.is_empty() && r.chance(4, 5) { r.pick(dirs).clone() } else { rand_path(r, known, 2) };
    if parent.len() >= 4 {
        return parent;
    }
    format!("{}{}", parent, r.pick(&NAMES))
}

fn gen_case(r: &mut Prng, prop: &str) -> String {
    let up = if prop == "C11" { true } else { !r.chance(1, 8) };
    let nl = r.range(1, 3) as usize;
    let mut layers: Vec<host::LayerSpec> = Vec::new();
    for i in 0..=nl {
        layers.push(gen_layer(r, i == nl));
    }
    let mut known: Vec<String> = Vec::new();
    let mut dirs: Vec<String> = vec![String::new()];
    for (i, l) in layers.iter().enumerate() {
        if i == 0 && !up {
            continue;
        }
        for (p, n) in l {
            if !p.is_empty() && !known.contains(p) {
                known.push(p.clone());
            }
            if n.is_dir() && !dirs.contains(p) {
                dirs.push(p.clone());
            }
        }
    }
    let nops = r.range(1, 20);
    let walk_every = if prop == "C11" { r.chance(3, 4) } else { r.chance(1, 3) };
    let mut ops: Vec<String> = Vec::new();
    let mut n = 0;
    if r.chance(1, 5) {
        // two clients meet in a directory nobody has loaded yet
        let deep: Vec<&String> = known.iter().filter(|p| p.len() >= 2).collect();
        // prefer a directory holding a name present in the upper and in a lower layer (the overlay
        // forgets the shadowed lower entry after its scan: that is where the second client parks)
        let mut shadowed: Vec<String> = Vec::new();
        if up {
            for (p, _) in layers[0].iter().filter(|(p, _)| p.len() >= 2) {
                if layers[1..].iter().any(|l| l.iter().any(|(q, _)| q == p)) {
                    let d = &p[..p.len() - 1];
                    for q in known.iter().filter(|q| q.len() == p.len() && q.starts_with(d)) {
                        shadowed.push(q.clone());
                    }
                }
            }
        }
        if !shadowed.is_empty() && r.chance(4, 5) {
            ops.push(format!("race,{}", r.pick(&shadowed)));
            ops.push("walk".to_string());
        } else if !deep.is_empty() {
            ops.push(format!("race,{}", r.pick(&deep)));
            ops.push("walk".to_string());
        }
    }
    if r.chance(1, 4) {
        // nothing is loaded yet: the fault hits the first directory loads
        ops.push(format!("fwalk,{}", r.range(1, 8)));
        ops.push("walk".to_string());
    }
    while n < nops {
        // a transient host fault during a walk, then a clean walk of the live instance
        if r.chance(1, 16) {
            ops.push(format!("fwalk,{}", r.range(1, 4)));
            ops.push("walk".to_string());
            n += 1;
            continue;
        }
        // scripted scenarios that need a specific order
        if r.chance(1, 12) && !dirs.is_empty() {
            let d = r.pick(&dirs).clone();
            if !d.is_empty() {
                // empty a directory, remove it, re-create it
                for c in NAMES {
                    ops.push(format!("{},{}{}{}", if r.chance(4, 5) { "unlink" } else { "rmdir" }, d, c, if r.chance(1, 3) { ",nl" } else { "" }));
                }
                ops.push(format!("rmdir,{}{}", d, if r.chance(1, 3) { ",nl" } else { "" }));
                if r.chance(3, 4) {
                    ops.push(format!("mkdir,{},{:o}", d, r.pick(&DMODES)));
                } else {
                    ops.push(format!("create,{},{:o}", d, r.pick(&FMODES)));
                }
                n += 3;
                continue;
            }
        }
        let k = r.below(100);
        let o = if k < 6 {
            format!("lookup,{}", rand_path(r, &known, 3))
        } else if k < 11 {
            format!("readdir,{}", if r.chance(1, 5) { String::new() } else { rand_path(r, &dirs, 2) })
        } else if k < 21 {
            format!("create,{},{:o}", child_path(r, &dirs, &known), r.pick(&FMODES))
        } else if k < 31 {
            format!("mkdir,{},{:o}", child_path(r, &dirs, &known), r.pick(&DMODES))
        } else if k < 34 {
            format!("mknod,{},{:o}", child_path(r, &dirs, &known), r.pick(&FMODES))
        } else if k < 38 {
            format!("symlink,{},{}", child_path(r, &dirs, &known), r.range(1, 9))
        } else if k < 43 {
            format!("link,{},{}", rand_path(r, &known, 3), child_path(r, &dirs, &known))
        } else if k < 55 {
            format!("unlink,{}{}", rand_path(r, &known, 3), if r.chance(1, 3) { ",nl" } else { "" })
        } else if k < 64 {
            format!("rmdir,{}{}", rand_path(r, &dirs, 3), if r.chance(1, 3) { ",nl" } else { "" })
        } else if k < 68 {
            format!("open,{},{}", rand_path(r, &known, 3), r.pick(&["r", "w", "rw", "wt", "wa", "rt", "ra"]))
        } else if k < 78 {
            let nch = r.range(1, 2);
            let data: Vec<String> = (0..nch).map(|_| r.range(100, 199).to_string()).collect();
            format!("write,{},{},{},{}", rand_path(r, &known, 3), r.pick(&["w", "rw", "wt", "wa"]), r.below(4), data.join("-"))
        } else if k < 81 {
            format!("read,{}", rand_path(r, &known, 3))
        } else if k < 83 {
            format!("readlink,{}", rand_path(r, &known, 3))
        } else if k < 89 {
            let p = rand_path(r, &known, 3);
            format!("chmod,{},{:o}{}", p, if r.chance(1, 2) { *r.pick(&DMODES) } else { *r.pick(&FMODES) }, if r.chance(1, 3) { ",h" } else { "" })
        } else if k < 92 {
            format!("truncate,{},{}", rand_path(r, &known, 3), r.below(4))
        } else if k < 96 {
            format!("setx,{},{}", rand_path(r, &known, 3), r.range(10, 19))
        } else if k < 98 {
            format!("rmx,{}", rand_path(r, &known, 3))
        } else {
            "walk".to_string()
        };
        // a second client reads the target while the request (and its copy-up) is in flight
        let o = if up && matches!(o.split(',').next().unwrap_or(""), "chmod" | "truncate" | "setx" | "rmx" | "open" | "write") && r.chance(1, 3) { format!("cup,{}", o) } else { o };
        let o_inner = o.strip_prefix("cup,").unwrap_or(&o).to_string();
        // names created by this history become interesting targets for later ops
        let f: Vec<&str> = o_inner.split(',').collect();
        if matches!(f[0], "create" | "mkdir" | "mknod" | "symlink") && !known.contains(&f[1].to_string()) {
            known.push(f[1].to_string());
            if f[0] == "mkdir" {
                dirs.push(f[1].to_string());
            }
        }
        if f[0] == "link" && !known.contains(&f[2].to_string()) {
            known.push(f[2].to_string());
        }
        ops.push(o);
        n += 1;
        if walk_every {
            ops.push("walk".into());
        }
    }
    if ops.last().map(|s| s.as_str()) != Some("walk") {
        ops.push("walk".into());
    }
    if up && r.chance(1, 3) && !known.is_empty() {
        // last of all: a removal whose first modification of the upper layer is refused
        let p = r.pick(&known).clone();
        // (no walk afterwards: the step compares the views itself, and where the refused call is
        // the whiteout creation the unchanged overlay has already unpublished the node — known
        // finding C10:failed-op:changed-view:*:create_whiteout)
        ops.push(format!("fail,{},{}", if dirs.contains(&p) { "rmdir" } else { "unlink" }, p));
    }
    let mut line = format!("up={} nl={}", if up { 1 } else { 0 }, nl);
    for (i, l) in layers.iter().enumerate() {
        if i == 0 && !up {
            line.push_str(" L0=-");
        } else {
            line.push_str(&format!(" L{}={}", i, host::show_layer(l)));
        }
    }
    line.push_str(&format!(" ops={}", ops.join(";")));
    line
}

fn main() {
    let a = args();
    let mut out = Out::new(a.get("out").map(|s| s.as_str()).unwrap_or("/verif/.work/ovl/out"));
    unsafe { libc::umask(0) };
    let root = format!("/verif/.work/ovl-tmp/{}", std::process::id());
    let _ = std::fs::remove_dir_all(&root);
    std::fs::create_dir_all(&root).unwrap();
    let prop = a.get("prop").cloned().unwrap_or_else(|| "C10".into());
    let lines: Vec<String> = if let Some(f) = a.get("cases") {
        std::fs::read_to_string(f).unwrap().lines().filter(|l| !l.trim().is_empty()).map(|s| s.to_string()).collect()
    } else {
        let seed: u64 = a.get("seed").and_then(|s| s.parse().ok()).unwrap_or(1);
        let n: u64 = a.get("n").and_then(|s| s.parse().ok()).unwrap_or(200);
        let mut r = Prng::new(seed ^ if prop == "C11" { 0x0c11 } else { 0x0c10 });
        (0..n).map(|_| gen_case(&mut r, &prop)).collect()
    };
    let threads: usize = a.get("threads").and_then(|s| s.parse().ok()).unwrap_or(8).max(1);
    let lines = Arc::new(lines);
    let results: Arc<Mutex<Vec<Option<CaseOut>>>> = Arc::new(Mutex::new((0..lines.len()).map(|_| None).collect()));
    let next = Arc::new(Mutex::new(0usize));
    let mut hs = Vec::new();
    for t in 0..threads {
        let (lines, results, next, root) = (lines.clone(), results.clone(), next.clone(), root.clone());
        hs.push(std::thread::spawn(move || loop {
            let i = {
                let mut g = next.lock().unwrap();
                let i = *g;
                *g += 1;
                i
            };
            if i >= lines.len() {
                break;
            }
            let base = format!("{}/t{}", root, t);
            fbrh::util::crumb(&lines[i]);
            let r = std::panic::catch_unwind(|| exec(&lines[i], &base)).unwrap_or_else(|_| CaseOut {
                line: "panic".into(),
                oracle: vec![serde_json::json!({"prop": "C10", "key": "C10:panic", "case": lines[i], "what": "the overlay (or the harness) panicked"})],
                stats: vec![],
                classes: vec![],
            });
            results.lock().unwrap()[i] = Some(r);
        }));
    }
    for h in hs {
        let _ = h.join();
    }
    let mut results = results.lock().unwrap();
    for (i, r) in results.iter_mut().enumerate() {
        let r = r.take().unwrap();
        for s in r.stats {
            out.stat(&s);
        }
        for c in r.classes {
            out.class(&c);
        }
        for o in r.oracle {
            writeln!(out.oracle, "{}", o).unwrap();
            out.n_oracle += 1;
        }
        out.case(&lines[i], &r.line);
    }
    let _ = std::fs::remove_dir_all(&root);
    out.finish();
}
