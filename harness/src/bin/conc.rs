//! `conc` engine (C09): schedule replay of concurrent `PassthroughFs::{lookup, forget}`.
//! Worker threads park at the `verif_yield(point)` calls of hook H1 (and at this harness's own
//! yield before `forget`, which stands for "before taking the write lock"); the scheduler
//! releases exactly one thread per step, following the schedule of the case line, and knows from
//! the parking points which thread holds the inode-map write lock (= the model's `enabled`).
//!
//! case=N cfg=hi:B fhm=B nf=K thr=<prog>|<prog>|... sched=t,t,...
//!   prog: `L<f>` lookup file f, `F<f>:<n>` forget the number learnt for f, `N<ino>:<n>` raw forget
use std::cell::RefCell;
use std::collections::BTreeMap;
use std::ffi::CString;
use std::io::Write as _;
use std::path::PathBuf;
use std::sync::{Arc, Condvar, Mutex};
use std::time::Duration;

use fbrh::prng::Prng;
use fbrh::util::{args, Out};
use fuse_backend_rs::api::filesystem::{Context, FileSystem, FsOptions};
use fuse_backend_rs::passthrough::{
    verif_set_yield, Config, PassthroughFs, VERIF_FO_ENTER, VERIF_FO_LOADED, VERIF_FO_ZERO, VERIF_F_PRELOCK, VERIF_L_HIT, VERIF_L_LOADED,
    VERIF_L_PRELOCK, VERIF_L_PROBE, VERIF_L_START,
};

#[derive(Clone, Debug, PartialEq)]
enum Op {
    Lookup(usize),
    ForgetFile(usize, u64),
    ForgetNum(u64, u64),
}

#[derive(Clone, Copy, PartialEq, Debug)]
enum TState {
    Running,
    Parked(u32),
    Done,
}

struct Inner {
    st: Vec<TState>,
    go: Vec<bool>,
    epoch: Vec<u64>,
    known: BTreeMap<usize, u64>,
    results: Vec<Vec<(usize, u64)>>,
}

struct Shared {
    m: Mutex<Inner>,
    cv: Condvar,
}

thread_local! {
    static ME: RefCell<Option<(usize, Arc<Shared>)>> = const { RefCell::new(None) };
}

fn park(point: u32) {
    let me = ME.with(|m| m.borrow().clone());
    let Some((tid, sh)) = me else { return };
    let mut g = sh.m.lock().unwrap();
    g.st[tid] = TState::Parked(point);
    g.epoch[tid] += 1;
    sh.cv.notify_all();
    while !g.go[tid] {
        g = sh.cv.wait(g).unwrap();
    }
    g.go[tid] = false;
    g.st[tid] = TState::Running;
}

fn point_name(p: u32) -> &'static str {
    match p {
        x if x == VERIF_L_START => "LS",
        x if x == VERIF_L_PROBE => "L0",
        x if x == VERIF_L_HIT => "L1",
        x if x == VERIF_L_LOADED => "L2",
        x if x == VERIF_L_PRELOCK => "L3",
        x if x == VERIF_F_PRELOCK => "F0",
        x if x == VERIF_FO_ENTER => "F1",
        x if x == VERIF_FO_LOADED => "F2",
        x if x == VERIF_FO_ZERO => "F3",
        _ => "??",
    }
}

fn holds_lock(s: TState) -> bool {
    matches!(s, TState::Parked(p) if p == VERIF_FO_ENTER || p == VERIF_FO_LOADED || p == VERIF_FO_ZERO)
}

fn needs_lock(s: TState) -> bool {
    matches!(s, TState::Parked(p) if p == VERIF_L_START || p == VERIF_L_PROBE || p == VERIF_L_PRELOCK || p == VERIF_F_PRELOCK)
}

fn enabled(g: &Inner, t: usize) -> bool {
    match g.st[t] {
        TState::Done | TState::Running => false,
        s => !(needs_lock(s) && g.st.iter().any(|x| holds_lock(*x))),
    }
}

fn parse_prog(s: &str) -> Vec<Op> {
    if s.is_empty() || s == "-" {
        return vec![];
    }
    s.split(',')
        .filter_map(|t| {
            let (k, r) = t.split_at(1);
            match k {
                "L" => Some(Op::Lookup(r.parse().ok()?)),
                "F" => {
                    let (a, b) = r.split_once(':')?;
                    Some(Op::ForgetFile(a.parse().ok()?, b.parse().ok()?))
                }
                "N" => {
                    let (a, b) = r.split_once(':')?;
                    Some(Op::ForgetNum(a.parse().ok()?, b.parse().ok()?))
                }
                _ => None,
            }
        })
        .collect()
}

fn show_prog(p: &[Op]) -> String {
    if p.is_empty() {
        return "-".into();
    }
    p.iter()
        .map(|o| match o {
            Op::Lookup(f) => format!("L{}", f),
            Op::ForgetFile(f, n) => format!("F{}:{}", f, n),
            Op::ForgetNum(i, n) => format!("N{}:{}", i, n),
        })
        .collect::<Vec<_>>()
        .join(",")
}

struct Case {
    hi: bool,
    fhm: bool,
    nf: usize,
    progs: Vec<Vec<Op>>,
    /// lock probe: after the schedule, release this thread although (by the parking points) it
    /// waits for the inode-map lock another thread holds, and see whether it really blocks
    probe: Option<usize>,
}

struct RunOut {
    line: String,
    /// the tids actually stepped (no skips), schedule part then drain part
    taken: Vec<usize>,
    /// at each step actually taken: the set of enabled threads before it
    choices: Vec<Vec<usize>>,
    findings: Vec<(String, String)>,
    deadlock: bool,
    /// after each step taken: per-thread paths so far + the threads blocked on the lock (probe points)
    blocked: Vec<(String, Vec<usize>)>,
}

const STEP_TIMEOUT: Duration = Duration::from_secs(60);
const PROBE_WAIT: Duration = Duration::from_millis(60);

/// replay one schedule; `sched` may contain disabled/finished thread ids (skipped, printed "-")
fn run_case(case: &Case, sched: &[usize], root: &PathBuf) -> RunOut {
    let _ = std::fs::remove_dir_all(root);
    std::fs::create_dir_all(root).unwrap();
    for f in 0..case.nf {
        std::fs::write(root.join(format!("f{}", f)), b"x").unwrap();
    }
    let cfg = Config {
        root_dir: root.to_str().unwrap().to_string(),
        inode_file_handles: case.fhm,
        use_host_ino: case.hi,
        do_import: true,
        ..Default::default()
    };
    let fs = Arc::new(PassthroughFs::<()>::new(cfg).unwrap());
    fs.init(FsOptions::empty()).unwrap();
    let n = case.progs.len();
    let sh = Arc::new(Shared {
        m: Mutex::new(Inner { st: vec![TState::Running; n], go: vec![false; n], epoch: vec![0; n], known: BTreeMap::new(), results: vec![vec![]; n] }),
        cv: Condvar::new(),
    });
    let mut joins = vec![];
    for (tid, prog) in case.progs.iter().cloned().enumerate() {
        let fs = fs.clone();
        let sh2 = sh.clone();
        joins.push(std::thread::spawn(move || {
            ME.with(|m| *m.borrow_mut() = Some((tid, sh2.clone())));
            let ctx = Context::default();
            for op in prog {
                match op {
                    Op::Lookup(f) => {
                        let name = CString::new(format!("f{}", f)).unwrap();
                        if let Ok(e) = fs.lookup(&ctx, 1, &name) {
                            let mut g = sh2.m.lock().unwrap();
                            g.known.insert(f, e.inode);
                            g.results[tid].push((f, e.inode));
                        }
                    }
                    Op::ForgetFile(f, cnt) => {
                        // "before taking the write lock": forget() takes it first thing
                        park(VERIF_F_PRELOCK);
                        let ino = sh2.m.lock().unwrap().known.get(&f).copied().unwrap_or(0);
                        fs.forget(&ctx, ino, cnt);
                    }
                    Op::ForgetNum(ino, cnt) => {
                        park(VERIF_F_PRELOCK);
                        fs.forget(&ctx, ino, cnt);
                    }
                }
            }
            let mut g = sh2.m.lock().unwrap();
            g.st[tid] = TState::Done;
            g.epoch[tid] += 1;
            sh2.cv.notify_all();
            ME.with(|m| *m.borrow_mut() = None);
        }));
    }
    let mut deadlock = false;
    // wait until every worker is parked at its first yield point (or done)
    {
        let mut g = sh.m.lock().unwrap();
        while g.st.iter().any(|s| *s == TState::Running) {
            let (g2, to) = sh.cv.wait_timeout(g, STEP_TIMEOUT).unwrap();
            g = g2;
            if to.timed_out() {
                deadlock = true;
                break;
            }
        }
    }
    let mut trace: Vec<String> = vec![];
    let mut seen: Vec<u64> = vec![];
    let mut taken = vec![];
    let mut choices = vec![];
    let mut blocked: Vec<(String, Vec<usize>)> = vec![];
    let mut paths: Vec<Vec<&'static str>> = vec![vec![]; n];
    let mut step = |t: usize, trace: &mut Vec<String>, seen: &mut Vec<u64>, deadlock: &mut bool| -> bool {
        let mut g = sh.m.lock().unwrap();
        if t >= n || !enabled(&g, t) {
            trace.push("-".into());
            return false;
        }
        choices.push((0..n).filter(|x| enabled(&g, *x)).collect::<Vec<_>>());
        taken.push(t);
        let e0 = g.epoch[t];
        let nres = g.results[t].len();
        g.go[t] = true;
        sh.cv.notify_all();
        while g.epoch[t] == e0 {
            let (g2, to) = sh.cv.wait_timeout(g, STEP_TIMEOUT).unwrap();
            g = g2;
            if to.timed_out() {
                *deadlock = true;
                trace.push("STUCK".into());
                return false;
            }
        }
        trace.push(match g.st[t] {
            TState::Parked(p) => point_name(p).to_string(),
            TState::Done => "D".into(),
            TState::Running => "R?".into(),
        });
        paths[t].push(match g.st[t] { TState::Parked(p) => point_name(p), TState::Done => "D", TState::Running => "R?" });
        let bl: Vec<usize> = (0..n).filter(|x| matches!(g.st[*x], TState::Parked(_)) && !enabled(&g, *x)).collect();
        blocked.push((paths.iter().map(|p| p.join(".")).collect::<Vec<_>>().join("|"), bl));
        if g.results[t].len() > nres {
            let ino = g.results[t].last().unwrap().1;
            if !seen.contains(&ino) {
                seen.push(ino);
            }
        }
        true
    };
    if !deadlock {
        for t in sched {
            step(*t, &mut trace, &mut seen, &mut deadlock);
            if deadlock {
                break;
            }
        }
    }
    // ---- lock probe + free completion (no lock assumption, no model trace)
    let mut probe_status: Option<String> = None;
    if let (Some(k), false) = (case.probe, deadlock) {
        let st = {
            let mut g = sh.m.lock().unwrap();
            if k >= n || g.st[k] == TState::Done {
                "done".to_string()
            } else if enabled(&g, k) {
                "enabled".to_string()
            } else {
                let e0 = g.epoch[k];
                g.go[k] = true;
                sh.cv.notify_all();
                let deadline = std::time::Instant::now() + PROBE_WAIT;
                while g.epoch[k] == e0 {
                    let now = std::time::Instant::now();
                    if now >= deadline {
                        break;
                    }
                    let (g2, _) = sh.cv.wait_timeout(g, deadline - now).unwrap();
                    g = g2;
                }
                if g.epoch[k] == e0 {
                    "held".to_string()
                } else {
                    format!("progress:{}", match g.st[k] { TState::Parked(p) => point_name(p), TState::Done => "D", TState::Running => "R?" })
                }
            }
        };
        probe_status = Some(st);
        // free completion: release whatever is parked; a thread that does not come back within
        // PROBE_WAIT is blocked on a real lock and comes back by itself later
        let t0 = std::time::Instant::now();
        let mut last = n - 1;
        loop {
            let mut g = sh.m.lock().unwrap();
            if g.st.iter().all(|s| *s == TState::Done) {
                break;
            }
            if t0.elapsed() > Duration::from_secs(20) {
                deadlock = true;
                break;
            }
            // round robin (a retry loop of one thread must not starve the thread it waits for)
            match (1..=n).map(|d| (last + d) % n).find(|t| matches!(g.st[*t], TState::Parked(_)) && !g.go[*t]) {
                Some(t) => {
                    last = t;
                    let e0 = g.epoch[t];
                    g.go[t] = true;
                    sh.cv.notify_all();
                    let deadline = std::time::Instant::now() + PROBE_WAIT;
                    while g.epoch[t] == e0 {
                        let now = std::time::Instant::now();
                        if now >= deadline {
                            break;
                        }
                        let (g2, _) = sh.cv.wait_timeout(g, deadline - now).unwrap();
                        g = g2;
                    }
                }
                None => {
                    let _ = sh.cv.wait_timeout(g, Duration::from_millis(20)).unwrap();
                }
            }
        }
    }
    // completion: lowest-numbered enabled thread first
    let mut order = vec![];
    while !deadlock && probe_status.is_none() {
        let next = {
            let g = sh.m.lock().unwrap();
            (0..n).find(|t| enabled(&g, *t))
        };
        match next {
            None => break,
            Some(t) => {
                order.push(t);
                step(t, &mut trace, &mut seen, &mut deadlock);
            }
        }
        if order.len() > 10000 {
            deadlock = true;
        }
    }
    let all_done = { sh.m.lock().unwrap().st.iter().all(|s| *s == TState::Done) };
    if !deadlock && all_done {
        for j in joins {
            let _ = j.join();
        }
    }
    let mut findings: Vec<(String, String)> = vec![];
    let idx = |seen: &Vec<u64>, v: u64| seen.iter().position(|x| *x == v).map(|i| format!("n{}", i)).unwrap_or_else(|| "?".into());
    let g = sh.m.lock().unwrap();
    let res: Vec<String> = (0..n).map(|t| format!("t{}:[{}]", t, g.results[t].iter().map(|(f, i)| format!("f{}>{}", f, idx(&seen, *i))).collect::<Vec<_>>().join(","))).collect();
    let sz = fs.verif_table_sizes();
    let ctx = Context::default();
    let mut fin = vec![];
    // ---- direct oracles (implementation alone): ledger of lookups / forgets per file
    let mut lookups = vec![0u64; case.nf];
    let mut forgets = vec![0u64; case.nf];
    let mut exact = true;
    for p in &case.progs {
        let mut own = vec![0i64; case.nf];
        for op in p {
            match op {
                Op::Lookup(f) => {
                    lookups[*f] += 1;
                    own[*f] += 1;
                }
                Op::ForgetFile(f, c) => {
                    forgets[*f] += c;
                    own[*f] -= *c as i64;
                    if own[*f] < 0 {
                        exact = false;
                    }
                }
                Op::ForgetNum(_, _) => exact = false,
            }
        }
    }
    let mut live_files = 0usize;
    for f in 0..case.nf {
        let nums: Vec<u64> = g.results.iter().flatten().filter(|r| r.0 == f).map(|r| r.1).collect();
        if nums.windows(2).any(|w| w[0] != w[1]) {
            findings.push(("C09:stale-number:lookups-disagree".into(), format!("completed lookups of file f{} returned different inode numbers", f)));
        }
        match g.known.get(&f) {
            None => fin.push(format!("f{}:-/0", f)),
            Some(ino) => {
                let mut c = 0u64;
                while c < 1000 && !matches!(fs.getattr(&ctx, *ino, None), Err(e) if e.raw_os_error() == Some(9)) {
                    fs.forget(&ctx, *ino, 1);
                    c += 1;
                }
                fin.push(format!("f{}:{}/{}", f, idx(&seen, *ino), c));
                if c > 0 {
                    live_files += 1;
                }
                if all_done && !deadlock {
                    let lower = lookups[f].saturating_sub(forgets[f]);
                    if c < lower {
                        findings.push((
                            if c == 0 { "C09:lost-reference:ebadf-while-held".into() } else { "C09:lost-reference:count-too-small".into() },
                            format!("file f{}: {} lookups, at most {} forgotten, but only {} references left", f, lookups[f], forgets[f], c),
                        ));
                    }
                    if c > lookups[f] || (exact && c != lower) {
                        findings.push(("C09:lost-decrement:count-too-large".into(), format!("file f{}: {} lookups, {} forgotten, {} references left", f, lookups[f], forgets[f], c)));
                    }
                }
            }
        }
    }
    if all_done && !deadlock && sz.0 != live_files + 1 {
        findings.push(("C09:duplicate-inode:table-size".into(), format!("{} inode objects for {} referenced files + root", sz.0, live_files)));
    }
    if deadlock {
        findings.push((format!("C09:deadlock:{}", g.st.iter().map(|s| match s { TState::Parked(p) => point_name(*p), TState::Done => "D", TState::Running => "RUN" }).collect::<Vec<_>>().join("+")), "a released thread neither reached its next yield point nor finished".into()));
    }
    drop(g);
    if let Some(ps) = &probe_status {
        let line = format!("tr={} probe={}", trace.join(","), ps);
        let _ = std::fs::remove_dir_all(root);
        return RunOut { line, taken, choices, findings, deadlock, blocked };
    }
    let line = format!(
        "tr={} res={} fin={} sz={},{} drain={} done={}",
        trace.join(","),
        res.join(";"),
        fin.join(","),
        sz.0,
        sz.1,
        order.iter().map(|x| x.to_string()).collect::<Vec<_>>().join(","),
        if all_done { 1 } else { 0 }
    );
    let _ = std::fs::remove_dir_all(root);
    RunOut { line, taken, choices, findings, deadlock, blocked }
}

fn case_line(id: usize, case: &Case, sched: &[usize]) -> String {
    format!(
        "case={} cfg=hi:{} fhm={} nf={} thr={} sched={}{}",
        id,
        case.hi as u8,
        case.fhm as u8,
        case.nf,
        case.progs.iter().map(|p| show_prog(p)).collect::<Vec<_>>().join("|"),
        sched.iter().map(|x| x.to_string()).collect::<Vec<_>>().join(","),
        match case.probe { Some(k) => format!(" probe={}", k), None => String::new() }
    )
}

fn parse_case(line: &str) -> (String, Case, Vec<usize>) {
    let mut id = "0".to_string();
    let mut c = Case { hi: false, fhm: false, nf: 2, progs: vec![], probe: None };
    let mut sched = vec![];
    for t in line.split(' ') {
        if let Some(v) = t.strip_prefix("case=") {
            id = v.into();
        } else if let Some(v) = t.strip_prefix("cfg=") {
            c.hi = v == "hi:1";
        } else if let Some(v) = t.strip_prefix("fhm=") {
            c.fhm = v == "1";
        } else if let Some(v) = t.strip_prefix("nf=") {
            c.nf = v.parse().unwrap_or(2);
        } else if let Some(v) = t.strip_prefix("thr=") {
            c.progs = v.split('|').map(parse_prog).collect();
        } else if let Some(v) = t.strip_prefix("sched=") {
            sched = v.split(',').filter_map(|x| x.parse().ok()).collect();
        } else if let Some(v) = t.strip_prefix("probe=") {
            c.probe = v.parse().ok();
        }
    }
    (id, c, sched)
}

thread_local! { static PROP: std::cell::RefCell<String> = std::cell::RefCell::new("C09".into()); }

fn emit(out: &mut Out, line: &str, r: &RunOut) {
    for (k, what) in &r.findings {
        // run for C08 (a history of requests may be a concurrent one) the same findings are
        // reported under C08:conc:*
        let prop = PROP.with(|p| p.borrow().clone());
        let k = if prop == "C08" { k.replacen("C09:", "C08:conc:", 1) } else { k.clone() };
        let v = serde_json::json!({"prop": prop, "key": k, "case": line, "what": what});
        writeln!(out.oracle, "{}", v).unwrap();
        out.n_oracle += 1;
    }
    out.case(line, &r.line);
    // behaviour class: the multiset of points visited
    let tr = r.line.split(' ').next().unwrap_or("");
    let mut pts: Vec<&str> = tr.trim_start_matches("tr=").split(',').collect();
    pts.sort();
    pts.dedup();
    out.class(&pts.join("+"));
    for p in pts {
        out.stat(&format!("point:{}", p));
    }
    if r.deadlock {
        out.stat("deadlock");
    }
}

fn main() {
    let a = args();
    if let Some(p) = a.get("prop") {
        if p == "C08" {
            PROP.with(|x| *x.borrow_mut() = p.clone());
        }
    }
    let mut out = Out::new(a.get("out").map(|s| s.as_str()).unwrap_or("/verif/.work/conc"));
    let tmp = PathBuf::from(format!("/verif/.work/conc-tmp/{}", std::process::id()));
    let _ = std::fs::remove_dir_all(&tmp);
    std::fs::create_dir_all(&tmp).unwrap();
    verif_set_yield(Some(Arc::new(park)));
    let root = tmp.join("r");
    if let Some(f) = a.get("cases") {
        for line in std::fs::read_to_string(f).unwrap().lines() {
            fbrh::util::crumb(line);
            if line.trim().is_empty() {
                continue;
            }
            let (_id, c, sched) = parse_case(line);
            let r = run_case(&c, &sched, &root);
            emit(&mut out, line, &r);
        }
        out.finish();
        let _ = std::fs::remove_dir_all(&tmp);
        return;
    }
    let seed: u64 = a.get("seed").and_then(|s| s.parse().ok()).unwrap_or(1);
    let n: usize = a.get("n").and_then(|s| s.parse().ok()).unwrap_or(500);
    let exhaustive: usize = a.get("exhaustive").and_then(|s| s.parse().ok()).unwrap_or(0);
    let maxsched: usize = a.get("maxsched").and_then(|s| s.parse().ok()).unwrap_or(200000);
    let mut r = Prng::new(seed ^ 0x636f_6e63);
    let mut id = 0usize;
    // ---- random programs, random schedules (including skipped choices)
    for k in 0..n {
        let nt = 2 + r.below(2) as usize;
        let nf = 1 + r.below(2) as usize;
        let mut progs = vec![];
        for _ in 0..nt {
            let len = 1 + r.below(3) as usize;
            let mut p = vec![];
            for _ in 0..len {
                let f = r.below(nf as u64) as usize;
                p.push(match r.below(10) {
                    0..=5 => Op::Lookup(f),
                    6..=8 => Op::ForgetFile(f, 1 + r.below(2)),
                    _ => Op::ForgetNum(if r.chance(1, 2) { 1 } else { 77 }, 1),
                });
            }
            progs.push(p);
        }
        let case = Case { hi: k % 2 == 1, fhm: k % 4 >= 2, nf, progs, probe: None };
        let sl = r.below(40) as usize;
        let sched: Vec<usize> = (0..sl)
            .map(|_| {
                let extra = if r.chance(1, 10) { 1 } else { 0 };
                r.below(nt as u64 + extra) as usize
            })
            .collect();
        id += 1;
        let line = case_line(id, &case, &sched);
        out.stat(&format!("threads:{}", nt));
        out.stat(&format!("cfg:hi{}fh{}", case.hi as u8, case.fhm as u8));
        let ro = run_case(&case, &sched, &root);
        emit(&mut out, &line, &ro);
    }
    // ---- exhaustive: ALL schedules (sequences of enabled choices until every thread is done)
    if exhaustive > 0 {
        let sets: Vec<(&str, Vec<Vec<Op>>)> = vec![
            ("lookup||lookup", vec![vec![Op::Lookup(0)], vec![Op::Lookup(0)]]),
            ("lookup||forget", vec![vec![Op::Lookup(0), Op::Lookup(0)], vec![Op::ForgetFile(0, 1)]]),
            ("lookup;forget||lookup", vec![vec![Op::Lookup(0), Op::ForgetFile(0, 1)], vec![Op::Lookup(0)]]),
            ("lookup||lookup||forget", vec![vec![Op::Lookup(0)], vec![Op::Lookup(0)], vec![Op::ForgetFile(0, 1)]]),
            ("lookup;forget||lookup;forget", vec![vec![Op::Lookup(0), Op::ForgetFile(0, 1)], vec![Op::Lookup(0), Op::ForgetFile(0, 1)]]),
            ("lookup;forget||lookup||forget", vec![vec![Op::Lookup(0), Op::ForgetFile(0, 1)], vec![Op::Lookup(0)], vec![Op::ForgetFile(0, 2)]]),
            ("lookup;forget||lookup;forget||lookup", vec![vec![Op::Lookup(0), Op::ForgetFile(0, 1)], vec![Op::Lookup(0), Op::ForgetFile(0, 1)], vec![Op::Lookup(0)]]),
        ];
        let maxprobes: usize = a.get("probes").and_then(|s| s.parse().ok()).unwrap_or(120);
        let mut probe_sigs: std::collections::BTreeSet<String> = Default::default();
        let mut probes: Vec<(Case, Vec<usize>)> = vec![];
        for (si, (name, progs)) in sets.into_iter().enumerate() {
            if si >= exhaustive {
                break;
            }
            for hi in [false, true] {
                let case = Case { hi, fhm: false, nf: 1, progs: progs.clone(), probe: None };
                // stateless DFS over enabled choices
                let mut prefix: Vec<usize> = vec![];
                let mut count = 0usize;
                loop {
                    let mut ro = run_case(&case, &prefix, &root);
                    // the case line carries the complete choice sequence, so nothing is left to drain
                    if let (Some(i), Some(j)) = (ro.line.find(" drain="), ro.line.find(" done=")) {
                        ro.line.replace_range(i..j, " drain=");
                    }
                    id += 1;
                    count += 1;
                    let line = case_line(id, &case, &ro.taken);
                    emit(&mut out, &line, &ro);
                    out.stat(&format!("exhaustive:{}:hi{}", name, hi as u8));
                    // lock-probe points: states (per-thread paths) in which a thread waits for the lock
                    for (k, (sig, bl)) in ro.blocked.iter().enumerate() {
                        for b in bl {
                            if probe_sigs.insert(format!("{}:{}:{}#{}", si, hi as u8, sig, b)) && probes.len() < maxprobes * 50 {
                                probes.push((Case { hi, fhm: false, nf: 1, progs: progs.clone(), probe: Some(*b) }, ro.taken[..=k].to_vec()));
                            }
                        }
                    }
                    // next schedule: the longest prefix of `taken` whose last choice can be raised
                    let mut k = ro.taken.len();
                    let mut next: Option<Vec<usize>> = None;
                    while k > 0 {
                        k -= 1;
                        let cur = ro.taken[k];
                        if let Some(alt) = ro.choices[k].iter().find(|x| **x > cur) {
                            let mut p = ro.taken[..k].to_vec();
                            p.push(*alt);
                            next = Some(p);
                            break;
                        }
                    }
                    match next {
                        Some(p) if count < maxsched && !ro.deadlock => prefix = p,
                        Some(_) => {
                            out.stat(&format!("exhaustive-truncated:{}", name));
                            break;
                        }
                        None => {
                            out.stat(&format!("exhaustive-complete:{}:hi{}", name, hi as u8));
                            break;
                        }
                    }
                }
            }
        }
            // ---- lock probes: the scheduler's knowledge of who holds the inode-map lock (from the
        // parking points) is itself checked: a thread that waits for the lock is released anyway
        // and must not move while the holder is parked inside its critical section.  The model
        // answers `held` for the same state.  The run is then completed without any lock
        // assumption and judged by the ledger oracles.
        // evenly spread over the collected points
        let stride = std::cmp::max(1, probes.len() / std::cmp::max(1, maxprobes));
        for (pi, (case, sched)) in probes.iter().enumerate() {
            if pi % stride != 0 {
                continue;
            }
            id += 1;
            let line = case_line(id, case, sched);
            fbrh::util::crumb(&line);
            let ro = run_case(case, sched, &root);
            out.stat(&format!("lock-probe:{}", ro.line.rsplit("probe=").next().unwrap_or("?").split(':').next().unwrap_or("?")));
            emit(&mut out, &line, &ro);
        }
}
    out.finish();
    let _ = std::fs::remove_dir_all(&tmp);
}
