//! `ptseal` engine (C18): a real `PassthroughFs` with `seal_size: true` over a fresh directory
//! of files of assorted sizes, driven with OPEN / CREATE / WRITE / SETATTR / FALLOCATE /
//! RELEASE histories whose flag words cover every combination of
//! O_APPEND|O_TRUNC|O_CREAT|O_EXCL|O_DIRECT|O_RDWR|O_WRONLY and every fallocate mode word.
//! Direct oracles: the size of every pre-existing file after every request; an unsealed twin
//! export receives every request that stays within the current sizes and must answer the same.
use std::collections::HashMap;
use std::ffi::CString;
use std::io;
use std::os::unix::fs::MetadataExt;
use std::panic::{catch_unwind, AssertUnwindSafe};

use fbrh::prng::Prng;
use fbrh::util::{args, Out};
use fuse_backend_rs::abi::fuse_abi::{stat64, CreateIn};
use fuse_backend_rs::api::filesystem::{Context, FileSystem, FsOptions, SetattrValid, ZeroCopyReader};
use fuse_backend_rs::file_buf::FileVolatileSlice;
use fuse_backend_rs::file_traits::FileReadWriteVolatile;
use fuse_backend_rs::passthrough::{CachePolicy, Config, PassthroughFs};

const O_BITS: [i32; 7] = [libc::O_WRONLY, libc::O_RDWR, libc::O_CREAT, libc::O_EXCL, libc::O_TRUNC, libc::O_APPEND, libc::O_DIRECT];

fn combo(i: u64) -> u32 {
    let mut w = 0i32;
    for (b, bit) in O_BITS.iter().enumerate() {
        if i >> b & 1 == 1 {
            w |= bit;
        }
    }
    w as u32
}

/// page-aligned data source (O_DIRECT wants aligned memory)
struct Src {
    ptr: *mut u8,
    len: usize,
}
impl Src {
    fn new(len: usize) -> Src {
        let l = std::alloc::Layout::from_size_align(len.max(4096), 4096).unwrap();
        let ptr = unsafe { std::alloc::alloc_zeroed(l) };
        unsafe { std::ptr::write_bytes(ptr, 0x5a, len.max(4096)) };
        Src { ptr, len: len.max(4096) }
    }
}
impl Drop for Src {
    fn drop(&mut self) {
        unsafe { std::alloc::dealloc(self.ptr, std::alloc::Layout::from_size_align(self.len, 4096).unwrap()) }
    }
}
impl io::Read for Src {
    fn read(&mut self, b: &mut [u8]) -> io::Result<usize> {
        let n = b.len().min(self.len);
        b[..n].fill(0x5a);
        Ok(n)
    }
}
impl ZeroCopyReader for Src {
    fn read_to(&mut self, f: &mut dyn FileReadWriteVolatile, count: usize, off: u64) -> io::Result<usize> {
        let n = count.min(self.len);
        let s = unsafe { FileVolatileSlice::from_raw_ptr(self.ptr, n) };
        f.write_at_volatile(s, off)
    }
}

struct Tmp(String);
impl Drop for Tmp {
    fn drop(&mut self) {
        let _ = std::fs::remove_dir_all(&self.0);
    }
}

const SIZES: [u64; 10] = [0, 1, 100, 511, 512, 4096, 8192, 12293, 65536, 1024];

fn mk_export(dir: &str, sizes: &[u64]) {
    std::fs::create_dir_all(dir).unwrap();
    for (i, s) in sizes.iter().enumerate() {
        std::fs::write(format!("{}/f{}", dir, i), vec![0x41u8; *s as usize]).unwrap();
    }
}

/// this case runs with the writeback cache configured and negotiated (`wb=1` in the case line)
static WB: std::sync::atomic::AtomicBool = std::sync::atomic::AtomicBool::new(false);
fn wb() -> bool {
    WB.load(std::sync::atomic::Ordering::Relaxed)
}
/// this case runs the backend as it is deployed behind a Vfs (`do_import = false`, `uv=1`)
static UV: std::sync::atomic::AtomicBool = std::sync::atomic::AtomicBool::new(false);
fn uv() -> bool {
    UV.load(std::sync::atomic::Ordering::Relaxed)
}

fn mk_fs(dir: &str, seal: bool, no_open: bool, adio: bool, second_session: bool) -> PassthroughFs<()> {
    let cfg = Config {
        root_dir: dir.to_string(),
        seal_size: seal,
        writeback: wb(),
        do_import: !uv(),
        no_open,
        allow_direct_io: adio,
        cache_policy: CachePolicy::Always,
        ..Default::default()
    };
    let fs = PassthroughFs::<()>::new(cfg).unwrap();
    fs.import().unwrap();
    let mut cap = FsOptions::ASYNC_READ;
    if no_open {
        cap |= FsOptions::ZERO_MESSAGE_OPEN;
    }
    if wb() {
        cap |= FsOptions::WRITEBACK_CACHE;
    }
    fs.init(cap).unwrap();
    if second_session {
        // the client went away and came back (guest reboot / remount): DESTROY, then INIT again on
        // the same server object; the export must be sealed in the second session as in the first
        fs.destroy();
        fs.init(cap).unwrap();
    }
    fs
}

fn errno(e: &io::Error) -> i32 {
    e.raw_os_error().unwrap_or(-1)
}

/// one export with its file system and the client-side bookkeeping
struct Side {
    dir: String,
    fs: PassthroughFs<()>,
    inodes: HashMap<usize, u64>, // file index -> inode
    opened: Vec<u64>,            // k-th handle (0 = placeholder)
    hfile: Vec<usize>,           // file of the k-th handle
    hflags: Vec<u32>,            // flag word stored with the handle (open flags, then the last differing request word)
    happ: Vec<bool>,             // is the handle's descriptor in append mode (by the open / F_SETFL history)?
}

impl Side {
    fn new(dir: &str, sizes: &[u64], seal: bool, no_open: bool, adio: bool, second_session: bool) -> Side {
        mk_export(dir, sizes);
        let fs = mk_fs(dir, seal, no_open, adio, second_session);
        let mut inodes = HashMap::new();
        let ctx = Context::default();
        for i in 0..sizes.len() {
            let e = fs.lookup(&ctx, 1, &CString::new(format!("f{}", i)).unwrap()).unwrap();
            inodes.insert(i, e.inode);
        }
        Side { dir: dir.to_string(), fs, inodes, opened: vec![], hfile: vec![], hflags: vec![], happ: vec![] }
    }
    fn handle(&self, k: usize) -> u64 {
        if k == 0 { 0 } else { self.opened.get(k - 1).copied().unwrap_or(0) }
    }
    fn size(&self, i: usize) -> u64 {
        std::fs::metadata(format!("{}/f{}", self.dir, i)).map(|m| m.size()).unwrap_or(u64::MAX)
    }
    /// execute one op; returns the canonical result string ("ok", "ok:<n>", "e<errno>", "panic")
    fn exec(&mut self, op: &str, nfiles: usize, no_open: bool) -> String {
        let p: Vec<&str> = op.split(':').collect();
        let n = |s: &str| -> u64 { s.parse().unwrap_or(0) };
        let ctx = Context::default();
        let f = n(p.get(1).copied().unwrap_or("0")) as usize;
        let ino = self.inodes.get(&f).copied();
        let r = catch_unwind(AssertUnwindSafe(|| -> String {
            match p[0] {
                "op" => {
                    let Some(ino) = ino else { return "skip".into() };
                    match self.fs.open(&ctx, ino, n(p[2]) as u32, 0) {
                        Ok((h, _, _)) => {
                            self.opened.push(h.unwrap_or(0));
                            self.hfile.push(f);
                            self.hflags.push(n(p[2]) as u32);
                            // with the writeback cache the descriptor is opened without O_APPEND
                            self.happ.push(n(p[2]) as i32 & libc::O_APPEND != 0 && !wb());
                            "ok".into()
                        }
                        Err(e) => format!("e{}", errno(&e)),
                    }
                }
                "cr" => {
                    let name = if f < nfiles { format!("f{}", f) } else { format!("n{}", f) };
                    let args = CreateIn { flags: n(p[2]) as u32, mode: 0o644, umask: 0, fuse_flags: 0 };
                    match self.fs.create(&ctx, 1, &CString::new(name).unwrap(), args) {
                        Ok((e, h, _, _)) => {
                            self.inodes.insert(f, e.inode);
                            if !no_open {
                                self.opened.push(h.unwrap_or(0));
                                self.hfile.push(f);
                                self.hflags.push(n(p[2]) as u32);
                                self.happ.push(n(p[2]) as i32 & libc::O_APPEND != 0 && !wb());
                            }
                            "ok".into()
                        }
                        Err(e) => format!("e{}", errno(&e)),
                    }
                }
                "wr" => {
                    let Some(ino) = ino else { return "skip".into() };
                    let len = n(p[4]);
                    let mut src = Src::new(len as usize);
                    // the client's FUSE_WRITE_CACHE hint varies with the request (it must not matter)
                    let cache_hint = (len ^ n(p[5]) ^ n(p[3])) & 1 == 1;
                    match self.fs.write(&ctx, ino, self.handle(n(p[2]) as usize), &mut src, len as u32, n(p[5]), None, cache_hint, n(p[3]) as u32, cache_hint as u32) {
                        Ok(c) => format!("ok:{}", c),
                        Err(e) => format!("e{}", errno(&e)),
                    }
                }
                "sa" => {
                    let Some(ino) = ino else { return "skip".into() };
                    let h = if p[2] == "-" { None } else { Some(self.handle(n(p[2]) as usize)) };
                    let mut valid = SetattrValid::empty();
                    if p[3].contains('s') {
                        valid |= SetattrValid::SIZE;
                    }
                    if p[3].contains('m') {
                        valid |= SetattrValid::MODE;
                    }
                    let mut st: stat64 = unsafe { std::mem::zeroed() };
                    st.st_size = n(p[4]) as i64;
                    st.st_mode = 0o644;
                    match self.fs.setattr(&ctx, ino, st, h, valid) {
                        Ok(_) => "ok:0".into(),
                        Err(e) => format!("e{}", errno(&e)),
                    }
                }
                "fa" => {
                    let Some(ino) = ino else { return "skip".into() };
                    match self.fs.fallocate(&ctx, ino, self.handle(n(p[2]) as usize), n(p[3]) as u32, n(p[4]), n(p[5])) {
                        Ok(()) => "ok:0".into(),
                        Err(e) => format!("e{}", errno(&e)),
                    }
                }
                "rl" => {
                    let Some(ino) = ino else { return "skip".into() };
                    match self.fs.release(&ctx, ino, 0, self.handle(n(p[2]) as usize), false, false, None) {
                        Ok(()) => "ok:0".into(),
                        Err(e) => format!("e{}", errno(&e)),
                    }
                }
                _ => "bad-op".into(),
            }
        }));
        r.unwrap_or_else(|_| "panic".into())
    }
}

/// does the request stay within the current sizes (the specification's reading, independent of
/// the code and of the model)?
fn within(op: &str, sizes: &[u64], exists: &dyn Fn(usize) -> bool, append: bool) -> bool {
    let p: Vec<&str> = op.split(':').collect();
    let n = |s: &str| -> u128 { s.parse().unwrap_or(0) };
    let f = n(p[1]) as usize;
    let fsize = sizes.get(f).copied().unwrap_or(0) as u128;
    match p[0] {
        "op" => n(p[2]) as i32 & libc::O_TRUNC == 0,
        "cr" => {
            let fl = n(p[2]) as i32;
            !(exists(f) && fl & libc::O_TRUNC != 0 && fl & libc::O_EXCL == 0)
        }
        "wr" => {
            let start = if append { fsize } else { n(p[5]) };
            start + n(p[4]) <= fsize
        }
        "sa" => !p[3].contains('s'),
        "fa" => {
            let mode = n(p[3]) as i32;
            let o = mode & !(libc::FALLOC_FL_KEEP_SIZE | libc::FALLOC_FL_UNSHARE_RANGE);
            (o == 0 || o == libc::FALLOC_FL_PUNCH_HOLE || o == libc::FALLOC_FL_ZERO_RANGE) && n(p[4]) + n(p[5]) <= fsize
        }
        _ => true,
    }
}

fn oracle_key(op: &str) -> String {
    let p: Vec<&str> = op.split(':').collect();
    let n = |s: &str| -> u64 { s.parse().unwrap_or(0) };
    match p[0] {
        "wr" => if n(p[3]) as i32 & libc::O_APPEND != 0 { "C18:write:O_APPEND".into() } else { "C18:write:offset".into() },
        "op" => if n(p[2]) as i32 & libc::O_TRUNC != 0 { "C18:open:O_TRUNC".into() } else { "C18:open:other".into() },
        "cr" => if n(p[2]) as i32 & libc::O_TRUNC != 0 { "C18:create:O_TRUNC".into() } else { "C18:create:other".into() },
        "fa" => format!("C18:fallocate:{}", n(p[3])),
        "sa" => "C18:setattr:size".into(),
        x => format!("C18:{}", x),
    }
}

struct Probe {
    dio: u64,
    fal: String, // mode:errnoW:errnoR,...
}

fn probe(tmp: &str) -> Probe {
    let p = format!("{}/probe", tmp);
    std::fs::create_dir_all(&p).unwrap();
    let path = CString::new(format!("{}/x", p)).unwrap();
    let reset = || std::fs::write(format!("{}/x", p), vec![0u8; 16384]).unwrap();
    reset();
    // O_DIRECT alignment
    let src = Src::new(8192);
    let mut dio = 0u64;
    unsafe {
        let fd = libc::open(path.as_ptr(), libc::O_WRONLY | libc::O_DIRECT);
        if fd >= 0 {
            if libc::pwrite64(fd, src.ptr as *const libc::c_void, 10, 1) < 0 {
                for a in [512u64, 1024, 2048, 4096] {
                    if libc::pwrite64(fd, src.ptr as *const libc::c_void, a as usize, a as i64) == a as isize {
                        dio = a;
                        break;
                    }
                }
            }
            libc::close(fd);
        }
    }
    let mut fal = Vec::new();
    for mode in 0..256i32 {
        let mut e = [0i32; 2];
        for (j, acc) in [libc::O_WRONLY, libc::O_RDONLY].iter().enumerate() {
            reset();
            unsafe {
                let fd = libc::open(path.as_ptr(), *acc);
                let r = libc::fallocate64(fd, mode, 4096, 4096);
                if r != 0 {
                    e[j] = io::Error::last_os_error().raw_os_error().unwrap_or(-1);
                }
                libc::close(fd);
            }
        }
        fal.push(format!("{}:{}:{}", mode, e[0], e[1]));
    }
    let _ = std::fs::remove_dir_all(&p);
    Probe { dio, fal: fal.join(",") }
}

#[allow(clippy::too_many_arguments)]
fn run_case(out: &mut Out, tmp: &str, id: u64, pr: &Probe, seal: bool, no_open: bool, adio: bool, re: bool, sizes: &[u64],
            gen: Option<(&mut Prng, u64)>, ops_in: Option<Vec<String>>) {
    let dir = format!("{}/c{}", tmp, id);
    let mut a = Side::new(&format!("{}/a", dir), sizes, seal, no_open, adio, re);
    let mut twin = if seal { Some(Side::new(&format!("{}/t", dir), sizes, false, no_open, adio, re)) } else { None };
    let nfiles = sizes.len();
    let mut ops: Vec<String> = Vec::new();
    let mut outs: Vec<String> = Vec::new();
    let mut oracle: Vec<(String, String)> = Vec::new();
    let mut cur: Vec<u64> = sizes.to_vec();
    let mut created: Vec<usize> = Vec::new();
    let mut nhandles = 0usize;
    let mut step = |op: String, a: &mut Side, twin: &mut Option<Side>, outs: &mut Vec<String>, ops: &mut Vec<String>, cur: &mut Vec<u64>, created: &mut Vec<usize>, nhandles: &mut usize| {
        let exists = |f: usize| f < nfiles || a.inodes.contains_key(&f);
        // append mode of the descriptor this WRITE lands on: the request's flag word is applied
        // with F_SETFL when it differs from the word stored with the handle (before the seal
        // check); otherwise the descriptor is as it was opened / last set.  A fresh descriptor
        // (no_open, or no such handle) takes the word's O_APPEND.
        let mut append = false;
        {
            let p: Vec<&str> = op.split(':').collect();
            if p[0] == "wr" {
                let word: u32 = p[3].parse().unwrap_or(0);
                let f: usize = p[1].parse().unwrap_or(0);
                let k: usize = p[2].parse().unwrap_or(0);
                append = word as i32 & libc::O_APPEND != 0;
                if !no_open && k >= 1 && k <= a.hflags.len() && a.hfile.get(k - 1).copied() == Some(f) && a.opened.get(k - 1).copied().unwrap_or(0) != 0 {
                    if word != a.hflags[k - 1] {
                        a.hflags[k - 1] = word;
                        a.happ[k - 1] = append;
                    } else {
                        append = a.happ[k - 1];
                    }
                }
            }
        }
        let w = within(&op, cur, &exists, append);
        let before_handles = a.opened.len();
        // breadcrumb: the history up to and including this request, should the process die in it
        fbrh::util::crumb(&format!("seal={} no={} adio={} re={} wb={} uv={} dio={} files={} fal={} ops={}{}{}", seal as u8, no_open as u8, adio as u8, re as u8, wb() as u8, uv() as u8, pr.dio,
            sizes.iter().map(|s| s.to_string()).collect::<Vec<_>>().join(","), pr.fal, ops.join(";"), if ops.is_empty() { "" } else { ";" }, op));
        let r = a.exec(&op, nfiles, no_open);
        if r == "skip" {
            return;
        }
        let kind = op.split(':').next().unwrap_or("").to_string();
        if kind == "cr" && r == "ok" {
            let f: usize = op.split(':').nth(1).unwrap().parse().unwrap();
            if f >= nfiles && !created.contains(&f) {
                created.push(f);
            }
        }
        *nhandles = a.opened.len();
        // sizes of the pre-existing files
        let mut s = r.clone();
        for i in 0..nfiles {
            let now = a.size(i);
            if now != cur[i] {
                s.push_str(&format!("~{}={}", i, now));
                if seal {
                    oracle.push((oracle_key(&op), format!("request {} changed the size of pre-existing file f{}: {} -> {}", op, i, cur[i], now)));
                }
                cur[i] = now;
            }
        }
        if r == "panic" {
            oracle.push((format!("C18:panic:{}", kind), format!("request {} panicked", op)));
        }
        // the unsealed twin sees exactly the requests that stay within the sizes
        if let Some(t) = twin.as_mut() {
            if w {
                let rt = t.exec(&op, nfiles, no_open);
                if rt != r {
                    oracle.push((format!("C18:within-size-differs:{}", kind), format!("request {} stays within the sizes but answers {} sealed and {} unsealed", op, r, rt)));
                }
                // keep the handle tables aligned
                while t.opened.len() < a.opened.len() {
                    t.opened.push(0);
                }
                while a.opened.len() < t.opened.len() {
                    a.opened.push(0);
                    a.hfile.push(usize::MAX);
                    a.hflags.push(0);
                    a.happ.push(false);
                }
            } else {
                if !r.starts_with('e') && r != "panic" {
                    oracle.push((format!("C18:not-refused:{}", kind), format!("request {} reaches beyond the current size / sets a size but was answered {}", op, r)));
                }
                if a.opened.len() > before_handles {
                    t.opened.push(0);
                }
            }
        }
        outs.push(s);
        ops.push(op);
    };
    if let Some(list) = ops_in {
        for op in list {
            step(op, &mut a, &mut twin, &mut outs, &mut ops, &mut cur, &mut created, &mut nhandles);
        }
    } else if let Some((r, theme)) = gen {
        let nops = 24 + r.below(30);
        const MODES: [u64; 22] = [0, 1, 2, 3, 16, 17, 18, 19, 8, 9, 32, 33, 40, 64, 65, 66, 67, 80, 81, 4, 128, 255];
        for j in 0..nops {
            // mostly address a file through one of its own handles
            let nh = a.opened.len();
            let (f, k): (usize, u64) = if nh > 0 && !no_open && r.chance(5, 6) {
                let k = 1 + r.below(nh as u64);
                match a.hfile.get(k as usize - 1).copied() {
                    Some(f) => (f, k),
                    None => (r.below(nfiles as u64) as usize, k),
                }
            } else {
                (r.below(nfiles as u64) as usize, r.below(3))
            };
            let fsz = if f < nfiles { cur[f] } else { 0 };
            let flags = |r: &mut Prng| -> u32 { if r.chance(1, 3) { combo(theme) } else { combo(r.below(128)) } };
            let offs = [0u64, fsz.saturating_sub(1), fsz, fsz + 1, 1u64 << 63, u64::MAX, 512, 4096, fsz / 2, 0, 0];
            let x = if j < 3 { j * 20 } else { r.below(100) };
            let op = if x < 18 {
                format!("op:{}:{}", r.below(nfiles as u64), flags(r))
            } else if x < 28 {
                let tgt = if r.chance(1, 3) { nfiles + r.below(3) as usize } else { r.below(nfiles as u64) as usize };
                format!("cr:{}:{}", tgt, flags(r))
            } else if x < 62 {
                let off = *r.pick(&offs);
                let room = fsz.saturating_sub(off.min(fsz));
                let len = *r.pick(&[0u64, 1, 10, 512, 4096, room, room, room + 1, room.saturating_sub(1)]);
                // the request's flag word: often the handle's own (no F_SETFL), else anything
                let fl = if r.chance(1, 2) { a.hflags.get((k as usize).wrapping_sub(1)).copied().unwrap_or_else(|| flags(r)) } else { flags(r) };
                format!("wr:{}:{}:{}:{}:{}", f, k, fl, len.min(1 << 20), off)
            } else if x < 70 {
                let v = *r.pick(&["s", "m", "sm", "s", ""]);
                let h = if r.chance(1, 2) { "-".to_string() } else { k.to_string() };
                format!("sa:{}:{}:{}:{}", f, h, v, *r.pick(&[0u64, fsz, fsz + 1, fsz.saturating_sub(1), 1 << 20]))
            } else if x < 95 {
                if fsz > 0 && r.chance(2, 5) {
                    // a request inside the file with a mode the seal check lets through
                    let off = r.below(fsz);
                    let len = 1 + r.below(fsz - off);
                    format!("fa:{}:{}:{}:{}:{}", f, k, *r.pick(&[0u64, 1, 3, 16, 17, 2, 64, 65]), off, len)
                } else {
                    let mode = match r.below(4) { 0 => (theme * 2 + j) % 256, 1 => r.below(256), _ => *r.pick(&MODES) };
                    let off = *r.pick(&offs);
                    let room = fsz.saturating_sub(off.min(fsz));
                    let len = *r.pick(&[0u64, 1, 4096, room, room, room + 1, 1u64 << 63, u64::MAX, 512, room / 2]);
                    format!("fa:{}:{}:{}:{}:{}", f, k, mode, off, len)
                }
            } else {
                format!("rl:{}:{}", f, k)
            };
            step(op, &mut a, &mut twin, &mut outs, &mut ops, &mut cur, &mut created, &mut nhandles);
        }
    }
    let szs: Vec<String> = sizes.iter().map(|s| s.to_string()).collect();
    let line = format!("seal={} no={} adio={} re={} wb={} uv={} dio={} files={} fal={} ops={}", seal as u8, no_open as u8, adio as u8, re as u8, wb() as u8, uv() as u8, pr.dio, szs.join(","), pr.fal, ops.join(";"));
    let mut seen = std::collections::HashSet::new();
    for (key, what) in &oracle {
        if seen.insert(key.clone()) {
            let v = serde_json::json!({"prop": "C18", "key": key, "case": line, "what": what});
            use std::io::Write;
            writeln!(out.oracle, "{}", v).unwrap();
            out.n_oracle += 1;
        }
    }
    out.stat(&format!("seal:{}", seal as u8));
    out.stat(&format!("no_open:{}", no_open as u8));
    out.stat(&format!("writeback:{}", wb() as u8));
    for (op, o) in ops.iter().zip(outs.iter()) {
        let p: Vec<&str> = op.split(':').collect();
        let res = if o.starts_with("ok") { "ok" } else { o.split('~').next().unwrap_or("") };
        out.stat(&format!("op:{}:{}", p[0], res));
        let detail = match p[0] {
            "op" | "cr" => p[2].to_string(),
            "wr" => p[3].to_string(),
            "fa" => p[3].to_string(),
            _ => String::new(),
        };
        out.class(&format!("{}|{}|{}|{}|{}", seal, no_open, p[0], detail, res));
    }
    out.case(&line, &outs.join(";"));
    drop(a);
    drop(twin);
    let _ = std::fs::remove_dir_all(&dir);
}

fn main() {
    let a = args();
    let mut out = Out::new(a.get("out").map(|s| s.as_str()).unwrap_or("/verif/.work/ptseal/out"));
    if std::env::var("FBR_DEBUG").is_err() {
        std::panic::set_hook(Box::new(|_| {}));
    }
    let seed: u64 = a.get("seed").and_then(|s| s.parse().ok()).unwrap_or(1);
    let thorough = a.get("tier").map(|s| s == "thorough").unwrap_or(false);
    let n: u64 = a.get("n").and_then(|s| s.parse().ok()).unwrap_or(if thorough { 12000 } else { 512 });
    let tmp = Tmp(format!("/verif/.work/ptseal-tmp/{}", std::process::id()));
    std::fs::create_dir_all(&tmp.0).unwrap();
    let pr = probe(&tmp.0);
    if let Some(f) = a.get("cases") {
        for (i, line) in std::fs::read_to_string(f).unwrap().lines().enumerate() {
            fbrh::util::crumb(line);
            if line.trim().is_empty() {
                continue;
            }
            let kv: HashMap<&str, &str> = line.split(' ').filter_map(|t| t.split_once('=')).collect();
            let sizes: Vec<u64> = kv.get("files").copied().unwrap_or("").split(',').filter_map(|s| s.parse().ok()).collect();
            let ops: Vec<String> = kv.get("ops").copied().unwrap_or("").split(';').filter(|s| !s.is_empty()).map(|s| s.to_string()).collect();
            WB.store(kv.get("wb").copied() == Some("1"), std::sync::atomic::Ordering::Relaxed);
            UV.store(kv.get("uv").copied() == Some("1"), std::sync::atomic::Ordering::Relaxed);
            run_case(&mut out, &tmp.0, i as u64, &pr, kv.get("seal").copied() != Some("0"), kv.get("no").copied() == Some("1"),
                     kv.get("adio").copied() != Some("0"), kv.get("re").copied() == Some("1"), &sizes, None, Some(ops));
        }
        out.finish();
        return;
    }
    let mut r = Prng::new(seed ^ 0xC18);
    for i in 0..n {
        let seal = i % 8 != 7; // one case in eight runs unsealed: validates the host laws of the model
        let no_open = i % 4 == 1;
        let adio = i % 16 != 5;
        // one case in six: writeback cache configured and negotiated (descriptors are opened
        // without O_APPEND and read-write; check_fd_flags may put O_APPEND back)
        WB.store(i % 6 == 2, std::sync::atomic::Ordering::Relaxed);
        // one case in seven: the backend as deployed behind a Vfs (the seal is the backend's job there too)
        UV.store(i % 7 == 4, std::sync::atomic::Ordering::Relaxed);
        let k = 3 + r.below(4) as usize;
        let sizes: Vec<u64> = (0..k).map(|_| *r.pick(&SIZES)).collect();
        // one case in five runs in the client's second session (INIT, DESTROY, INIT on the same server)
        run_case(&mut out, &tmp.0, i, &pr, seal, no_open, adio, i % 5 == 3, &sizes, Some((&mut r, i % 128)), None);
    }
    out.finish();
}
