//! `pthost` engine (C05, C06): the passthrough file system as a transducer
//! request -> host system calls -> reply, checked three ways (DESIGN §6 C05/C06):
//!  (a) model vs implementation: every request of a history is run through the real
//!      `PassthroughFs` with a system-call recorder on; the case line carries the requests and the
//!      host's answer to every call; the Lean driver replays the model on those answers and must
//!      print the same calls (descriptors, names, flags, modes, credential switches) and replies;
//!  (b) implementation vs host oracle: the same requests as plain system calls on a shadow
//!      directory; replies, trees, thread credentials and owners compared (direct oracles);
//!  (c) C06: the export sits inside a sentinel tree which is snapshotted around every request;
//!      no descriptor or attribute may denote a sentinel object; bad names must be rejected before
//!      any host call; the same through a `Vfs` with logging backends (`--stage vfs`).
#[path = "../pthost/canon.rs"]
mod canon;
#[path = "../pthost/hook.rs"]
mod hook;
#[path = "../pthost/imp.rs"]
mod imp;
#[path = "../pthost/ops.rs"]
mod ops;
#[path = "../pthost/shadow.rs"]
mod shadow;
#[path = "../pthost/tree.rs"]
mod tree;
#[path = "../pthost/vfsstage.rs"]
mod vfsstage;

use std::collections::{BTreeSet, HashMap};
use std::io::Write as _;

use fbrh::prng::Prng;
use fbrh::util::{args, Out};

use canon::Canon;
use ops::{Op, Ref, Reply};
use shadow::{name_kind, Cfg, Shadow};
use tree::{Dirs, Spec};

/// run for C12 ("a feature is in effect only if negotiated") the C05 oracles report under C12:pt:*
static FOR_C12: std::sync::atomic::AtomicBool = std::sync::atomic::AtomicBool::new(false);

pub fn oracle(out: &mut Out, prop: &str, key: String, case: &str, what: String) {
    let (prop, key) = if prop == "C05" && FOR_C12.load(std::sync::atomic::Ordering::Relaxed) {
        ("C12", key.replacen("C05:", "C12:pt:", 1))
    } else {
        (prop, key)
    };
    let v = serde_json::json!({"prop": prop, "key": key, "case": case, "what": what});
    writeln!(out.oracle, "{}", v).unwrap();
    out.n_oracle += 1;
}

fn cap_fsetid_effective() -> bool {
    let mut hdr = [0x2008_0522u32, 0u32];
    let mut data = [0u32; 6];
    let rc = unsafe { libc::syscall(libc::SYS_capget, hdr.as_mut_ptr(), data.as_mut_ptr()) };
    rc == 0 && (data[0] >> 4) & 1 == 1
}

fn creds_now() -> (u32, u32, bool) {
    unsafe { (libc::geteuid(), libc::getegid(), cap_fsetid_effective()) }
}

fn restore_creds() {
    unsafe {
        libc::syscall(libc::SYS_setresuid, -1i32, 0u32, -1i32);
        libc::syscall(libc::SYS_setresgid, -1i32, 0u32, -1i32);
    }
}

const O_ACC: [i32; 3] = [libc::O_RDONLY, libc::O_WRONLY, libc::O_RDWR];

struct World {
    inos: Vec<u64>,
    modes: HashMap<u64, u32>,
    refs: HashMap<u64, u64>,
    handles: Vec<u64>,
    /// handle -> (inode, is_dir, open flags, still open)
    hinfo: HashMap<u64, (u64, bool, u32, bool)>,
}

impl World {
    fn new() -> World {
        let mut w = World { inos: vec![1], modes: HashMap::new(), refs: HashMap::new(), handles: vec![], hinfo: HashMap::new() };
        w.modes.insert(1, libc::S_IFDIR | 0o755);
        w.refs.insert(1, 2);
        w
    }
    fn iname(&self, ino: u64) -> String {
        match self.inos.iter().position(|x| *x == ino) {
            Some(k) => format!("i{}", k),
            None => format!("i?{}", ino),
        }
    }
    fn hname(&self, h: u64) -> String {
        match self.handles.iter().position(|x| *x == h) {
            Some(k) => format!("h{}", k),
            None => format!("h?{}", h),
        }
    }
    fn learn(&mut self, op: &Op, r: &Reply, inos: &[u64]) {
        match r {
            Reply::Entry { ino, attr, .. } | Reply::Created { ino, attr, .. } => {
                if !self.inos.contains(ino) {
                    self.inos.push(*ino);
                }
                self.modes.insert(*ino, attr.mode);
                *self.refs.entry(*ino).or_insert(0) += 1;
            }
            _ => {}
        }
        match (op, r) {
            (Op::Open { ino, flags, .. }, Reply::Open { handle: Some(h), .. }) => {
                self.handles.push(*h);
                self.hinfo.insert(*h, (Shadow::resolve(ino, inos), false, *flags, true));
            }
            (Op::Opendir { ino, flags }, Reply::Open { handle: Some(h), .. }) => {
                self.handles.push(*h);
                self.hinfo.insert(*h, (Shadow::resolve(ino, inos), true, *flags | libc::O_DIRECTORY as u32, true));
            }
            (Op::Create { flags, .. }, Reply::Created { ino, handle: Some(h), .. }) => {
                self.handles.push(*h);
                self.hinfo.insert(*h, (*ino, false, *flags, true));
            }
            (Op::Forget { ino, count }, _) => {
                let i = Shadow::resolve(ino, inos);
                if i != 1 {
                    if let Some(c) = self.refs.get_mut(&i) {
                        *c = c.saturating_sub(*count & !ops::VIA_BATCH);
                    }
                }
            }
            (Op::Release { handle, .. }, Reply::Unit) | (Op::Releasedir { handle, .. }, Reply::Unit) => {
                let h = Shadow::resolve(handle, &self.handles);
                if let Some(x) = self.hinfo.get_mut(&h) {
                    x.3 = false;
                }
            }
            _ => {}
        }
    }
}

struct Gen<'a> {
    r: &'a mut Prng,
    adversarial: bool,
    sent_abs: String,
    /// the backend sits behind a VFS (`do_import = false`): names that the VFS refuses
    /// (".", "..", anything with '/') never reach it
    vfs_filtered: bool,
}

impl<'a> Gen<'a> {
    fn name(&mut self) -> Vec<u8> {
        let r = &mut *self.r;
        let adv = if self.adversarial { 40 } else { 6 };
        let hostile = r.below(100) < adv;
        if self.vfs_filtered && hostile {
            let long = vec![b'x'; 300];
            let c: Vec<&[u8]> = vec![b"...", b"..a", &long, b"hl"];
            r.pick(&c).to_vec()
        } else if hostile {
            let long = vec![b'x'; 300];
            let c: Vec<&[u8]> = vec![b".", b"..", b"a/b", b"/", b"../secret", b"..//", b"a/", b"", b"...", b"..a", b"./a", b"sib/s1", b"/etc/passwd", &long, b"hl"];
            r.pick(&c).to_vec()
        } else if r.chance(1, 30) {
            b"hl".to_vec()
        } else {
            tree::NAMES[r.below(6) as usize].as_bytes().to_vec()
        }
    }
    fn idx_where(&mut self, w: &World, tainted: &[u64], f: impl Fn(u32) -> bool) -> Option<usize> {
        let c: Vec<usize> = (0..w.inos.len())
            .filter(|k| {
                let i = w.inos[*k];
                w.refs.get(&i).copied().unwrap_or(0) > 0 && f(w.modes.get(&i).copied().unwrap_or(0)) && !tainted.contains(&i)
            })
            .collect();
        if c.is_empty() {
            None
        } else {
            Some(*self.r.pick(&c))
        }
    }
    fn any_ino(&mut self, w: &World, tainted: &[u64]) -> Ref {
        let r = &mut *self.r;
        match r.below(100) {
            0..=1 => Ref::Raw(*r.pick(&[0u64, 2, 77, u64::MAX, 1 << 47, (1 << 56) + 1])),
            2..=4 => {
                // possibly stale (forgotten) inode
                let c: Vec<usize> = (0..w.inos.len()).filter(|k| !tainted.contains(&w.inos[*k])).collect();
                Ref::Idx(*r.pick(&c))
            }
            _ => Ref::Idx(self.idx_where(w, tainted, |_| true).unwrap_or(0)),
        }
    }
    fn dir_ino(&mut self, w: &World, tainted: &[u64]) -> Ref {
        if self.r.below(100) < 88 {
            Ref::Idx(self.idx_where(w, tainted, |m| m & libc::S_IFMT == libc::S_IFDIR).unwrap_or(0))
        } else {
            self.any_ino(w, tainted)
        }
    }
    fn file_ino(&mut self, w: &World, tainted: &[u64]) -> Ref {
        if self.r.below(100) < 75 {
            match self.idx_where(w, tainted, |m| m & libc::S_IFMT == libc::S_IFREG) {
                Some(k) => Ref::Idx(k),
                None => self.any_ino(w, tainted),
            }
        } else {
            self.any_ino(w, tainted)
        }
    }
    fn ids(&mut self) -> (u32, u32) {
        let r = &mut *self.r;
        (*r.pick(&[0u32, 1000, 1000, 1001]), *r.pick(&[0u32, 1000, 1000, 1001]))
    }
    fn open_flags(&mut self) -> u32 {
        let r = &mut *self.r;
        let mut f = *r.pick(&O_ACC);
        for (bit, pct) in [
            (libc::O_APPEND, 25), (libc::O_TRUNC, 10), (libc::O_NONBLOCK, 10), (libc::O_NOFOLLOW, 10), (libc::O_CREAT, 6),
            (libc::O_NOATIME, 5), (libc::O_DIRECT, 4), (libc::O_DIRECTORY, 2), (libc::O_SYNC, 3), (libc::O_EXCL, 0),
        ] {
            if (r.below(100) as i32) < pct {
                f |= bit;
            }
        }
        f as u32
    }
    /// an open handle (index), its inode and flags; or a bogus / released one
    fn handle(&mut self, w: &World, want_dir: bool) -> (Ref, Ref, u32) {
        let live: Vec<usize> = (0..w.handles.len())
            .filter(|k| {
                let x = w.hinfo[&w.handles[*k]];
                x.3 && x.1 == want_dir
            })
            .collect();
        let r = &mut *self.r;
        if !live.is_empty() && r.below(100) < 88 {
            let k = *r.pick(&live);
            let x = w.hinfo[&w.handles[k]];
            let ino = w.inos.iter().position(|i| *i == x.0).map(Ref::Idx).unwrap_or(Ref::Raw(x.0));
            // now and then the inode of the request does not match the handle
            let ino = if r.chance(1, 25) { Ref::Idx(0) } else { ino };
            (ino, Ref::Idx(k), x.2)
        } else if !w.handles.is_empty() && r.chance(1, 2) {
            let k = r.below(w.handles.len() as u64) as usize;
            let x = w.hinfo[&w.handles[k]];
            let ino = w.inos.iter().position(|i| *i == x.0).map(Ref::Idx).unwrap_or(Ref::Raw(x.0));
            (ino, Ref::Idx(k), x.2)
        } else {
            // a handle number that was never handed out (0 = what a zero-message-open client
            // sends), on the root or on a regular file
            let h = Ref::Raw(*r.pick(&[0u64, 0, 1, 99]));
            let reg = if want_dir { None } else { self.idx_where(w, &[], |m| m & libc::S_IFMT == libc::S_IFREG) };
            match reg {
                Some(k) if self.r.chance(2, 3) => (Ref::Idx(k), h, libc::O_RDWR as u32),
                _ => (Ref::Idx(0), h, 0),
            }
        }
    }

    fn op(&mut self, w: &World, tainted: &[u64], cfg: &Cfg) -> Op {
        let table: [(&str, u64); 29] = [
            ("lookup", 16), ("forget", 3), ("getattr", 5), ("setattr", 9), ("readlink", 3), ("symlink", 5), ("mknod", 4),
            ("mkdir", 6), ("unlink", 5), ("rmdir", 3), ("rename", 7), ("link", 4), ("open", 8), ("opendir", 2), ("create", 8),
            ("read", 6), ("write", 8), ("flush", 1), ("fsync", 2), ("fsyncdir", 1), ("release", 3), ("releasedir", 1),
            ("fallocate", 3), ("lseek", 3), ("statfs", 1), ("setxattr", 3), ("getxattr", 2), ("listxattr", 2), ("removexattr", 1),
        ];
        let total: u64 = table.iter().map(|x| x.1).sum();
        let mut pick = self.r.below(total);
        let mut kind = "lookup";
        for (k, wgt) in table.iter() {
            if pick < *wgt {
                kind = k;
                break;
            }
            pick -= wgt;
        }
        // with no_open most I/O requests arrive with handle 0
        let io_ref = |g: &mut Gen, w: &World| -> (Ref, Ref, u32) {
            if cfg.no_open {
                let f = g.open_flags() & !(libc::O_TRUNC | libc::O_CREAT | libc::O_DIRECT | libc::O_DIRECTORY | libc::O_NOFOLLOW) as u32;
                (g.file_ino(w, tainted), Ref::Raw(0), f)
            } else {
                g.handle(w, false)
            }
        };
        match kind {
            "lookup" => Op::Lookup { parent: self.dir_ino(w, tainted), name: self.name() },
            "forget" => {
                // a third of the forgets arrive in a BATCH_FORGET; the root is a target like any other
                let via = if self.r.chance(1, 3) { ops::VIA_BATCH } else { 0 };
                let ino = if self.r.chance(1, 6) { Ref::Raw(1) } else { self.any_ino(w, tainted) };
                Op::Forget { ino, count: *self.r.pick(&[1u64, 1, 1, 2, 100]) | via }
            }
            "getattr" => {
                let use_h = self.r.chance(1, 3);
                if use_h && !cfg.no_open {
                    let (i, h, _) = self.handle(w, false);
                    Op::Getattr { ino: i, handle: Some(h) }
                } else if use_h {
                    // zero-message open: fstat(2) on an open file arrives with FUSE_GETATTR_FH and fh 0
                    Op::Getattr { ino: self.any_ino(w, tainted), handle: Some(Ref::Raw(0)) }
                } else {
                    Op::Getattr { ino: self.any_ino(w, tainted), handle: None }
                }
            }
            "setattr" => {
                let use_h = self.r.chance(1, 3);
                let (ino, handle) = if use_h && !cfg.no_open {
                    let (i, h, _) = self.handle(w, false);
                    (i, Some(h))
                } else if use_h {
                    // zero-message open: ftruncate/fchmod/futimens arrive with FATTR_FH and fh 0
                    (self.any_ino(w, tainted), Some(Ref::Raw(0)))
                } else {
                    (self.any_ino(w, tainted), None)
                };
                let r = &mut *self.r;
                let mut valid = 0u32;
                for (bit, pct) in [(1u32, 35), (2, 25), (4, 25), (8, 30), (16, 25), (32, 25), (128, 12), (256, 12), (2048, 10)] {
                    if r.below(100) < pct {
                        valid |= bit;
                    }
                }
                if valid == 0 {
                    valid = *r.pick(&[1u32, 2, 4, 8, 16, 32]);
                }
                Op::Setattr {
                    ino, handle, valid,
                    mode: *r.pick(&[0o644u32, 0o600, 0o755, 0o4755, 0o2711, 0o777, 0o000, 0o1777, 0o6755]),
                    uid: *r.pick(&[0u32, 1000, 1001, 7]),
                    gid: *r.pick(&[0u32, 1000, 1001, 7]),
                    size: *r.pick(&[0u64, 1, 5, 100, 4096, 10000]),
                    atime: r.range(1000, 900_000_000) as i64,
                    atimens: r.below(1_000_000_000) as i64,
                    mtime: r.range(1000, 900_000_000) as i64,
                    mtimens: r.below(1_000_000_000) as i64,
                }
            }
            "readlink" => {
                let i = match self.idx_where(w, tainted, |m| m & libc::S_IFMT == libc::S_IFLNK) {
                    Some(k) if self.r.chance(4, 5) => Ref::Idx(k),
                    _ => self.any_ino(w, tainted),
                };
                Op::Readlink { ino: i }
            }
            "symlink" => {
                let (uid, gid) = self.ids();
                let t: Vec<u8> = if self.adversarial && self.r.chance(2, 3) {
                    let s = self.sent_abs.clone();
                    let c = [format!("{}/secret", s), "../secret".into(), "../sib".into(), "..".into(), "../../sent/secret".into(), format!("{}/sib/s1", s), "/".into()];
                    self.r.pick(&c).clone().into_bytes()
                } else if self.r.chance(1, 12) {
                    // long targets, up to PATH_MAX - 1 (the readlink buffer's growth path)
                    let n = *self.r.pick(&[255usize, 256, 257, 1000, 3839, 3840, 3841, 4000, 4094, 4095]);
                    (0..n).map(|i| if i % 7 == 6 { b'/' } else { b'a' + (i % 23) as u8 }).collect()
                } else {
                    let c: [&[u8]; 6] = [b"a", b"b", b"nonexistent", b".", b"a/a", b"f"];
                    self.r.pick(&c).to_vec()
                };
                Op::Symlink { uid, gid, target: t, parent: self.dir_ino(w, tainted), name: self.name() }
            }
            "mknod" => {
                let (uid, gid) = self.ids();
                let r = &mut *self.r;
                let ty = *r.pick(&[libc::S_IFREG, libc::S_IFREG, libc::S_IFIFO, libc::S_IFIFO, libc::S_IFCHR, libc::S_IFSOCK]);
                let mode = ty | *r.pick(&[0o644u32, 0o600, 0o666, 0o777, 0o4755]);
                let rdev = if ty == libc::S_IFCHR { *r.pick(&[libc::makedev(1, 3) as u32, libc::makedev(240, 256) as u32, libc::makedev(7, 0xabc) as u32, libc::makedev(300, 0x1ff) as u32]) } else { 0 };
                let umask = *r.pick(&[0u32, 0o022, 0o077, 0o027]);
                Op::Mknod { uid, gid, parent: self.dir_ino(w, tainted), name: self.name(), mode, rdev, umask }
            }
            "mkdir" => {
                let (uid, gid) = self.ids();
                let r = &mut *self.r;
                let mode = *r.pick(&[0o755u32, 0o777, 0o700, 0o2775, 0o1777]);
                let umask = *r.pick(&[0u32, 0o022, 0o077, 0o027]);
                Op::Mkdir { uid, gid, parent: self.dir_ino(w, tainted), name: self.name(), mode, umask }
            }
            "unlink" => Op::Unlink { parent: self.dir_ino(w, tainted), name: self.name() },
            "rmdir" => Op::Rmdir { parent: self.dir_ino(w, tainted), name: self.name() },
            "rename" => {
                let flags = *self.r.pick(&[0u32, 0, 0, 0, 1, 2, 3, 4, 8]);
                Op::Rename { odir: self.dir_ino(w, tainted), oname: self.name(), ndir: self.dir_ino(w, tainted), nname: self.name(), flags }
            }
            "link" => Op::Link { ino: self.any_ino(w, tainted), newparent: self.dir_ino(w, tainted), newname: self.name() },
            "open" => {
                // the kernel strips O_CREAT/O_EXCL from FUSE_OPEN; the re-open through /proc strips
                // O_CREAT again, open_by_handle_at (inode_file_handles) receives the flags as sent
                let mut flags = self.open_flags();
                if cfg.inode_file_handles {
                    flags &= !(libc::O_CREAT as u32);
                }
                Op::Open { ino: self.file_ino(w, tainted), flags, fuse_flags: self.r.below(2) as u32 }
            }
            "opendir" => Op::Opendir { ino: self.dir_ino(w, tainted), flags: (libc::O_RDONLY | if self.r.chance(1, 4) { libc::O_NONBLOCK } else { 0 }) as u32 },
            "create" => {
                let (uid, gid) = self.ids();
                let mut flags = self.open_flags() & !(libc::O_DIRECTORY as u32);
                if self.r.chance(1, 5) {
                    flags |= libc::O_EXCL as u32;
                }
                // the kernel's FUSE_CREATE carries the caller's O_CREAT
                if self.r.chance(17, 20) {
                    flags |= libc::O_CREAT as u32;
                }
                let parent = self.dir_ino(w, tainted);
                let name = self.name();
                let r = &mut *self.r;
                Op::Create {
                    uid, gid, parent, name, flags,
                    mode: *r.pick(&[0o644u32, 0o600, 0o666, 0o444, 0o4755, 0o2755, 0o100644]),
                    umask: *r.pick(&[0u32, 0o022, 0o077, 0o7022]),
                    fuse_flags: r.below(2) as u32,
                }
            }
            "read" => {
                let (ino, handle, fl) = io_ref(self, w);
                let r = &mut *self.r;
                let flags = if r.chance(1, 6) { fl ^ libc::O_NONBLOCK as u32 } else { fl };
                Op::Read { ino, handle, size: *r.pick(&[0u32, 1, 5, 100, 4096, 8192]), offset: *r.pick(&[0u64, 0, 1, 3, 100, 5000]), flags }
            }
            "write" => {
                let (ino, handle, fl) = io_ref(self, w);
                let r = &mut *self.r;
                let flags = if r.chance(1, 6) { fl ^ libc::O_APPEND as u32 } else { fl };
                let n = *r.pick(&[0usize, 1, 3, 17, 100]);
                Op::Write { ino, handle, data: r.bytes(n), offset: *r.pick(&[0u64, 0, 1, 3, 100, 5000]), flags, fuse_flags: *r.pick(&[0u32, 0, 4]) }
            }
            "flush" => {
                let (ino, handle, _) = self.handle(w, false);
                Op::Flush { ino, handle }
            }
            "fsync" => {
                let (ino, handle, _) = io_ref(self, w);
                Op::Fsync { ino, handle, datasync: self.r.chance(1, 2) }
            }
            "fsyncdir" => {
                let (ino, handle, _) = if cfg.no_opendir { (self.dir_ino(w, tainted), Ref::Raw(0), 0) } else { self.handle(w, true) };
                Op::Fsyncdir { ino, handle, datasync: self.r.chance(1, 2) }
            }
            "release" => {
                let (ino, handle, _) = self.handle(w, false);
                Op::Release { ino, handle }
            }
            "releasedir" => {
                let (ino, handle, _) = self.handle(w, true);
                Op::Releasedir { ino, handle }
            }
            "fallocate" => {
                let (ino, handle, _) = io_ref(self, w);
                let r = &mut *self.r;
                Op::Fallocate { ino, handle, mode: *r.pick(&[0u32, 0, 1, 3, 0x10, 0x08]), offset: *r.pick(&[0u64, 1, 100, 4096]), length: *r.pick(&[0u64, 1, 10, 4096, 10000]) }
            }
            "lseek" => {
                let (ino, handle, _) = self.handle(w, false);
                let r = &mut *self.r;
                Op::Lseek { ino, handle, offset: *r.pick(&[0u64, 1, 5, 100, 5000]), whence: *r.pick(&[0u32, 1, 2, 3, 4, 9]) }
            }
            "statfs" => Op::Statfs { ino: self.any_ino(w, tainted) },
            "setxattr" => {
                let r = &mut *self.r;
                let n: &[u8] = *r.pick(&[&b"user.a"[..], b"user.b", b"trusted.t", b"bogus"]);
                let k = *r.pick(&[0usize, 1, 8, 64]);
                let v = r.bytes(k);
                let flags = *r.pick(&[0u32, 0, 1, 2]);
                Op::Setxattr { ino: self.any_ino(w, tainted), name: n.to_vec(), value: v, flags }
            }
            "getxattr" => {
                let r = &mut *self.r;
                let n: &[u8] = *r.pick(&[&b"user.a"[..], b"user.b", b"trusted.t", b"user.none"]);
                let size = *r.pick(&[0u32, 1, 8, 64, 256]);
                Op::Getxattr { ino: self.any_ino(w, tainted), name: n.to_vec(), size }
            }
            "listxattr" => {
                let size = *self.r.pick(&[0u32, 1, 8, 64, 256]);
                Op::Listxattr { ino: self.any_ino(w, tainted), size }
            }
            _ => {
                let r = &mut *self.r;
                let n: &[u8] = *r.pick(&[&b"user.a"[..], b"user.b", b"trusted.t", b"user.none"]);
                Op::Removexattr { ino: self.any_ino(w, tainted), name: n.to_vec() }
            }
        }
    }
}

fn is_mutator(op: &Op) -> bool {
    !matches!(
        op,
        Op::Lookup { .. } | Op::Forget { .. } | Op::Getattr { .. } | Op::Readlink { .. } | Op::Read { .. } | Op::Flush { .. } | Op::Fsync { .. }
            | Op::Fsyncdir { .. } | Op::Release { .. } | Op::Releasedir { .. } | Op::Lseek { .. } | Op::Statfs { .. } | Op::Getxattr { .. }
            | Op::Listxattr { .. }
    )
}

/// names an operation takes, with the role they play
fn names_of(op: &Op) -> Vec<(&'static str, &Vec<u8>)> {
    match op {
        Op::Lookup { name, .. } => vec![("lookup", name)],
        Op::Symlink { name, .. } | Op::Mknod { name, .. } | Op::Mkdir { name, .. } | Op::Unlink { name, .. } | Op::Rmdir { name, .. }
        | Op::Create { name, .. } => vec![("mutator", name)],
        Op::Link { newname, .. } => vec![("mutator", newname)],
        Op::Rename { oname, nname, .. } => vec![("mutator", oname), ("mutator", nname)],
        _ => vec![],
    }
}

struct HistoryOut {
    case_line: String,
    impl_line: String,
}

/// Run one history.  `ops`: Some = replay exactly these; None = generate `len` requests.
#[allow(clippy::too_many_arguments)]
fn run_history(
    base: &str,
    cfg: &Cfg,
    spec: &Spec,
    replay: Option<&[Op]>,
    len: usize,
    g: &mut Gen,
    out: &mut Out,
    prop: &str,
) -> HistoryOut {
    let dirs: Dirs = tree::make_dirs(base, spec);
    let sent0 = tree::sentinel(&dirs);
    let mut canon = Canon { use_host_ino: cfg.use_host_ino, sent_abs: dirs.sent.as_bytes().to_vec(), ..Default::default() };
    let head = format!("cfg={} init={}", cfg.show(), spec.show());
    let imp = match imp::Imp::new(cfg, &dirs.export) {
        Ok(i) => i,
        Err(e) => {
            return HistoryOut { case_line: format!("{} root=none ops=", head), impl_line: format!("init-failed:{:?}", e.raw_os_error()) };
        }
    };
    canon.proc_fd = imp.proc_fd as i64;
    // the descriptors / objects created during new + import + init
    let mut root_fd = String::from("?");
    let mut root_obj = 0usize;
    let mut root_mode = 0i64;
    let mut root_handle: Option<usize> = None;
    for e in &imp.init_trace {
        let (call, ans) = canon.ev(e);
        if e.name == "openat" && e.s[0] == dirs.export.as_bytes() && e.ret >= 0 {
            let p: Vec<&str> = ans[1..].split('.').collect();
            root_fd = p[0].to_string();
            root_obj = p[1].parse().unwrap_or(0);
        }
        if e.name == "statx" && e.ret >= 0 && e.res.len() >= 3 && call.starts_with(&format!("statx(f{},", root_fd)) {
            root_mode = e.res[2];
        }
        if e.name == "name_to_handle_at" && e.ret >= 0 {
            root_handle = canon.last_handle;
        }
    }
    let head = format!("{} root={}.{}.{}.{}", head, root_fd, root_obj, root_mode, root_handle.map(|h| h.to_string()).unwrap_or_else(|| "-".into()));
    let mut sh = Shadow::new(&dirs.shadow, cfg.clone());
    let mut w = World::new();
    let mut case_ops: Vec<String> = Vec::new();
    let mut impl_ops: Vec<String> = Vec::new();
    let n_ops = replay.map(|o| o.len()).unwrap_or(len);
    let mut creds_ok = true;
    for k in 0..n_ops {
        let op = match replay {
            Some(o) => o[k].clone(),
            None => g.op(&w, &sh.tainted, &sh.cfg),
        };
        let kind = op.kind();
        out.stat(&format!("op:{}", kind));
        let sent_before = if is_mutator(&op) || k == 0 { Some(tree::sentinel(&dirs)) } else { None };
        let before = creds_now();
        // `{SENT}` in a symlink target stands for the absolute path of the sentinel tree
        let xop = match &op {
            Op::Symlink { uid, gid, target, parent, name } => Op::Symlink {
                uid: *uid, gid: *gid, target: canon::expand(target, dirs.sent.as_bytes()), parent: parent.clone(), name: name.clone(),
            },
            o => o.clone(),
        };
        // breadcrumb: the history so far and the request about to run (its host answers unknown yet)
        fbrh::util::crumb(&format!("{} ops={}{}{}@", head, case_ops.join(";"), if case_ops.is_empty() { "" } else { ";" }, op.show()));
        let (reply, trace) = imp.exec(&xop, &w.inos, &w.handles);
        let reply = match (&op, reply) {
            (Op::Readlink { .. }, Reply::Data(d)) => Reply::Data(canon::unexpand(&d, dirs.sent.as_bytes())),
            (_, r) => r,
        };
        let after = creds_now();
        // ---- canonical trace + answers (a)
        let mut calls = Vec::new();
        let mut answers = Vec::new();
        for e in &trace {
            let (c, a) = canon.ev(e);
            calls.push(c);
            answers.push(a);
        }
        let inos_before = w.inos.clone();
        w.learn(&op, &reply, &inos_before);
        let rtxt = canon.reply(&reply, |i| w.iname(i), |h| w.hname(h));
        case_ops.push(format!("{}@{}", op.show(), answers.join(",")));
        impl_ops.push(format!("{}=>{}", calls.join(","), rtxt));
        let case_now = format!("{} ops={}", head, case_ops.join(";"));
        out.stat(&format!("reply:{}:{}", kind, match &reply { Reply::Err(e) => format!("e{}", e), _ => "ok".into() }));
        out.class(&format!("{}|{}|{}|{}", kind, cfg.show(), match &reply { Reply::Err(e) => format!("e{}", e), _ => "ok".into() }, calls.len()));

        // ---- (b) credentials of the serving thread
        if after != before || after != (0, 0, true) {
            creds_ok = false;
            oracle(out, "C05", format!("C05:creds-not-restored:{}", kind), &case_now,
                   format!("euid/egid/CAP_FSETID before {:?} after {:?}", before, after));
            restore_creds();
        }
        // ---- (b) host oracle: same request as plain system calls on the shadow tree
        let hs_before: Vec<u64> = match (&op, &reply) {
            // the handle list used for resolution is the one before this request's handle was added
            (Op::Open { .. }, Reply::Open { handle: Some(_), .. }) | (Op::Opendir { .. }, Reply::Open { handle: Some(_), .. })
            | (Op::Create { .. }, Reply::Created { handle: Some(_), .. }) => w.handles[..w.handles.len() - 1].to_vec(),
            _ => w.handles.clone(),
        };
        // input classes of the file-handle mode that are known deviations (known_findings.json):
        // the implementation fails before touching anything, so the request is not replayed on the
        // shadow tree and the history goes on with both trees still equal
        let mut class = "";
        {
            let mut nonroot = false;
            for e in &trace {
                if e.name == "setresuid" && e.ret == 0 {
                    nonroot = e.a[1] != 0;
                }
                if e.name == "open_by_handle_at" && e.ret == -(libc::ESTALE as i64) {
                    class = "ifh-unlinked-estale";
                }
                if e.name == "open_by_handle_at" && e.ret == -(libc::EPERM as i64) && nonroot {
                    class = "ifh-open-as-caller";
                }
            }
            if reply.errno().is_none() {
                class = "";
            }
        }
        let mut stop = false;
        let skip_shadow = !class.is_empty();
        if skip_shadow {
            oracle(out, "C05", format!("C05:reply-differs:{}", class), &case_now, format!("{}: implementation {}", kind, reply.value()));
        } else {
            let sreply = sh.exec(&xop, &reply, &inos_before, &hs_before);
            let sreply = match (&op, sreply) {
                (Op::Readlink { .. }, Reply::Data(d)) => Reply::Data(canon::unexpand(&d, dirs.sent.as_bytes())),
                (_, r) => r,
            };
            if sreply.value() != reply.value() {
                oracle(out, "C05", format!("C05:reply-differs:{}", kind), &case_now,
                       format!("{}: implementation {} / host {}", kind, reply.value(), sreply.value()));
            }
        }
        for n in sh.notes.drain(..) {
            // with file handles no descriptor pins an unlinked inode: the host may reuse its number
            let key = if cfg.inode_file_handles && cfg.use_host_ino { "C05:reply-differs:ifh-ino-reuse".to_string() } else { format!("C05:reply-differs:{}:identity", kind) };
            oracle(out, "C05", key, &case_now, format!("{}: {}", kind, n));
            stop = true;
        }
        if is_mutator(&op) && !stop && !skip_shadow {
            let a = tree::snapshot(&dirs.export, &[], false);
            let b = tree::snapshot(&dirs.shadow, &[], false);
            if let Some(d) = tree::diff(&a, &b) {
                oracle(out, "C05", format!("C05:tree-differs:{}", kind), &case_now, d);
                // keep going with re-synchronised expectations is not possible: stop this history
                impl_ops.push("tree-diverged".into());
                break;
            }
        }
        // owner of created objects
        if let (Some(a), true) = (reply.attr(), matches!(op, Op::Symlink { .. } | Op::Mknod { .. } | Op::Mkdir { .. } | Op::Create { .. })) {
            let (uid, gid, parent) = match &op {
                Op::Symlink { uid, gid, parent, .. } | Op::Mknod { uid, gid, parent, .. } | Op::Mkdir { uid, gid, parent, .. }
                | Op::Create { uid, gid, parent, .. } => (*uid, *gid, parent.clone()),
                _ => unreachable!(),
            };
            let created_now = match (&op, &trace) {
                (Op::Create { .. }, t) => t.iter().any(|e| e.name == "openat" && e.a[1] & libc::O_CREAT as i64 != 0 && e.ret >= 0),
                _ => true,
            };
            if created_now {
                let pino = Shadow::resolve(&parent, &inos_before);
                let pst = sh.fd_of(pino).and_then(|fd| shadow::fstat_fd(fd).ok());
                let want_gid = match pst {
                    Some(st) if st.st_mode & 0o2000 != 0 => st.st_gid,
                    _ => gid,
                };
                if a.uid != uid || a.gid != want_gid {
                    oracle(out, "C05", format!("C05:owner:{}", kind), &case_now,
                           format!("created object owned by {}:{}, caller {}:{} (expected gid {})", a.uid, a.gid, uid, gid, want_gid));
                }
            }
        }
        // special files never opened without O_PATH
        for (_, _, mode) in canon.io_opens.drain(..) {
            if !matches!(mode & libc::S_IFMT, libc::S_IFREG | libc::S_IFDIR) {
                oracle(out, "C05", "C05:special-file-opened".into(), &case_now, format!("{}: non-O_PATH open of an object with mode {:o}", kind, mode));
            }
        }
        // ---- (c) C06
        for k in canon.opened_objs.drain(..) {
            if sent0.ids.contains(&k) {
                oracle(out, "C06", format!("C06:escape:{}", kind), &case_now, format!("a descriptor was opened on sentinel object {:?}", k));
            }
        }
        if let Some(a) = reply.attr() {
            if sent0.ids.contains(&(a.dev, a.ino)) {
                oracle(out, "C06", format!("C06:escape:{}", kind), &case_now, format!("returned attributes of sentinel object ({},{})", a.dev, a.ino));
            }
        }
        if let Some(sb) = sent_before {
            if is_mutator(&op) {
                let sa = tree::sentinel(&dirs);
                if sa.hash != sb.hash {
                    let d: Vec<&String> = sa.hash.iter().filter(|x| !sb.hash.contains(x)).take(2).collect();
                    oracle(out, "C06", format!("C06:sentinel-modified:{}", kind), &case_now, format!("sentinel tree changed: {:?}", d));
                }
            }
        }
        if cfg.standalone {
            for (role, n) in names_of(&op) {
                let nk = name_kind(n);
                let bad = match role {
                    "lookup" => nk == "slash",
                    _ => matches!(nk, "slash" | "dot" | "dotdot"),
                };
                if bad {
                    out.stat(&format!("badname:{}:{}", kind, nk));
                    if reply.errno() != Some(libc::EINVAL) || !trace.is_empty() {
                        oracle(out, "C06", format!("C06:name-accepted:{}:{}", kind, nk), &case_now,
                               format!("reply {} after {} host calls", reply.value(), trace.len()));
                    }
                }
            }
        }
        let _ = prop;
        if stop {
            // a known deviation leaves the two trees legitimately different: end the history
            break;
        }
    }
    // end of history: the sentinel is exactly what it was at the start
    let sent1 = tree::sentinel(&dirs);
    let case_line = format!("{} ops={}", head, case_ops.join(";"));
    if sent1.hash != sent0.hash {
        oracle(out, "C06", "C06:sentinel-modified:history".into(), &case_line, "sentinel tree differs at the end of the history".into());
    }
    drop(sh);
    drop(imp);
    let _ = std::fs::remove_dir_all(base);
    HistoryOut { case_line, impl_line: format!("{} | creds={}", impl_ops.join(" | "), if creds_ok { "ok" } else { "changed" }) }
}

fn parse_case(line: &str) -> Option<(Cfg, Spec, Vec<Op>)> {
    let mut cfg = None;
    let mut spec = Spec::default();
    let mut ops = Vec::new();
    for tok in line.split(' ') {
        if let Some(v) = tok.strip_prefix("cfg=") {
            cfg = Some(Cfg::parse(v));
        } else if let Some(v) = tok.strip_prefix("init=") {
            spec = Spec::parse(v);
        } else if let Some(v) = tok.strip_prefix("ops=") {
            for o in v.split(';').filter(|x| !x.is_empty()) {
                let body = o.split('@').next().unwrap_or("");
                ops.push(Op::parse(body)?);
            }
        }
    }
    Some((cfg?, spec, ops))
}

struct Cleanup(String);
impl Drop for Cleanup {
    fn drop(&mut self) {
        let _ = std::fs::remove_dir_all(&self.0);
    }
}

fn configs(r: &mut Prng, n: usize, standalone: bool) -> Vec<Cfg> {
    // always: the default configuration and the "everything on" one; the rest sampled
    let mut v = vec![
        Cfg { allow_direct_io: true, standalone, cache: 2, xattr: true, ..Default::default() },
        Cfg { no_open: true, no_opendir: true, inode_file_handles: true, use_host_ino: true, writeback: true, xattr: true, killpriv_v2: true, allow_direct_io: false, standalone, cache: 3, nocap: 0 },
    ];
    let mut seen: BTreeSet<String> = v.iter().map(|c| c.show()).collect();
    while v.len() < n {
        let c = Cfg {
            no_open: r.chance(1, 2), no_opendir: r.chance(1, 2), inode_file_handles: r.chance(1, 2), use_host_ino: r.chance(1, 2),
            writeback: r.chance(1, 2), xattr: r.chance(2, 3), killpriv_v2: r.chance(1, 2), allow_direct_io: r.chance(1, 2), standalone,
            cache: *r.pick(&[0u8, 1, 2, 3, 3]),
            // now and then the client does not offer everything the configuration asks for
            nocap: if r.chance(1, 3) { r.below(16) as u8 } else { 0 },
        };
        if seen.insert(c.show()) {
            v.push(c);
        }
    }
    v
}

fn main() {
    let a = args();
    let outdir = a.get("out").cloned().unwrap_or_else(|| "/verif/.work/pthost/out".into());
    let mut out = Out::new(&outdir);
    let prop = a.get("prop").cloned().unwrap_or_else(|| "C05".into());
    let stage = a.get("stage").cloned().unwrap_or_else(|| "pt".into());
    if stage == "pt" {
        // every request leaves a breadcrumb: a request that never returns aborts the run after 90 s
        fbrh::util::watchdog(90);
    }
    let seed: u64 = a.get("seed").and_then(|s| s.parse().ok()).unwrap_or(1);
    let base = format!("/verif/.work/pthost-tmp/{}", std::process::id());
    let _ = std::fs::create_dir_all(&base);
    let _cleanup = Cleanup(base.clone());
    assert_eq!(unsafe { libc::geteuid() }, 0, "the pthost engine needs root (setresuid, mknod, trusted.* xattrs)");
    if stage == "vfs" {
        vfsstage::run(&a, &mut out, seed, &base);
        out.finish();
        return;
    }
    let mut r = Prng::new(seed ^ if prop == "C06" { 0xC06 } else { 0xC05 });
    let mut dummy = Prng::new(0);
    if let Some(f) = a.get("cases") {
        for (n, line) in std::fs::read_to_string(f).unwrap().lines().enumerate() {
            fbrh::util::crumb(line);
            if line.trim().is_empty() {
                continue;
            }
            match parse_case(line) {
                Some((cfg, spec, ops)) => {
                    let mut g = Gen { r: &mut dummy, adversarial: false, sent_abs: String::new(), vfs_filtered: false };
                    let h = run_history(&format!("{}/r{}", base, n), &cfg, &spec, Some(&ops), 0, &mut g, &mut out, &prop);
                    out.case(&h.case_line, &h.impl_line);
                }
                None => out.case(line, "bad-case"),
            }
        }
        out.finish();
        return;
    }
    let n_cfg: usize = a.get("configs").and_then(|s| s.parse().ok()).unwrap_or(8);
    let n_hist: usize = a.get("histories").and_then(|s| s.parse().ok()).unwrap_or(300);
    let adversarial = prop == "C06";
    let mut cfgs = configs(&mut r, n_cfg, true);
    if prop == "C12" {
        // negotiation: every configuration meets a client that does not offer everything (both
        // standalone, where a switch needs configuration AND offer, and behind a VFS, where the
        // offer alone decides); inode_file_handles stays off (its known C05 findings are not
        // about negotiation)
        FOR_C12.store(true, std::sync::atomic::Ordering::Relaxed);
        let mut v = configs(&mut r, n_cfg, true);
        v.extend(configs(&mut r, n_cfg, false).drain(2..));
        cfgs = v.into_iter().enumerate().map(|(k, mut c)| {
            c.inode_file_handles = false;
            c.nocap = [8u8, 1, 2, 4, 9, 3, 6, 15][k % 8] | if k >= 8 { r.below(16) as u8 } else { 0 };
            c
        }).collect();
    } else if !adversarial {
        // behind a VFS (`do_import = false`): the options handed to `init` are the negotiated
        // ones and are honoured whatever the configuration says; names are the VFS's business,
        // so only the benign generator runs here
        let mut extra = configs(&mut r, std::cmp::max(3, n_cfg / 3) + 2, false);
        for (k, mut c) in extra.drain(2..).enumerate() {
            // every negotiated switch is off in at least one of them
            c.nocap = match k { 0 => 3, 1 => 6, 2 => 9, _ => c.nocap };
            cfgs.push(c);
        }
    }
    let mut n = 0;
    for cfg in &cfgs {
        out.stat(&format!("cfg:{}", cfg.show()));
        for _ in 0..n_hist {
            n += 1;
            let hbase = format!("{}/h{}", base, n);
            let sent_abs = "{SENT}".to_string();
            let spec = Spec::random(&mut r, adversarial, &sent_abs);
            let len = r.range(1, 25) as usize;
            out.stat(&format!("len:{}", if len <= 5 { "1-5" } else if len <= 15 { "6-15" } else { "16-25" }));
            let mut g = Gen { r: &mut r, adversarial, sent_abs, vfs_filtered: !cfg.standalone };
            let h = run_history(&hbase, cfg, &spec, None, len, &mut g, &mut out, &prop);
            out.case(&h.case_line, &h.impl_line);
        }
    }
    out.finish();
}
