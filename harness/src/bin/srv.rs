//! `srv` engine: drives the real `Server::handle_message` (and, with `--mode async`,
//! `async_handle_message`) over both transports with a scripted logging file system.
//! Serves C01, C02, C03, C12, C20.
use std::os::unix::io::RawFd;
use std::panic::{catch_unwind, AssertUnwindSafe};

use fbrh::prng::Prng;
use fbrh::scriptfs::{kn, ks, parse_kv, Kv, ScriptFs};
use fbrh::srvgen::{self, Built};
use fbrh::util::{args, hex, unhex, Out};
use fbrh::vq;
use fuse_backend_rs::api::server::Server;
use fuse_backend_rs::transport::{FsCacheReqHandler, FuseBuf, FuseDevWriter, Reader, VirtioFsWriter, Writer};

struct NoCache;
impl FsCacheReqHandler for NoCache {
    fn map(&mut self, _: u64, _: u64, _: u64, _: u64, _: RawFd) -> std::io::Result<()> {
        Ok(())
    }
    fn unmap(&mut self, _: Vec<fuse_backend_rs::abi::virtio_fs::RemovemappingOne>) -> std::io::Result<()> {
        Ok(())
    }
}

fn err_name(e: &fuse_backend_rs::Error) -> &'static str {
    use fuse_backend_rs::Error::*;
    match e {
        DecodeMessage(_) => "DecodeMessage",
        EncodeMessage(_) => "EncodeMessage",
        MissingParameter => "MissingParameter",
        InvalidCString(_) => "InvalidCString",
        InvalidHeaderLength => "InvalidHeaderLength",
        InvalidXattrSize(_) => "InvalidXattrSize",
        InvalidMessage(_) => "InvalidMessage",
        FailedToWrite(_) => "FailedToWrite",
        FailedToSplitWriter(_) => "FailedToSplitWriter",
        FailedToRemapID(_) => "FailedToRemapID",
    }
}

fn socketpair() -> (RawFd, RawFd) {
    let mut fds = [0i32; 2];
    let rc = unsafe { libc::socketpair(libc::AF_UNIX, libc::SOCK_SEQPACKET | libc::SOCK_NONBLOCK, 0, fds.as_mut_ptr()) };
    assert_eq!(rc, 0);
    let sz: libc::c_int = 8 << 20;
    unsafe {
        libc::setsockopt(fds[0], libc::SOL_SOCKET, libc::SO_SNDBUFFORCE, &sz as *const _ as *const libc::c_void, 4);
        libc::setsockopt(fds[1], libc::SOL_SOCKET, libc::SO_RCVBUFFORCE, &sz as *const _ as *const libc::c_void, 4);
    }
    (fds[0], fds[1])
}

fn drain(fd: RawFd) -> Vec<Vec<u8>> {
    let mut out = Vec::new();
    let mut buf = vec![0u8; 3 << 20];
    loop {
        let n = unsafe { libc::recv(fd, buf.as_mut_ptr() as *mut libc::c_void, buf.len(), libc::MSG_DONTWAIT) };
        if n < 0 {
            break;
        }
        out.push(buf[..n as usize].to_vec());
        if n == 0 {
            // zero-length record: keep going, but guard against EOF loops
            if out.len() > 64 {
                break;
            }
        }
    }
    out
}

struct Run {
    calls: String,
    sys: Vec<Vec<u8>>,
    area: String,
    area_raw: Vec<u8>,
    ret: String,
    minor_after: String,
    panicked: bool,
    oob: bool,
    dirty: Vec<u64>,
}

fn memfd_append() -> RawFd {
    let fd = unsafe { libc::memfd_create(b"fuse-reply\0".as_ptr() as *const libc::c_char, 0) };
    assert!(fd >= 0);
    unsafe { libc::fcntl(fd, libc::F_SETFL, libc::O_APPEND) };
    fd
}

fn read_all(fd: RawFd) -> Vec<u8> {
    let mut out = Vec::new();
    let mut buf = vec![0u8; 1 << 16];
    let mut off = 0i64;
    loop {
        let n = unsafe { libc::pread(fd, buf.as_mut_ptr() as *mut libc::c_void, buf.len(), off) };
        if n <= 0 {
            break;
        }
        out.extend_from_slice(&buf[..n as usize]);
        off += n as i64;
    }
    out
}

/// the asynchronous request path on the same case (no pre-INIT support needed: `vers` is shared
/// code with the sync path)
fn run_case_async(cx: &Ctx, kv: &Kv) -> Run {
    use fbrh::scriptfs_async::block_on;
    let req = unhex(ks(kv, "req"));
    let cap = kn(kv, "cap") as usize;
    let fusedev = ks(kv, "t") == "fusedev";
    // over `Arc<FS>`, as servers are deployed (`Server<Arc<Vfs>>`): the hand-written wrapper is on the path
    let server = Server::new(std::sync::Arc::new(ScriptFs::new(kv.clone())));
    let mut run = Run { calls: String::new(), sys: vec![], area: String::new(), area_raw: vec![], ret: String::new(), minor_after: String::new(), panicked: false, oob: false, dirty: vec![] };
    if let Some(pm) = kv.get("pre_minor") {
        let minor: u32 = pm.parse().unwrap_or(33);
        let mut b = srvgen::B::new();
        b.u32(7);
        b.u32(minor as u64);
        b.u32(0);
        b.u32(0);
        let mut msg = srvgen::header(56, 26, 1, 0, 0, 0, 0, 0);
        msg.extend_from_slice(&b.v);
        let mut scratch = vec![0u8; 256];
        let r: Reader<'_, ()> = Reader::from_fuse_buffer(FuseBuf::new(&mut msg)).unwrap();
        let w = FuseDevWriter::<()>::new(cx.sock.0, &mut scratch).unwrap();
        fbrh::scriptfs::QUIET.with(|p| p.set(true));
        let _ = server.handle_message(r, Writer::FuseDev(w), None, None);
        fbrh::scriptfs::QUIET.with(|p| p.set(false));
        let _ = drain(cx.sock.1);
    }
    let vu = kn(kv, "vu") == 1;
    let mut nocache = NoCache;
    if fusedev {
        let fd = memfd_append();
        let mut reqbuf = req.clone();
        const G: usize = 64;
        let mut scratch: Vec<u8> = (0..cap + 2 * G).map(|i| if i < G || i >= G + cap { 0xC3 } else { vq::fill(i - G) }).collect();
        let res = catch_unwind(AssertUnwindSafe(|| {
            let r: Reader<'_, ()> = Reader::from_fuse_buffer(FuseBuf::new(&mut reqbuf)).unwrap();
            let w = FuseDevWriter::<()>::new(fd, &mut scratch[G..G + cap]).unwrap();
            let vr: Option<&mut dyn FsCacheReqHandler> = if vu { Some(&mut nocache) } else { None };
            block_on(unsafe { server.async_handle_message(r, Writer::FuseDev(w), vr, None) })
        }));
        match res {
            Ok(Ok(n)) => run.ret = format!("ok:{}", n),
            Ok(Err(e)) => run.ret = format!("err:{}", err_name(&e)),
            Err(_) => {
                run.ret = "panic".into();
                run.panicked = true;
            }
        }
        run.oob = scratch[..G].iter().any(|&b| b != 0xC3) || scratch[G + cap..].iter().any(|&b| b != 0xC3) || reqbuf != req;
        let all = read_all(fd);
        unsafe { libc::close(fd) };
        if !all.is_empty() {
            run.sys = vec![all];
        }
    } else {
        let rlens = nat_list(ks(kv, "seg"));
        let wlens = nat_list(ks(kv, "wseg"));
        let segs = vq::place(kn(kv, "lay"), &rlens, &wlens);
        let mut pos = 0usize;
        for s in segs.iter().filter(|s| !s.writable) {
            let end = std::cmp::min(req.len(), pos + s.len as usize);
            vq::write_bytes(&cx.mem, s.addr, &req[std::cmp::min(pos, req.len())..end]);
            pos += s.len as usize;
        }
        vq::prefill(&cx.mem, &segs, 0);
        let res = catch_unwind(AssertUnwindSafe(|| {
            let chain = vq::build_chain(&cx.mem, &segs);
            let r = Reader::from_descriptor_chain(&cx.mem, chain.clone()).unwrap();
            let w = VirtioFsWriter::new(&cx.mem, chain).unwrap();
            let vr: Option<&mut dyn FsCacheReqHandler> = if vu { Some(&mut nocache) } else { None };
            block_on(unsafe { server.async_handle_message(r, Writer::VirtioFs(w), vr, None) })
        }));
        match res {
            Ok(Ok(n)) => run.ret = format!("ok:{}", n),
            Ok(Err(e)) => run.ret = format!("err:{}", err_name(&e)),
            Err(_) => {
                run.ret = "panic".into();
                run.panicked = true;
            }
        }
        run.area_raw = vq::read_area(&cx.mem, &segs);
        run.area = vq::area_diff(&run.area_raw);
    }
    run
}

/// C20: both request paths on the same case; the compared line is the async one
fn exec_async(cx: &Ctx, line: &str, out: &mut Out) -> String {
    let kv = parse_kv(line);
    let req = unhex(ks(&kv, "req"));
    let op = if req.len() >= 8 { le32(&req, 4) } else { u32::MAX };
    fbrh::scriptfs::TAP.with(|t| t.borrow_mut().clear());
    let s = run_case(cx, &kv);
    let s_calls = fbrh::scriptfs::TAP.with(|t| t.borrow().join(";"));
    fbrh::scriptfs::TAP.with(|t| t.borrow_mut().clear());
    let mut a = run_case_async(cx, &kv);
    let a_calls = fbrh::scriptfs::TAP.with(|t| t.borrow().join(";"));
    a.calls = a_calls.clone();
    judge(&a, &kv, line, &req, ks(&kv, "t") == "fusedev", true, out);
    let s_bytes: Vec<u8> = s.sys.concat();
    let a_bytes: Vec<u8> = a.sys.concat();
    let impl_line = format!("calls={} sys={} area={} ret={}", a_calls, hex(&a_bytes), a.area, a.ret);
    let mut diff = Vec::new();
    if s_calls != a_calls { diff.push("calls"); }
    if s_bytes != a_bytes { diff.push("reply-bytes"); }
    if s.area != a.area { diff.push("area"); }
    if s.ret != a.ret { diff.push("return"); }
    if a.panicked { diff.push("panic"); }
    if !diff.is_empty() {
        // specific signature: opcode + what differs (+ the documented WRITE size limit)
        let size_over = op == 16 && req.len() >= 40 + 20 && le32(&req, 40 + 16) > (1 << 20);
        let key = if size_over { "C20:write:size-over-1MiB".to_string() } else { format!("C20:diverge:op{}:{}", op, diff.join("+")) };
        let v = serde_json::json!({"prop": "C20", "key": key, "case": line,
            "what": format!("sync: calls=[{}] reply={} area={} ret={} | async: calls=[{}] reply={} area={} ret={}",
                s_calls, hex(&s_bytes), s.area, s.ret, a_calls, hex(&a_bytes), a.area, a.ret)});
        use std::io::Write;
        writeln!(out.oracle, "{}", v).unwrap();
        out.n_oracle += 1;
    }
    out.class(&format!("{}|{}|{}|{}", op, ks(&kv, "t"), ks(&kv, "ans"), a.ret.split(':').take(2).collect::<Vec<_>>().join(":")));
    impl_line
}

fn nat_list(s: &str) -> Vec<u32> {
    if s.is_empty() {
        vec![]
    } else {
        s.split(',').filter_map(|x| x.parse().ok()).collect()
    }
}

struct Ctx {
    mem: vq::Mem,
    sock: (RawFd, RawFd),
}

fn run_case(cx: &Ctx, kv: &Kv) -> Run {
    let req = unhex(ks(kv, "req"));
    let cap = kn(kv, "cap") as usize;
    let fusedev = ks(kv, "t") == "fusedev";
    let fs = ScriptFs::new(kv.clone());
    // over `Arc<FS>`, as servers are deployed (`Server<Arc<Vfs>>`): the hand-written wrapper is on the path
    let server = Server::new(std::sync::Arc::new(fs));
    let mut run = Run { calls: String::new(), sys: vec![], area: String::new(), area_raw: vec![], ret: String::new(), minor_after: String::new(), panicked: false, oob: false, dirty: vec![] };
    // optional pre-INIT to set the negotiated minor version
    if let Some(pm) = kv.get("pre_minor") {
        let minor: u32 = pm.parse().unwrap_or(33);
        let mut b = srvgen::B::new();
        b.u32(7);
        b.u32(minor as u64);
        b.u32(0);
        b.u32(0);
        let mut msg = srvgen::header(56, 26, 1, 0, 0, 0, 0, 0);
        msg.extend_from_slice(&b.v);
        let mut scratch = vec![0u8; 256];
        let r: Reader<'_, ()> = Reader::from_fuse_buffer(FuseBuf::new(&mut msg)).unwrap();
        let w = FuseDevWriter::<()>::new(cx.sock.0, &mut scratch).unwrap();
        // the double answers INIT with `want` only when scripted so; force success quietly
        fbrh::scriptfs::QUIET.with(|p| p.set(true));
        let _ = server.handle_message(r, Writer::FuseDev(w), None, None);
        // optionally a second INIT, with another minor version, which the file system refuses:
        // a refused INIT must leave the negotiated version alone
        if let Some(m2) = kv.get("pre_refused") {
            let mut b = srvgen::B::new();
            b.u32(7);
            b.u32(m2.parse::<u64>().unwrap_or(3));
            b.u32(0);
            b.u32(0);
            let mut msg = srvgen::header(56, 26, 2, 0, 0, 0, 0, 0);
            msg.extend_from_slice(&b.v);
            let mut scratch = vec![0u8; 256];
            let r: Reader<'_, ()> = Reader::from_fuse_buffer(FuseBuf::new(&mut msg)).unwrap();
            let w = FuseDevWriter::<()>::new(cx.sock.0, &mut scratch).unwrap();
            fbrh::scriptfs::REFUSE_INIT.with(|p| p.set(true));
            let _ = server.handle_message(r, Writer::FuseDev(w), None, None);
            fbrh::scriptfs::REFUSE_INIT.with(|p| p.set(false));
        }
        fbrh::scriptfs::QUIET.with(|p| p.set(false));
        let _ = drain(cx.sock.1);
    }
    let vu = kn(kv, "vu") == 1;
    let mut nocache = NoCache;
    if fusedev {
        let mut reqbuf = req.clone();
        const G: usize = 64;
        let mut scratch: Vec<u8> = (0..cap + 2 * G).map(|i| if i < G || i >= G + cap { 0xC3 } else { vq::fill(i - G) }).collect();
        let res = catch_unwind(AssertUnwindSafe(|| {
            let r: Reader<'_, ()> = Reader::from_fuse_buffer(FuseBuf::new(&mut reqbuf)).unwrap();
            let w = FuseDevWriter::<()>::new(cx.sock.0, &mut scratch[G..G + cap]).unwrap();
            let vr: Option<&mut dyn FsCacheReqHandler> = if vu { Some(&mut nocache) } else { None };
            server.handle_message(r, Writer::FuseDev(w), vr, None)
        }));
        match res {
            Ok(Ok(n)) => run.ret = format!("ok:{}", n),
            Ok(Err(e)) => run.ret = format!("err:{}", err_name(&e)),
            Err(_) => {
                run.ret = "panic".into();
                run.panicked = true;
            }
        }
        run.oob = scratch[..G].iter().any(|&b| b != 0xC3) || scratch[G + cap..].iter().any(|&b| b != 0xC3) || reqbuf != req;
        run.sys = drain(cx.sock.1);
    } else {
        let rlens = nat_list(ks(kv, "seg"));
        let wlens = nat_list(ks(kv, "wseg"));
        let segs = vq::place(kn(kv, "lay"), &rlens, &wlens);
        let mut pos = 0usize;
        for s in segs.iter().filter(|s| !s.writable) {
            let end = std::cmp::min(req.len(), pos + s.len as usize);
            vq::write_bytes(&cx.mem, s.addr, &req[std::cmp::min(pos, req.len())..end]);
            pos += s.len as usize;
        }
        vq::prefill(&cx.mem, &segs, 0);
        // guards after the last and before the first writable segment when there is room
        let wsegs: Vec<&vq::Seg> = segs.iter().filter(|s| s.writable).collect();
        let guard_after = wsegs.last().map(|s| s.addr + s.len as u64);
        if let Some(a) = guard_after {
            vq::write_bytes(&cx.mem, a, &[0xC3; 16]);
        }
        // the harness's own stores above marked pages dirty: start from a clean bitmap
        let _ = vq::take_dirty(&cx.mem, vq::A_BASE);
        let _ = vq::take_dirty(&cx.mem, vq::B_BASE);
        let res = catch_unwind(AssertUnwindSafe(|| {
            let chain = vq::build_chain(&cx.mem, &segs);
            let r = Reader::from_descriptor_chain(&cx.mem, chain.clone()).unwrap();
            let w = VirtioFsWriter::new(&cx.mem, chain).unwrap();
            let vr: Option<&mut dyn FsCacheReqHandler> = if vu { Some(&mut nocache) } else { None };
            server.handle_message(r, Writer::VirtioFs(w), vr, None)
        }));
        let mut dirty: Vec<u64> = vq::take_dirty(&cx.mem, vq::A_BASE).into_iter().map(|i| vq::A_BASE / 4096 + i as u64).collect();
        dirty.extend(vq::take_dirty(&cx.mem, vq::B_BASE).into_iter().map(|i| vq::B_BASE / 4096 + i as u64));
        dirty.sort();
        run.dirty = dirty;
        match res {
            Ok(Ok(n)) => run.ret = format!("ok:{}", n),
            Ok(Err(e)) => run.ret = format!("err:{}", err_name(&e)),
            Err(_) => {
                run.ret = "panic".into();
                run.panicked = true;
            }
        }
        run.area_raw = vq::read_area(&cx.mem, &segs);
        run.area = vq::area_diff(&run.area_raw);
        if let Some(a) = guard_after {
            run.oob = vq::read_bytes(&cx.mem, a, 16) != vec![0xC3; 16];
        }
        // request descriptors must be untouched
        let mut pos = 0usize;
        for s in segs.iter().filter(|s| !s.writable) {
            let end = std::cmp::min(req.len(), pos + s.len as usize);
            let st = std::cmp::min(pos, req.len());
            if vq::read_bytes(&cx.mem, s.addr, end - st) != req[st..end] {
                run.oob = true;
            }
            pos += s.len as usize;
        }
    }
    let _ = &run.minor_after;
    run
}

fn le32(b: &[u8], off: usize) -> u32 {
    u32::from_le_bytes([b[off], b[off + 1], b[off + 2], b[off + 3]])
}
fn le64(b: &[u8], off: usize) -> u64 {
    let mut a = [0u8; 8];
    a.copy_from_slice(&b[off..off + 8]);
    u64::from_le_bytes(a)
}

/// the reply as the client would see it: fusedev = the single record, virtio = first `ret` bytes
fn client_reply(run: &Run, fusedev: bool) -> Option<Vec<u8>> {
    if fusedev {
        run.sys.first().cloned()
    } else if let Some(n) = run.ret.strip_prefix("ok:") {
        let n: usize = n.parse().unwrap_or(0);
        if n == 0 {
            // DESTROY returns Ok(0) although it writes a reply; everything else that returns 0
            // wrote nothing
            if run.area.is_empty() || run.area_raw.len() < 16 {
                None
            } else {
                let l = le32(&run.area_raw, 0) as usize;
                Some(run.area_raw[..std::cmp::min(std::cmp::max(l, 16), run.area_raw.len())].to_vec())
            }
        } else {
            Some(run.area_raw[..std::cmp::min(n, run.area_raw.len())].to_vec())
        }
    } else {
        None
    }
}

/// notifications: Server::notify_inval_entry / notify_inval_inode / notify_resend
fn exec_notify(cx: &Ctx, line: &str, kv: &Kv, out: &mut Out) -> String {
    let cap = kn(kv, "cap") as usize;
    // over `Arc<FS>`, as servers are deployed (`Server<Arc<Vfs>>`): the hand-written wrapper is on the path
    let server = Server::new(std::sync::Arc::new(ScriptFs::new(kv.clone())));
    let mut scratch = vec![0u8; cap];
    let kind = ks(kv, "notify").to_string();
    let name = unhex(ks(kv, "name"));
    let res = catch_unwind(AssertUnwindSafe(|| {
        let w = FuseDevWriter::<()>::new(cx.sock.0, &mut scratch).unwrap();
        match kind.as_str() {
            "entry" => {
                let mut n = name.clone();
                n.push(0);
                let c = std::ffi::CStr::from_bytes_with_nul(&n).unwrap();
                server.notify_inval_entry(w, kn(kv, "parent"), c).map(|n| n as i64)
            }
            "inode" => server.notify_inval_inode(w, kn(kv, "ino"), kn(kv, "off"), kn(kv, "len")).map(|n| n as i64),
            _ => server.notify_resend(w).map(|_| -1),
        }
    }));
    let recs = drain(cx.sock.1);
    let total: usize = recs.iter().map(|r| r.len()).sum();
    let ret = match res {
        Ok(Ok(n)) => format!("ok:{}", if n < 0 { total as i64 } else { n }),
        Ok(Err(e)) => format!("err:{}", err_name(&e)),
        Err(_) => "panic".into(),
    };
    let mut oracle = |key: String, what: String, out: &mut Out| {
        let v = serde_json::json!({"prop": "C03", "key": key, "case": line, "what": what});
        use std::io::Write;
        writeln!(out.oracle, "{}", v).unwrap();
        out.n_oracle += 1;
    };
    if recs.len() > 1 {
        oracle(format!("C03:notify:{}:multi-write", kind), format!("{} writes", recs.len()), out);
    }
    if let Some(m) = recs.first() {
        let code = match kind.as_str() { "entry" => 3, "inode" => 2, _ => 7 };
        let bad = m.len() < 16 || le32(m, 0) as usize != m.len() || le32(m, 4) != code || le64(m, 8) != 0
            || match kind.as_str() {
                "entry" => m.len() != 32 + name.len() + 1 || le64(m, 16) != kn(kv, "parent") || le32(m, 24) as usize != name.len()
                    || m[32..32 + name.len()] != name[..] || m[32 + name.len()] != 0,
                "inode" => m.len() != 40 || le64(m, 16) != kn(kv, "ino") || le64(m, 24) != kn(kv, "off") || le64(m, 32) != kn(kv, "len"),
                _ => m.len() != 16,
            };
        if bad {
            oracle(format!("C03:notify:{}:encoding", kind), format!("notification bytes {}", hex(m)), out);
        }
    } else if ret.starts_with("ok") && cap >= 4096 {
        oracle(format!("C03:notify:{}:missing", kind), "no message written".into(), out);
    }
    out.class(&format!("notify|{}|{}", kind, ret.split(':').next().unwrap_or("")));
    let sys: Vec<String> = recs.iter().map(|b| hex(b)).collect();
    format!("sys={} ret={}", sys.join(","), ret)
}

fn exec(cx: &Ctx, line: &str, out: &mut Out) -> String {
    let kv = parse_kv(line);
    if kv.contains_key("notify") {
        return exec_notify(cx, line, &kv, out);
    }
    let fusedev = ks(&kv, "t") == "fusedev";
    let req = unhex(ks(&kv, "req"));
    let run = run_case_logged(cx, &kv);
    let sys: Vec<String> = run.sys.iter().map(|b| hex(b)).collect();
    // the model reports the negotiated minor after the request; the implementation's is probed
    // by behaviour only in dedicated C12 cases, so it is not part of the compared line
    let dirty_s: Vec<String> = run.dirty.iter().map(|p| p.to_string()).collect();
    let impl_line = format!("calls={} sys={} area={} ret={} dirty={}", run.calls, sys.join(","), run.area, run.ret, dirty_s.join(","));

    // C17 (through the whole server): every modified byte of guest memory lies in a dirty page,
    // and no page outside the writable descriptors is dirty
    if !fusedev {
        let rl = nat_list(ks(&kv, "seg"));
        let wl = nat_list(ks(&kv, "wseg"));
        let segs = vq::place(kn(&kv, "lay"), &rl, &wl);
        let mut pos = 0usize;
        let mut wpages = std::collections::BTreeSet::new();
        let mut missed = false;
        for sgm in segs.iter().filter(|x| x.writable) {
            for i in 0..sgm.len as usize {
                let pg = (sgm.addr + i as u64) / 4096;
                wpages.insert(pg);
                if run.area_raw.get(pos + i).map(|&b| b != vq::fill(pos + i)).unwrap_or(false) && !run.dirty.contains(&pg) {
                    missed = true;
                }
            }
            pos += sgm.len as usize;
        }
        if missed {
            let v = serde_json::json!({"prop": "C17", "key": format!("C17:srv:missed-dirty:op{}", if req.len() >= 8 { le32(&req, 4) } else { 0 }), "case": line, "what": "a modified byte of the reply area lies in a page not marked dirty"});
            use std::io::Write;
            writeln!(out.oracle, "{}", v).unwrap();
            out.n_oracle += 1;
        }
        if run.dirty.iter().any(|p| !wpages.contains(p)) {
            let v = serde_json::json!({"prop": "C17", "key": format!("C17:srv:spurious-dirty:op{}", if req.len() >= 8 { le32(&req, 4) } else { 0 }), "case": line, "what": "a page outside the writable descriptors was marked dirty"});
            use std::io::Write;
            writeln!(out.oracle, "{}", v).unwrap();
            out.n_oracle += 1;
        }
    }

    judge(&run, &kv, line, &req, fusedev, false, out);
    let op = if req.len() >= 8 { le32(&req, 4) } else { u32::MAX };
    out.class(&format!("{}|{}|{}|{}|{}", op, ks(&kv, "t"), ks(&kv, "ans"), run.ret.split(':').next().unwrap_or(""), if run.ret.starts_with("err") { run.ret.as_str() } else { "" }));
    impl_line
}

/// direct oracles on one run of the real server (implementation alone, no model); `asyncp`: the
/// run went through `async_handle_message` (keys carry `async:`)
fn judge(run: &Run, kv: &Kv, line: &str, req: &[u8], fusedev: bool, asyncp: bool, out: &mut Out) {
    let run = run;
    // ---------------- direct oracles (implementation alone, no model) ----------------
    let op = if req.len() >= 8 { le32(&req, 4) } else { u32::MAX };
    let unique = if req.len() >= 16 { le64(&req, 8) } else { 0 };
    let prop = |p: &str, key: String, what: String, out: &mut Out| {
        let key = if asyncp { key.replacen(':', ":async:", 1) } else { key };
        let v = serde_json::json!({"prop": p, "key": key, "case": line, "what": what});
        use std::io::Write;
        writeln!(out.oracle, "{}", v).unwrap();
        out.n_oracle += 1;
    };
    if run.panicked {
        prop("C01", format!("C01:panic:op{}", op), "handle_message panicked".into(), out);
    }
    if run.oob {
        prop("C01", format!("C01:oob:op{}", op), "memory outside the supplied buffers was modified".into(), out);
    }
    if fusedev && run.sys.len() > 1 {
        prop("C01", format!("C01:multi-write:op{}", op), format!("{} write calls on /dev/fuse for one request", run.sys.len()), out);
    }
    if (op == 2 || op == 42) && (!run.sys.is_empty() || !run.area.is_empty()) {
        prop("C01", format!("C01:forget-replied:op{}", op), "FORGET/BATCH_FORGET produced reply bytes".into(), out);
    }
    let reply = client_reply(&run, fusedev);
    if let Some(rp) = &reply {
        if rp.len() < 16 {
            prop("C01", format!("C01:short-reply:op{}", op), format!("reply of {} bytes", rp.len()), out);
        } else {
            if le32(rp, 0) as usize != rp.len() {
                prop("C01", format!("C01:len-field:op{}", op), format!("len field {} but {} bytes emitted", le32(rp, 0), rp.len()), out);
            }
            if le64(rp, 8) != unique {
                prop("C01", format!("C01:unique:op{}", op), "unique differs from the request".into(), out);
            }
            let e = le32(rp, 4) as i32;
            let sane_fs_err = ks(&kv, "ans") != "err" || (kn(&kv, "errno") >= 1 && kn(&kv, "errno") <= 4095);
            if sane_fs_err && !(e == 0 || (-4095..=-1).contains(&e)) {
                prop("C01", format!("C01:error-field:op{}", op), format!("error field {}", e), out);
            }
        }
    }
    let wf = kn(&kv, "wf") == 1;
    if wf && kn(&kv, "needs_reply") == 1 && kn(&kv, "cap_ok") == 1 {
        let n_replies = if fusedev { run.sys.len() } else { if reply.is_some() { 1 } else { 0 } };
        if n_replies != 1 {
            prop("C01", format!("C01:reply-count:op{}", op), format!("well-formed request answered {} times", n_replies), out);
        }
    }
    // C02: the file system saw exactly the expected call
    if wf && kn(&kv, "fs_reach") == 1 {
        if let Some(exp) = kv.get("exp") {
            let calls: Vec<&str> = run.calls.split(';').filter(|c| !c.is_empty() && !c.starts_with("id_remap(")).collect();
            let want: Vec<&str> = if exp.is_empty() { vec![] } else { vec![exp.as_str()] };
            if calls != want && !run.ret.starts_with("err:FailedToRemapID") {
                prop("C02", format!("C02:decode:op{}", op), format!("fs saw [{}] expected [{}]", calls.join(";"), want.join(";")), out);
            }
        }
    }
    // C12: INIT replies are judged whenever a reply exists (also for major mismatches)
    if op == 26 && kn(&kv, "init_wf") == 1 {
        if let Some(rp) = &reply {
            if let Some(what) = fbrh::srvoracle::check_reply(&kv, op, rp) {
                prop("C12", format!("C12:{}", what.0), what.1, out);
            }
        }
    }
    // C03: independent decode of the reply against the scripted answer
    if op != 26 && wf && kn(&kv, "cap_ok") == 1 && kn(&kv, "fs_reach") == 1 {
        if let Some(rp) = &reply {
            if let Some(what) = fbrh::srvoracle::check_reply(&kv, op, rp) {
                prop("C03", format!("C03:encode:op{}:{}", op, what.0), what.1, out);
            }
        }
    }
}

/// READ / READDIR / READDIRPLUS whose file system fails after it has already stored part of the
/// payload (no model involved: the scripted answers of the modelled stream fail before they
/// write).  The client must get a bare error header: on /dev/fuse one 16-byte record, on virtio-fs
/// a header announcing 16 bytes.  Runs on the synchronous or the asynchronous request path.
fn read_fault_probe(cx: &Ctx, r: &mut Prng, out: &mut Out, asyncp: bool) {
    let fusedev = r.chance(1, 2);
    let op = *r.pick(&[15u32, 15, 28, 44]);
    let opname = match op { 15 => "read", 28 => "readdir", _ => "readdirplus" };
    let size = if op == 15 { r.range(1, 300) as u32 } else { r.range(220, 700) as u32 };
    let cap = 16 + size as u64 + *r.pick(&[0u64, 1, 8, 64]);
    let errno = *r.pick(&[5u64, 28, 4, 11, 24]);
    let unique = r.next() | 1;
    let mut req = srvgen::header(80, op, unique, 1, 0, 0, 1, 0);
    req.extend_from_slice(&7u64.to_le_bytes());
    req.extend_from_slice(&0u64.to_le_bytes());
    req.extend_from_slice(&size.to_le_bytes());
    req.extend_from_slice(&[0u8; 20]);
    let payload = if op == 15 {
        let plen = r.range(1, size as u64) as usize;
        let data: Vec<u8> = (0..plen).map(|i| (i * 31 + 7) as u8).collect();
        format!("data={}", hex(&data))
    } else {
        let n = r.range(1, 3);
        let ents: Vec<String> = (0..n).map(|i| format!("{}:{}:{}:{}", hex(format!("n{}", i).as_bytes()), 10 + i, i + 1, 8)).collect();
        format!("ents={} e_ino=9 mode=33188 nlink=1", ents.join(","))
    };
    let line = if fusedev {
        format!("t=fusedev cap={} op={} vu=0 remap=ok req={} ans=perr errno={} {}", cap, op, hex(&req), errno, payload)
    } else {
        format!("t=virtio cap={} op={} vu=0 remap=ok seg=80 wseg={} lay={} req={} ans=perr errno={} {}", cap, op, cap, r.below(4), hex(&req), errno, payload)
    };
    let kv = parse_kv(&line);
    let run = if asyncp { run_case_async(cx, &kv) } else { run_case(cx, &kv) };
    out.stat(&format!("probe:{}-fault{}", opname, if asyncp { ":async" } else { "" }));
    let reply = client_reply(&run, fusedev);
    let want_err = (-(errno as i64)) as i32;
    let bad = match &reply {
        None => Some("no reply".to_string()),
        Some(rp) if rp.len() < 16 => Some(format!("reply of {} bytes", rp.len())),
        Some(rp) => {
            let (len, err, uq) = (le32(rp, 0), le32(rp, 4) as i32, le64(rp, 8));
            if len != 16 || err != want_err || uq != unique || (fusedev && rp.len() != 16) || run.panicked {
                Some(format!("header len={} error={} unique ok={} record of {} bytes (expected a bare 16-byte header with error {})", len, err, uq == unique, rp.len(), want_err))
            } else {
                None
            }
        }
    };
    if let Some(what) = bad {
        let props: &[&str] = if asyncp { &["C20", "C01", "C03"] } else { &["C03", "C01"] };
        for p in props {
            let v = serde_json::json!({"prop": p, "key": format!("{}:{}:error-after-partial-data{}", p, opname, if asyncp { ":async" } else { "" }), "case": line, "what": what});
            use std::io::Write;
            writeln!(out.oracle, "{}", v).unwrap();
            out.n_oracle += 1;
        }
    }
}

/// READ / WRITE served through the default methods of the zero-copy traits
/// (`ZeroCopyWriter::write_all_from`, `ZeroCopyReader::read_exact_to`) against a file that answers
/// short: the reply payload must be the file's bytes [offset, offset+size) and the file must
/// receive the request's payload at consecutive offsets.  Model-free.
fn zero_copy_probe(cx: &Ctx, r: &mut Prng, out: &mut Out) {
    use fbrh::xscript::pat_bytes;
    let fusedev = r.chance(1, 2);
    let write = r.chance(1, 2);
    let n = r.range(2, 300) as usize;
    let off = *r.pick(&[0u64, 1, 4095, 1u64 << 32, 77777]);
    let seed = r.below(1000);
    let chunks: Vec<usize> = (0..r.range(1, 4)).map(|_| r.range(1, n as u64 - 1) as usize).collect();
    let unique = r.next() | 1;
    let data: Vec<u8> = (0..n).map(|i| (i * 13 + 5) as u8).collect();
    let (op, total) = if write { (16u32, 80 + n) } else { (15u32, 80) };
    let mut req = srvgen::header(total as u32, op, unique, 1, 0, 0, 1, 0);
    req.extend_from_slice(&7u64.to_le_bytes());
    req.extend_from_slice(&off.to_le_bytes());
    req.extend_from_slice(&(n as u32).to_le_bytes());
    req.extend_from_slice(&[0u8; 20]);
    if write {
        req.extend_from_slice(&data);
    }
    let cap = if write { 64 } else { 16 + n as u64 + 8 };
    let zc = chunks.iter().map(|c| c.to_string()).collect::<Vec<_>>().join(",");
    let line = if fusedev {
        format!("t=fusedev cap={} op={} vu=0 remap=ok req={} ans=zc seed={} zc={}", cap, op, hex(&req), seed, zc)
    } else {
        let segs = split_lens(req.len(), r).iter().map(|x| x.to_string()).collect::<Vec<_>>().join(",");
        format!("t=virtio cap={} op={} vu=0 remap=ok seg={} wseg={} lay={} req={} ans=zc seed={} zc={}", cap, op, segs, cap, r.below(4), hex(&req), seed, zc)
    };
    let kv = parse_kv(&line);
    fbrh::scriptfs::TAP.with(|t| t.borrow_mut().clear());
    let run = run_case(cx, &kv);
    let tap: Vec<String> = fbrh::scriptfs::TAP.with(|t| t.borrow().clone());
    out.stat(if write { "probe:zero-copy:read_exact_to" } else { "probe:zero-copy:write_all_from" });
    let reply = client_reply(&run, fusedev);
    let mut bad: Option<String> = None;
    match &reply {
        None => bad = Some("no reply".into()),
        Some(rp) if rp.len() < 16 => bad = Some(format!("reply of {} bytes", rp.len())),
        Some(rp) => {
            let (len, err) = (le32(rp, 0) as usize, le32(rp, 4) as i32);
            if write {
                let want_offs: Vec<String> = {
                    let mut v = vec![];
                    let mut done = 0usize;
                    let mut k = 0;
                    while done < n {
                        v.push((off + done as u64).to_string());
                        done += std::cmp::min(chunks.get(k).copied().unwrap_or(n), n - done);
                        k += 1;
                    }
                    v
                };
                match tap.iter().find_map(|t| t.strip_prefix("zc-write:")) {
                    None => bad = Some("the file system's write was not reached".into()),
                    Some(t) => {
                        let (got, offs) = t.split_once(':').unwrap_or((t, ""));
                        if got != hex(&data) {
                            bad = Some(format!("the file received {} where the request carried {}", got, hex(&data)));
                        } else if offs != want_offs.join(",") {
                            bad = Some(format!("the file was written at offsets [{}], expected [{}]", offs, want_offs.join(",")));
                        } else if err != 0 || len != 24 || rp.len() < 24 || le32(rp, 16) as usize != n {
                            bad = Some(format!("reply len={} error={} for a complete write of {}", len, err, n));
                        }
                    }
                }
            } else {
                let want = pat_bytes(seed, off, n);
                if err != 0 || len != 16 + n || rp.len() != 16 + n {
                    bad = Some(format!("reply len={} error={} record {} bytes for a read of {}", len, err, rp.len(), n));
                } else if rp[16..] != want[..] {
                    let k = rp[16..].iter().zip(want.iter()).position(|(a, b)| a != b).unwrap_or(0);
                    bad = Some(format!("reply payload differs from the file's bytes [{}, {}) from byte {} on (short answers {:?})", off, off + n as u64, k, chunks));
                }
            }
        }
    }
    if run.panicked {
        bad = Some("panic".into());
    }
    if let Some(what) = bad {
        for p in ["C03", "C02", "C04"] {
            let v = serde_json::json!({"prop": p, "key": format!("{}:zero-copy:{}", p, if write { "read_exact_to" } else { "write_all_from" }), "case": line, "what": what});
            use std::io::Write;
            writeln!(out.oracle, "{}", v).unwrap();
            out.n_oracle += 1;
        }
    }
}

fn run_case_logged(cx: &Ctx, kv: &Kv) -> Run {
    // ScriptFs is owned by the server; its log is extracted through a thread-local tap
    fbrh::scriptfs::TAP.with(|t| t.borrow_mut().clear());
    let run = run_case(cx, kv);
    let calls = fbrh::scriptfs::TAP.with(|t| t.borrow().join(";"));
    Run { calls, ..run }
}

// ------------------------------------------------------------------ generation

fn split_lens(total: usize, r: &mut Prng) -> Vec<u32> {
    // segment lengths whose sum is `total`, with interesting cut points
    let mut cuts: Vec<usize> = Vec::new();
    let nseg = match r.below(6) { 0 => 1, 1 => 2, 2 => 3, _ => r.range(1, 8) } as usize;
    let interesting = [0usize, 1, 7, 8, 15, 16, 17, 39, 40, 41, 47, 48, 56, 64, 80, 88, 128];
    for _ in 1..nseg {
        let c = if r.chance(2, 3) { *r.pick(&interesting) } else { r.below(total as u64 + 1) as usize };
        cuts.push(std::cmp::min(c, total));
    }
    cuts.sort();
    let mut lens = Vec::new();
    let mut prev = 0;
    for c in cuts {
        lens.push((c - prev) as u32);
        prev = c;
    }
    lens.push((total - prev) as u32);
    lens
}

struct GenCtx<'a> {
    r: &'a mut Prng,
}

fn reply_need(b: &Built, ans_tokens: &str) -> usize {
    // generous upper bound of the reply size for a scripted answer
    let kv = parse_kv(ans_tokens);
    16 + match ks(&kv, "ans") {
        "entry" => 128,
        "attr" => 104,
        "data" => ks(&kv, "data").len() / 2,
        "opened" => 16,
        "created" => 144,
        "count" => 8,
        "statfs" => 80,
        "lock" => 24,
        "ioctl" => 16 + if ks(&kv, "io_data") == "none" { 0 } else { ks(&kv, "io_data").len() / 2 },
        "want" => 64,
        "dirents" => 0,
        _ => 0,
    } + if b.tag == "dir" { 0 } else { 0 }
}

fn mk_case(g: &mut GenCtx, op: u32, mutate: bool, prop: &str) -> String {
    let r = &mut *g.r;
    let nodeid = r.field(64);
    let b = srvgen::build(op, nodeid, r);
    let (uid, gid, pid) = (r.field(32) as u32, r.field(32) as u32, r.field(32) as u32);
    let unique = r.field(64);
    let mut len = (40 + b.body.len()) as u32;
    let mut body = b.body.clone();
    let mut opn = op;
    let mut wf = true;
    let mut mut_tag = "none";
    if mutate {
        wf = false;
        match r.below(9) {
            0 => {
                // truncate the buffer at/around struct boundaries
                let cut = r.below(body.len() as u64 + 1) as usize;
                body.truncate(cut);
                if r.chance(1, 2) { len = (40 + body.len()) as u32; }
                mut_tag = "truncate";
            }
            1 => {
                len = *r.pick(&[0u32, 39, 40, 41, (1 << 20) + 4096, (1 << 20) + 4097, u32::MAX, 1 << 31]);
                mut_tag = "len-lie";
            }
            2 => {
                len = len.wrapping_add(*r.pick(&[1u32, 8, 100, u32::MAX]));
                mut_tag = "len-off";
            }
            3 => {
                opn = *r.pick(&[0u32, 7, 19, 47, 50, 51, 1 << 20, u32::MAX, 4096]);
                mut_tag = "opcode-hole";
            }
            4 => {
                // strip NULs
                body.retain(|&x| x != 0);
                len = (40 + body.len()) as u32;
                mut_tag = "no-nul";
            }
            5 => {
                // extra trailing bytes beyond the header length
                let k = r.range(1, 64) as usize;
                body.extend_from_slice(&r.bytes(k));
                mut_tag = "trailing";
            }
            6 => {
                // count/size fields at extremes: overwrite the first 4 bytes of the body
                if body.len() >= 4 {
                    let v = *r.pick(&[0u32, 1, u32::MAX, 1 << 20, (1 << 20) + 1, 65536, 0x0fff_ffff]);
                    body[..4].copy_from_slice(&v.to_le_bytes());
                }
                mut_tag = "count-extreme";
            }
            7 => {
                // random bytes
                let k = r.below(200) as usize;
                body = r.bytes(k);
                len = (40 + body.len()) as u32;
                mut_tag = "random-body";
            }
            _ => {
                // doubled / leading NUL
                body.insert(0, 0);
                len = (40 + body.len()) as u32;
                mut_tag = "leading-nul";
            }
        }
    }
    let mut req = srvgen::header(len, opn, unique, nodeid, uid, gid, pid, r.field(32) as u32);
    req.extend_from_slice(&body);
    if mutate && r.chance(1, 12) {
        let k = r.below(40) as usize;
        req.truncate(k); // shorter than a header
    }
    // answer
    let ans = if r.chance(1, 6) {
        srvgen::gen_error(r)
    } else if r.chance(1, 40) {
        "ans=unit".to_string()
    } else {
        let k = *r.pick(b.ans);
        srvgen::gen_answer(k, b.tag, op, r)
    };
    // the async trait cannot carry a passthrough id, so C20 compares on answers without one
    let ans = if prop == "C20" {
        let mut t: Vec<String> = ans.split(' ').map(|x| if x.starts_with("pt=") { "pt=none".to_string() } else { x.to_string() }).collect();
        t.retain(|x| !x.is_empty());
        t.join(" ")
    } else { ans };
    let need = reply_need(&b, &ans);
    // reply capacity
    let cap_choice = r.below(14);
    let mut cap = match cap_choice {
        0 => 0,
        1 => 15,
        2 => 16,
        3 => 17,
        4 => need.saturating_sub(1),
        5 => need,
        6 => need + 8,
        7 => need + 16,
        _ => need + 16 + r.below(5000) as usize,
    };
    if b.tag == "dir" {
        // directory replies: capacity relative to the requested size
        let size = if b.body.len() >= 20 { le32(&b.body, 16) as usize } else { 0 };
        cap = match r.below(8) {
            0 => size.saturating_sub(1),
            1 => size,
            2 => size + 8,
            3 => size + 15,
            4 => size + 16,
            _ => size + 16 + r.below(4096) as usize,
        };
    }
    if prop == "C02" || prop == "C03" {
        if r.chance(9, 10) { cap = std::cmp::max(cap, need + 16 + 4096); }
    }
    let dir_size = if b.tag == "dir" && b.body.len() >= 20 { le32(&b.body, 16) as usize } else { 0 };
    let cap_ok = cap >= need && (b.tag != "dir" || cap >= dir_size + 16);
    // is the capacity enough for the server to reach the file system at all
    let fs_reach = match b.tag { "dir" => cap >= dir_size + 16, "read" => cap >= 16, _ => true };
    let fusedev = r.chance(1, 2);
    let remap = match r.below(12) { 0 => "err".to_string(), 1 => format!("set:{}:{}", r.field(32), r.field(32)), _ => "ok".to_string() };
    let (ctx_uid, ctx_gid) = if let Some(rest) = remap.strip_prefix("set:") {
        let p: Vec<&str> = rest.split(':').collect();
        (p[0].parse::<u64>().unwrap(), p[1].parse::<u64>().unwrap())
    } else {
        (uid as u64, gid as u64)
    };
    let exp = match &b.exp {
        Some((m, a)) => {
            let (u, gg, p) = if m == "init" || m == "destroy" || m == "notify_reply" { (0, 0, 0) } else { (ctx_uid, ctx_gid, pid as u64) };
            let mut s = format!("{}({},{},{}", m, u, gg, p);
            for x in a { s.push('|'); s.push_str(x); }
            s.push(')');
            s
        }
        None => String::new(),
    };
    let vu = if b.vu { if r.chance(5, 6) { 1 } else { 0 } } else { r.below(2) };
    let init_major_ok = op != 26 || (b.body.len() >= 4 && le32(&b.body, 0) == 7);
    let init_wf = op == 26 && wf && remap != "err";
    let wf_flag = wf && remap != "err" && (!b.vu || vu == 1) && op != 47 && init_major_ok;
    let mut line = format!("t={} cap={} op={} mut={} wf={} needs_reply={} cap_ok={} fs_reach={} vu={} remap={} ",
        if fusedev { "fusedev" } else { "virtio" }, cap, opn, mut_tag, if wf_flag { 1 } else { 0 },
        if b.needs_reply { 1 } else { 0 }, if cap_ok && cap >= 16 { 1 } else { 0 }, if fs_reach { 1 } else { 0 }, vu, remap);
    if wf_flag { line.push_str(&format!("exp={} ", exp)); }
    if init_wf { line.push_str("init_wf=1 "); }
    if op == 1 && (prop == "C12" || r.chance(1, 3)) {
        line.push_str(&format!("pre_minor={} ", *r.pick(&[0u32, 3, 4, 5, 33])));
        if r.chance(1, 2) {
            line.push_str(&format!("pre_refused={} ", *r.pick(&[0u32, 3, 4, 33])));
        }
    }
    if !fusedev {
        let rl = split_lens(req.len(), r);
        let wl = split_lens(cap, r);
        let rls: Vec<String> = rl.iter().map(|x| x.to_string()).collect();
        let wls: Vec<String> = wl.iter().map(|x| x.to_string()).collect();
        let lay = r.below(32);
        let placed = vq::place(lay, &rl, &wl);
        let wa: Vec<String> = placed.iter().filter(|x| x.writable).map(|x| format!("{}:{}", x.addr, x.len)).collect();
        line.push_str(&format!("seg={} wseg={} lay={} waddr={} ", rls.join(","), wls.join(","), lay, wa.join(",")));
    }
    line.push_str(&format!("req={} {}", hex(&req), ans));
    line
}

fn main() {
    let a = args();
    let mut out = Out::new(a.get("out").map(|s| s.as_str()).unwrap_or("/verif/.work/srv"));
    if std::env::var("FBR_PANIC_VERBOSE").is_err() {
        std::panic::set_hook(Box::new(|_| {}));
    }
    let cx = Ctx { mem: vq::new_mem(), sock: socketpair() };
    let prop_early = a.get("prop").cloned().unwrap_or_else(|| "C01".into());
    let is_async = prop_early == "C20" || a.get("mode").map(|m| m == "async").unwrap_or(false);
    if let Some(f) = a.get("cases") {
        for line in std::fs::read_to_string(f).unwrap().lines() {
            fbrh::util::crumb(line);
            if line.trim().is_empty() { continue; }
            let o = if is_async { exec_async(&cx, line, &mut out) } else { exec(&cx, line, &mut out) };
            out.case(line, &o);
        }
        out.finish();
        return;
    }
    let seed: u64 = a.get("seed").and_then(|s| s.parse().ok()).unwrap_or(1);
    let n: u64 = a.get("n").and_then(|s| s.parse().ok()).unwrap_or(3000);
    let prop = a.get("prop").cloned().unwrap_or_else(|| "C01".into());
    if let Some(b) = a.get("big").and_then(|s| s.parse::<usize>().ok()) {
        srvgen::BIG_LEFT.store(b, std::sync::atomic::Ordering::Relaxed);
    }
    let mut_pct: u64 = a.get("mutpct").and_then(|s| s.parse().ok()).unwrap_or(match prop.as_str() { "C01" => 50, "C20" => 35, "C12" => 5, _ => 10 });
    let mut r = Prng::new(seed ^ 0x5127);
    if prop == "C03" {
        for i in 0..(n / 20).max(60) {
            let kind = ["entry", "inode", "resend"][(i % 3) as usize];
            let cap = match r.below(8) { 0 => 0, 1 => 15, 2 => 16, 3 => 31, 4 => 32, 5 => 40, _ => r.range(41, 5000) };
            let line = match kind {
                "entry" => { let nm = srvgen::gen_name(&mut r); format!("notify=entry cap={} parent={} name={}", cap, r.field(64), hex(&nm)) }
                "inode" => format!("notify=inode cap={} ino={} off={} len={}", cap, r.field(64), r.field(64), r.field(64)),
                _ => format!("notify=resend cap={}", cap),
            };
            out.stat(&format!("notify:{}", kind));
            fbrh::util::crumb(&line);
            let o = exec(&cx, &line, &mut out);
            out.case(&line, &o);
        }
    }
    for i in 0..n {
        // C12: INIT requests, and every eighth case a LOOKUP after a negotiated (and possibly a refused
        // second) INIT: the negotiated version selects the reply layout
        let op = if prop == "C12" && i % 8 == 7 { 1 } else if prop == "C12" { 26 } else if i < 2 * srvgen::ALL_OPS.len() as u64 { srvgen::ALL_OPS[(i as usize) % srvgen::ALL_OPS.len()] } else { *r.pick(srvgen::ALL_OPS) };
        let mutate = r.below(100) < mut_pct;
        let line = {
            let mut g = GenCtx { r: &mut r };
            mk_case(&mut g, op, mutate, &prop)
        };
        let kvl = parse_kv(&line);
        if std::env::var("FBR_TRACE_CASES").is_ok() {
            let _ = std::fs::write("/verif/.work/last_case.txt", &line);
        }
        out.stat(&format!("op{}", ks(&kvl, "op")));
        out.stat(&format!("mut:{}", ks(&kvl, "mut")));
        out.stat(&format!("t:{}", ks(&kvl, "t")));
        out.stat(&format!("ans:{}", ks(&kvl, "ans")));
        fbrh::util::crumb(&line);
        let o = if is_async { exec_async(&cx, &line, &mut out) } else { exec(&cx, &line, &mut out) };
        let rk = o.rsplit("ret=").next().unwrap_or("").to_string();
        out.stat(&format!("ret:{}", rk.split(':').take(if rk.starts_with("err") { 2 } else { 1 }).collect::<Vec<_>>().join(":")));
        out.case(&line, &o);
        if prop != "C12" && i % 40 == 7 {
            read_fault_probe(&cx, &mut r, &mut out, is_async);
        }
        if prop != "C12" && !is_async && i % 40 == 23 {
            zero_copy_probe(&cx, &mut r, &mut out);
        }
    }
    out.finish();
}
