//! `fileio` stage (C04, C20): the file adapters of `src/common/file_traits.rs` /
//! `src/common/async_file.rs` — `FileReadWriteVolatile for std::fs::File` (preadv64/pwritev64) and
//! the hand-unrolled `AsyncFileReadWriteVolatile for async_file::File` — on a real file, against
//! the model `Fbr.FileIo` (segment-by-segment positioned operations; proved equal to one operation
//! on the concatenation).
//!
//! case:  m=<rv|wv|ra|wa|arv|awv|ara|awa> flen=<n> off=<o> segs=<l1,l2,..> seed=<s>
//! out :  ret=<count> file=<bytes> bufs=<bytes of each buffer>
use std::io::Write;
use std::os::unix::fs::FileExt;

use fbrh::prng::Prng;
use fbrh::util::{args, Out};
use fuse_backend_rs::file_buf::{FileVolatileBuf, FileVolatileSlice};
use fuse_backend_rs::file_traits::{AsyncFileReadWriteVolatile, FileReadWriteVolatile};

fn file_pat(seed: u64, i: u64) -> u8 {
    ((i * 7 + seed) % 251) as u8
}
fn data_pat(seed: u64, i: u64) -> u8 {
    ((i * 13 + seed + 5) % 253) as u8
}
fn show(b: &[u8]) -> String {
    b.iter().map(|x| x.to_string()).collect::<Vec<_>>().join(".")
}

fn exec(line: &str, path: &str, out: &mut Out) -> String {
    let kv: std::collections::BTreeMap<&str, &str> = line.split_whitespace().filter_map(|t| t.split_once('=')).collect();
    let n = |k: &str| kv.get(k).and_then(|v| v.parse::<u64>().ok()).unwrap_or(0);
    let m = kv.get("m").copied().unwrap_or("rv");
    let (flen, off, seed) = (n("flen"), n("off"), n("seed"));
    let segs: Vec<usize> = kv.get("segs").copied().unwrap_or("").split(',').filter(|s| !s.is_empty()).filter_map(|s| s.parse().ok()).collect();
    let init: Vec<u8> = (0..flen).map(|i| file_pat(seed, i)).collect();
    std::fs::write(path, &init).unwrap();
    let reading = matches!(m, "rv" | "arv" | "ra" | "ara");
    // buffers: one allocation per segment, surrounded by guard bytes
    const G: usize = 8;
    let mut start = 0u64;
    let mut bufs: Vec<Vec<u8>> = segs
        .iter()
        .map(|&l| {
            let mut v = vec![0xC3u8; l + 2 * G];
            for i in 0..l {
                v[G + i] = if reading { 0xEE } else { data_pat(seed, start + i as u64) };
            }
            start += l as u64;
            v
        })
        .collect();
    let total: usize = segs.iter().sum();
    let mut received: Vec<Vec<u8>> = Vec::new();
    let ret: Result<usize, String>;
    match m {
        "rv" | "wv" | "ra" | "wa" => {
            let mut f = std::fs::OpenOptions::new().read(true).write(true).open(path).unwrap();
            let slices: Vec<FileVolatileSlice> = bufs.iter_mut().zip(segs.iter()).map(|(b, &l)| unsafe { FileVolatileSlice::from_raw_ptr(b.as_mut_ptr().add(G), l) }).collect();
            let r = match m {
                "rv" => f.read_vectored_at_volatile(&slices, off),
                "wv" => f.write_vectored_at_volatile(&slices, off),
                "ra" => f.read_at_volatile(slices[0], off),
                _ => f.write_at_volatile(slices[0], off),
            };
            ret = r.map_err(|e| format!("err:{}", e.raw_os_error().unwrap_or(-1)));
            if let (true, Ok(mut c)) = (reading, ret.clone()) {
                for (b, &l) in bufs.iter().zip(segs.iter()) {
                    let k = c.min(l);
                    received.push(b[G..G + k].to_vec());
                    c -= k;
                }
            }
        }
        _ => {
            let fbufs: Vec<FileVolatileBuf> = bufs
                .iter_mut()
                .zip(segs.iter())
                .map(|(b, &l)| unsafe { if reading { FileVolatileBuf::new(&mut b[G..G + l]) } else { FileVolatileBuf::new_with_data(&mut b[G..G + l], l) } })
                .collect();
            let p = path.to_string();
            let (r, back) = fuse_backend_rs::async_runtime::block_on(async move {
                let file = fuse_backend_rs::async_file::File::async_open(&p, true, false).await.unwrap();
                match m {
                    "arv" => file.async_read_vectored_at_volatile(fbufs, off).await,
                    "awv" => file.async_write_vectored_at_volatile(fbufs, off).await,
                    "ara" => {
                        let (r, b) = file.async_read_at_volatile(fbufs[0], off).await;
                        (r, vec![b])
                    }
                    _ => {
                        let (r, b) = file.async_write_at_volatile(fbufs[0], off).await;
                        (r, vec![b])
                    }
                }
            });
            ret = r.map_err(|e| format!("err:{}", e.raw_os_error().unwrap_or(-1)));
            if reading {
                for (k, b) in bufs.iter().enumerate() {
                    let sz = back.get(k).map(|x| x.len()).unwrap_or(0).min(segs[k]);
                    received.push(b[G..G + sz].to_vec());
                }
            }
        }
    }
    let after = std::fs::read(path).unwrap();
    let canary = bufs.iter().zip(segs.iter()).any(|(b, &l)| b[..G].iter().any(|&x| x != 0xC3) || b[G + l..].iter().any(|&x| x != 0xC3));
    let mut fire = |key: String, what: String| {
        let v = serde_json::json!({"prop": "C04", "key": key, "case": line, "what": what});
        writeln!(out.oracle, "{}", v).unwrap();
        out.n_oracle += 1;
    };
    if canary {
        fire(format!("C04:file-adapter:{}:oob", m), "bytes outside a buffer were modified".into());
    }
    // ---- direct oracle: the trait's contract "as a single call with the buffers concatenated"
    match &ret {
        Ok(c) => {
            if reading {
                let want_n = (flen.saturating_sub(off) as usize).min(if m == "ra" || m == "ara" { segs[0] } else { total });
                let got: Vec<u8> = received.concat();
                let want: Vec<u8> = init.iter().skip(off as usize).take(want_n).copied().collect();
                if *c != want_n || got != want || after != init {
                    fire(format!("C04:file-adapter:{}", m), format!("read {} bytes {:?}; a single read of the total size gives {} bytes {:?}", c, show(&got), want_n, show(&want)));
                }
            } else {
                let data: Vec<u8> = (0..if m == "wa" || m == "awa" { segs[0] } else { total } as u64).map(|i| data_pat(seed, i)).collect();
                let mut want = init.clone();
                if !data.is_empty() {
                    if want.len() < off as usize + data.len() {
                        want.resize(off as usize + data.len(), 0);
                    }
                    want[off as usize..off as usize + data.len()].copy_from_slice(&data);
                }
                if *c != data.len() || after != want {
                    fire(format!("C04:file-adapter:{}", m), format!("file is {:?} after writing {} bytes at {}; a single write of the concatenation gives {:?}", show(&after), c, off, show(&want)));
                }
            }
        }
        Err(e) => fire(format!("C04:file-adapter:{}:error", m), format!("failed with {}", e)),
    }
    let shown: Vec<String> = if reading {
        received.iter().map(|b| show(b)).collect()
    } else {
        bufs.iter().zip(segs.iter()).map(|(b, &l)| show(&b[G..G + l])).collect()
    };
    let _ = f_unused();
    format!("ret={} file={} bufs={}", match &ret { Ok(c) => c.to_string(), Err(e) => e.clone() }, show(&after), shown.join(","))
}

fn f_unused() -> Option<std::fs::File> {
    // keep `FileExt` in use on all configurations
    let _ = |f: &std::fs::File, b: &mut [u8]| f.read_at(b, 0);
    None
}

fn main() {
    let a = args();
    let mut out = Out::new(a.get("out").map(|s| s.as_str()).unwrap_or("/verif/.work/fileio/out"));
    let dir = format!("/verif/.work/fileio-tmp/{}", std::process::id());
    std::fs::create_dir_all(&dir).unwrap();
    let path = format!("{}/f", dir);
    if let Some(f) = a.get("cases") {
        for line in std::fs::read_to_string(f).unwrap().lines() {
            fbrh::util::crumb(line);
            if line.trim().is_empty() {
                continue;
            }
            let o = exec(line, &path, &mut out);
            out.case(line, &o);
        }
        let _ = std::fs::remove_dir_all(&dir);
        out.finish();
        return;
    }
    let seed: u64 = a.get("seed").and_then(|s| s.parse().ok()).unwrap_or(1);
    let n: u64 = a.get("n").and_then(|s| s.parse().ok()).unwrap_or(2000);
    let mut r = Prng::new(seed ^ 0xf11e10);
    for _ in 0..n {
        let m = *r.pick(&["rv", "wv", "arv", "awv", "arv", "awv", "ra", "wa", "ara", "awa"]);
        let single = matches!(m, "ra" | "wa" | "ara" | "awa");
        let nseg = if single { 1 } else { r.range(1, 12) as usize };
        let equal = r.chance(1, 4);
        let e = r.range(0, 9);
        let segs: Vec<u64> = (0..nseg).map(|_| if equal { e } else if r.chance(1, 8) { 0 } else { r.range(1, 24) }).collect();
        let total: u64 = segs.iter().sum();
        let flen = match r.below(4) { 0 => 0, 1 => total, 2 => r.below(total + 2), _ => r.range(0, 200) };
        let off = match r.below(4) { 0 => 0, 1 => flen, 2 => flen + r.range(1, 9), _ => r.below(flen + 1) };
        let line = format!("m={} flen={} off={} segs={} seed={}", m, flen, off, segs.iter().map(|x| x.to_string()).collect::<Vec<_>>().join(","), r.below(200));
        fbrh::util::crumb(&line);
        out.stat(&format!("m:{}", m));
        out.stat(&format!("nseg:{}", nseg));
        let o = exec(&line, &path, &mut out);
        out.class(&format!("{}|{}|{}", m, nseg, if o.contains("ret=err") { "err" } else if o.starts_with(&format!("ret={} ", total)) { "full" } else { "short" }));
        out.case(&line, &o);
    }
    let _ = std::fs::remove_dir_all(&dir);
    out.finish();
}
