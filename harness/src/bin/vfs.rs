//! `vfs` engine (C07, C14, C19): whole mount/umount/request histories against the real `Vfs` with
//! scripted logging backends (see `fbrh::vfsrun` for the step syntax), generated *online* (the
//! generator looks at the indices the real `mount` returned) or replayed from `--cases FILE`.
//! Direct oracles (independent of the Lean model) are evaluated after every step from the
//! harness's own record of what it mounted where.
use std::collections::BTreeMap;
use std::panic::{catch_unwind, AssertUnwindSafe};

use fbrh::prng::Prng;
use fbrh::scriptfs::parse_kv;
use fbrh::util::{args, hex, unhex, Out};
use fbrh::vfsrun::{parse_map, spec_remap, Cfg, Live, Map, StepOut, World, VFS_MAX_INO};
use fuse_backend_rs::api::filesystem::{Context, FileSystem};

const U32MAX: u64 = u32::MAX as u64;

#[derive(Clone)]
enum Tgt {
    Pseudo(u64),
    Bk(Live, u64),
    Stale,
}

fn resolve(live: &BTreeMap<u8, Live>, x: u64) -> Tgt {
    let idx = (x >> 56) as u8;
    let i = x & VFS_MAX_INO;
    if idx == 0 {
        if i == 1 {
            if let Some(l) = live.values().find(|l| l.pino == 1) {
                return Tgt::Bk(l.clone(), l.root_ino);
            }
        }
        Tgt::Pseudo(i)
    } else if let Some(l) = live.get(&idx) {
        Tgt::Bk(l.clone(), i)
    } else {
        Tgt::Stale
    }
}

fn tgt_idx(t: &Tgt) -> Option<u8> {
    match t {
        Tgt::Pseudo(_) => Some(0),
        Tgt::Bk(l, _) => Some(l.idx),
        Tgt::Stale => None,
    }
}

const NAME_OPS: &[&str] = &["symlink", "mknod", "mkdir", "unlink", "rmdir", "rename", "link", "create", "setxattr", "getxattr", "removexattr"];
const ENTRY_OPS: &[&str] = &["lookup", "symlink", "mknod", "mkdir", "link", "create"];
const NUM_OPS: &[&str] = &["readlink", "read", "write", "statfs", "getxattr", "listxattr", "open", "opendir"];
const ALL_OPS: &[&str] = &[
    "lookup", "forget", "getattr", "setattr", "readlink", "symlink", "mknod", "mkdir", "unlink", "rmdir", "rename", "link",
    "open", "create", "read", "write", "flush", "fsync", "fallocate", "release", "statfs", "setxattr", "getxattr", "listxattr",
    "removexattr", "opendir", "readdir", "readdirplus", "fsyncdir", "releasedir", "access", "setupmapping", "removemapping",
];
const SRV_OPS: &[&str] = &["lookup", "forget", "getattr", "setattr", "symlink", "mknod", "mkdir", "unlink", "rmdir", "rename", "link", "create", "access"];

fn name_ok(op: &str, hexname: &str) -> bool {
    let n = unhex(hexname);
    if n.contains(&b'/') {
        return false;
    }
    op == "lookup" || !(n == b"." || n == b"..")
}

/// the mapping the property prescribes for a mount: its own if it was given one, else the global
fn eff(l: &Live, g: Option<Map>) -> Option<Map> {
    l.own_map.or(g)
}

/// translate with the property's arithmetic; None = the configuration overflows u32 here
fn tr(m: Option<Map>, to_ext: bool, v: u64) -> Option<u64> {
    match m {
        None => Some(v),
        Some((i, e, r)) => {
            let (f, t) = if to_ext { (i, e) } else { (e, i) };
            let x = spec_remap(v as u32, f, t, r);
            if x > U32MAX {
                None
            } else {
                Some(x)
            }
        }
    }
}

struct Runner<'a> {
    line_cfg: String,
    prop: String,
    w: World,
    /// C19: the instance that is never saved/restored; executes the same steps minus `s`
    a: Option<World>,
    a_diverged: bool,
    steps: Vec<String>,
    outs: Vec<String>,
    hits: Vec<(String, String, String)>, // (prop, key, what)
    out: &'a mut Out,
    panicked: bool,
    /// paths that were ever given to mount (for pseudo-inode comparisons)
    paths: Vec<String>,
    orphaned: bool,
    /// remove_pseudo_root: some umount evicted a pseudo directory
    evicted: bool,
    walks: u64,
    /// the last event that left `initialized` false although options were negotiated
    uninit_cause: &'static str,
    /// booking the umount half of an `X` step (the mount half already happened in the real Vfs)
    pair_first: bool,
}

fn norm_components(path: &str) -> Option<Vec<Option<String>>> {
    if !path.starts_with('/') {
        return None;
    }
    Some(
        path.split('/')
            .filter(|s| !s.is_empty() && *s != ".")
            .map(|s| if s == ".." { None } else { Some(s.to_string()) })
            .collect(),
    )
}

impl<'a> Runner<'a> {
    fn new(cfg_tokens: &str, prop: &str, dual: bool, out: &'a mut Out) -> Self {
        let kv = parse_kv(cfg_tokens);
        let cfg = Cfg::parse(&kv);
        Runner {
            line_cfg: cfg_tokens.to_string(),
            prop: prop.to_string(),
            w: World::new(&cfg),
            a: if dual { Some(World::new(&cfg)) } else { None },
            a_diverged: false,
            steps: vec![],
            outs: vec![],
            hits: vec![],
            out,
            panicked: false,
            paths: vec![],
            orphaned: false,
            evicted: false,
            walks: 0,
            uninit_cause: "after-destroy",
            pair_first: false,
        }
    }

    fn hit(&mut self, prop: &str, key: String, what: String) {
        if !self.hits.iter().any(|h| h.1 == key) {
            self.hits.push((prop.to_string(), key, what));
        }
    }

    fn case_line(&self) -> String {
        format!("{} ops={}", self.line_cfg, self.steps.join(";"))
    }

    /// execute one step of the history.  `X:<umount path>:<mount fields>` runs an UMOUNT and a MOUNT
    /// on two threads (the umount parked in its backend's destroy() while the mount is attempted)
    /// and then books both like the sequential steps `u:..` and `m:..`, which is what the model runs.
    fn exec(&mut self, st: &str) {
        if st.starts_with("X:") {
            if self.panicked {
                return;
            }
            let f: Vec<&str> = st.split(':').collect();
            if f.len() < 7 {
                return;
            }
            let mf: Vec<&str> = std::iter::once("m").chain(f[2..].iter().copied()).collect();
            self.steps.push(st.to_string());
            self.out.stat("step:X");
            if catch_unwind(AssertUnwindSafe(|| self.w.run_pair(f[1], &mf))).is_err() {
                self.panicked = true;
                if !self.overflow_config() {
                    let p = self.prop.clone();
                    self.hit(&p, format!("{}:panic:X", p), format!("step `{}` panicked", st));
                }
                return;
            }
            // while the umount half is booked the real Vfs already holds the mount of the second
            // half: oracles that probe the live Vfs wait until both halves are booked
            self.pair_first = true;
            self.exec_step(&format!("u:{}", f[1]), false);
            self.pair_first = false;
            self.exec_step(&mf.join(":"), false);
            return;
        }
        if st.starts_with("W:") {
            if self.panicked {
                return;
            }
            let f: Vec<&str> = st.split(':').collect();
            if f.len() < 7 {
                return;
            }
            let mf: Vec<&str> = std::iter::once("m").chain(f[2..].iter().copied()).collect();
            self.steps.push(st.to_string());
            self.out.stat("step:W");
            if catch_unwind(AssertUnwindSafe(|| self.w.run_pair_mount_first(f[1], &mf))).is_err() {
                self.panicked = true;
                if !self.overflow_config() {
                    let p = self.prop.clone();
                    self.hit(&p, format!("{}:panic:W", p), format!("step `{}` panicked", st));
                }
                return;
            }
            // mount first, then the umount that waited for it
            self.pair_first = true;
            self.exec_step(&mf.join(":"), false);
            self.pair_first = false;
            self.exec_step(&format!("u:{}", f[1]), false);
            return;
        }
        if st.starts_with("Z:") {
            if self.panicked {
                return;
            }
            let f: Vec<&str> = st.split(':').collect();
            if f.len() < 7 {
                return;
            }
            let mf: Vec<&str> = std::iter::once("m").chain(f[2..].iter().copied()).collect();
            self.steps.push(st.to_string());
            self.out.stat("step:Z");
            if catch_unwind(AssertUnwindSafe(|| self.w.run_pair_init(f[1], &mf))).is_err() {
                self.panicked = true;
                if !self.overflow_config() {
                    let p = self.prop.clone();
                    self.hit(&p, format!("{}:panic:Z", p), format!("step `{}` panicked", st));
                }
                return;
            }
            self.pair_first = true;
            self.exec_step(&format!("i:{}", f[1]), false);
            self.pair_first = false;
            self.exec_step(&mf.join(":"), false);
            return;
        }
        if st.starts_with("Y:") {
            if self.panicked {
                return;
            }
            let f: Vec<&str> = st.split(':').collect();
            if f.len() < 6 {
                return;
            }
            let rstep = format!("r:lookup:{}:{}:{}:{}::", f[2], f[3], f[4], f[5]);
            let rf: Vec<&str> = rstep.split(':').collect();
            self.steps.push(st.to_string());
            self.out.stat("step:Y");
            if catch_unwind(AssertUnwindSafe(|| self.w.run_pair_lookup(f[1], &rf))).is_err() {
                self.panicked = true;
                if !self.overflow_config() {
                    let p = self.prop.clone();
                    self.hit(&p, format!("{}:panic:Y", p), format!("step `{}` panicked", st));
                }
                return;
            }
            self.pair_first = true;
            self.exec_step(&format!("u:{}", f[1]), false);
            self.pair_first = false;
            self.exec_step(&rstep, false);
            return;
        }
        self.exec_step(st, true)
    }

    /// execute one step on the primary world (and the never-restored twin), evaluate the oracles
    fn exec_step(&mut self, st: &str, record: bool) {
        if self.panicked {
            return;
        }
        if record {
            self.steps.push(st.to_string());
        }
        let pre_live = self.w.live.clone();
        let gmap = if self.w.cfg.gmap_raw.2 == 0 { None } else { Some(self.w.cfg.gmap_raw) };
        let no_open = self.w.vfs.options().no_open;
        let no_opendir = self.w.vfs.options().no_opendir;
        let r = catch_unwind(AssertUnwindSafe(|| self.w.step(st)));
        let so = match r {
            Ok(s) => s,
            Err(_) => {
                self.panicked = true;
                let calls = std::mem::take(&mut *self.w.sh.log.lock().unwrap());
                StepOut { res: "panic".into(), calls }
            }
        };
        if so.res == "panic" {
            self.panicked = true; // a half of an `X` step that panicked on its own thread
        }
        self.outs.push(so.show());
        let f: Vec<&str> = st.split(':').collect();
        let kind = if f[0] == "r" || f[0] == "R" { f[1].to_string() } else { f[0].to_string() };
        self.out.stat(&format!("step:{}", if f[0] == "R" { "r" } else { f[0] }));
        if f[0] == "R" {
            self.out.stat("via:server");
        }
        let rk = res_kind(&so.res);
        self.out.stat(&format!("res:{}", rk));
        // ---- C19 twin ----
        if let Some(a) = self.a.as_mut() {
            if f[0] != "s" {
                let ra = catch_unwind(AssertUnwindSafe(|| a.step(st)));
                let sa = ra.map(|s| s.show()).unwrap_or_else(|_| "panic".into());
                if !self.a_diverged && sa != so.show() && !self.panicked {
                    self.hit("C19", format!("C19:restore-diff:{}", kind), format!("step `{}`: never-restored instance answered `{}`, restored instance `{}`", st, sa, so.show()));
                    self.a_diverged = true;
                }
            }
        }
        if self.panicked {
            // overflow of the id arithmetic is a configuration precondition (C14 remap_inverse);
            // any other panic is a finding
            let overflow_possible = self.overflow_config();
            if !overflow_possible {
                self.hit(&self.prop.clone(), format!("{}:panic:{}", self.prop, kind), format!("step `{}` panicked", st));
            }
            return;
        }
        if f[0] == "d" {
            self.uninit_cause = "after-destroy";
        }
        if f[0] == "i" && so.res.starts_with('e') && so.res != "e22" {
            self.uninit_cause = "after-failed-init";
        }
        match f[0] {
            "m" => self.after_mount(&f, &so, &pre_live),
            "u" => self.after_umount(&f, &so, &pre_live),
            "s" => self.after_restore(&f, &so, &pre_live),
            "r" | "R" => self.check_req(&f, &so, &pre_live, gmap, no_open, no_opendir),
            _ => {}
        }
        let tk = if f[0] == "r" || f[0] == "R" {
            match resolve(&pre_live, f[4].parse().unwrap_or(0)) {
                Tgt::Pseudo(_) => "pseudo",
                Tgt::Bk(l, _) => if l.pino == 1 { "rootmnt" } else { "mount" },
                Tgt::Stale => "stale",
            }
        } else {
            "-"
        };
        if f[0] == "r" || f[0] == "R" {
            self.out.stat(&format!("tgt:{}", tk));
            self.out.stat(&format!("op:{}", kind));
        }
        self.out.class(&format!("{}|{}|{}", kind, tk, rk));
    }

    /// does any configured mapping violate `base + range <= 2^32` (then `remap_id` may overflow)
    fn overflow_config(&self) -> bool {
        let bad = |m: &Map| m.0 as u64 + m.2 as u64 > U32MAX + 1 || m.1 as u64 + m.2 as u64 > U32MAX + 1;
        let mut maps: Vec<Map> = vec![];
        if self.w.cfg.gmap_raw.2 != 0 {
            maps.push(self.w.cfg.gmap_raw);
        }
        if let Some(kv) = parse_kv(&self.line_cfg).get("gmap") {
            if let Some(m) = parse_map(kv) {
                maps.push(m);
            }
        }
        for s in self.steps.iter() {
            let f: Vec<&str> = s.split(':').collect();
            if f[0] == "m" {
                if let Some(m) = parse_map(f[3]) {
                    maps.push(m);
                }
            }
            if (f[0] == "X" || f[0] == "Z" || f[0] == "W") && f.len() > 4 {
                if let Some(m) = parse_map(f[4]) {
                    maps.push(m);
                }
            }
        }
        maps.iter().any(bad)
    }

    // ---------------------------------------------------------------- mount / umount oracles

    fn after_mount(&mut self, f: &[&str], so: &StepOut, pre: &BTreeMap<u8, Live>) {
        self.paths.push(f[1].to_string());
        // C12: a backend mounted on a Vfs whose INIT has been served is initialised with exactly
        // the options that INIT negotiated
        let pfx = format!("{}.init.", f[2]);
        if let Some(c) = so.calls.iter().find(|c| c.starts_with(&pfx)) {
            let got: u64 = c[pfx.len()..].parse().unwrap_or(u64::MAX);
            let want = self.w.vfs.options().out_opts.bits();
            if got != want {
                self.hit("C12", "C12:vfs:backend-init-options".into(), format!("mount `{}`: the backend was initialised with options {:#x}, the negotiated options are {:#x}", f[1], got, want));
            }
        }
        if let Some(idx) = so.res.strip_prefix("ok").and_then(|s| s.parse::<u8>().ok()) {
            self.out.stat("mount:ok");
            let pino = self.w.live.get(&idx).map(|l| l.pino).unwrap_or(0);
            if pino == 1 {
                self.out.stat("mount:root");
            }
            let over = pre.values().any(|l| l.pino == pino);
            if over {
                self.out.stat("mount:over");
            }
            if idx == 0 {
                self.hit("C07", "C07:idx-zero".into(), format!("mount `{}` returned the pseudo fs index 0", f[1]));
            }
            // a live mount at another mount point must not share the slot
            if let Some(l) = pre.get(&idx) {
                if l.pino != pino {
                    self.hit("C07", "C07:idx-duplicate".into(), format!("mount `{}` got index {} which backend {} at `{}` still occupies", f[1], idx, l.spec.id, l.path));
                }
            }
            if pre.len() >= 200 {
                self.out.stat("mount:crowded");
            }
            let wrapped = self.steps.iter().filter(|s| s.starts_with("m:")).count() > 255;
            if wrapped {
                self.out.stat("mount:after-wrap");
            }
            // (first half of a `W` step: the real Vfs has already run the umount of the second half)
            if !self.pair_first {
                self.crossing_check();
            }
        } else {
            self.out.stat(&format!("mount:{}", so.res.split('.').next().unwrap_or("")));
            if so.res == "EFsIndex" {
                // fails iff all 255 indices are taken
                if pre.len() < 255 {
                    self.hit("C07", "C07:alloc-failed-with-vacancy".into(), format!("mount `{}` failed with FsIndex while only {} mounts are live", f[1], pre.len()));
                }
            }
        }
    }

    fn after_umount(&mut self, f: &[&str], so: &StepOut, pre: &BTreeMap<u8, Live>) {
        if so.res.starts_with("ok") {
            self.out.stat("umount:ok");
            // with remove_pseudo_root an evicted directory may leave mounts below it unreachable
            if self.w.cfg.rm {
                self.evicted = true;
                let lost = self.w.live.values().any(|l| self.w.vfs.get_root_pseudofs().path_walk(&l.path).ok().flatten() != Some(l.pino));
                if lost {
                    self.orphaned = true;
                    self.out.stat("umount:orphans-a-mount");
                }
            }
            if !self.pair_first {
                self.crossing_check();
            }
        } else {
            self.out.stat(&format!("umount:{}", so.res.split('.').next().unwrap_or("")));
        }
        let _ = (f, pre);
    }

    /// C07 "crossing exactly at the mount path": walk every live mount path by lookups from the
    /// root; the reference for pseudo numbers is `PseudoFs::path_walk` (public API)
    fn crossing_check(&mut self) {
        if self.w.root_live().is_some() || self.orphaned {
            return; // a root mount hides the pseudo tree from lookups
        }
        self.walks += 1;
        // crowded tables: walk only every 16th time (the walk is quadratic in the number of mounts)
        if self.w.live.len() > 24 && self.walks % 16 != 0 {
            return;
        }
        let lives: Vec<Live> = self.w.live.values().cloned().collect();
        let by_pino: BTreeMap<u64, Live> = lives.iter().map(|l| (l.pino, l.clone())).collect();
        let mut ctx = Context::new();
        ctx.pid = 1;
        let saved_log = std::mem::take(&mut *self.w.sh.log.lock().unwrap());
        for l in lives.iter() {
            let comps = match norm_components(&l.path) {
                Some(c) => c,
                None => continue,
            };
            let mut cur: u64 = 1;
            let mut prefix = String::from("/");
            for c in comps.iter() {
                let name = match c {
                    Some(n) => n.clone(),
                    None => "..".to_string(),
                };
                prefix.push_str(&name);
                prefix.push('/');
                let expect_pino = self.w.vfs.get_root_pseudofs().path_walk(&prefix).ok().flatten().unwrap_or(0);
                let cn = std::ffi::CString::new(name.clone()).unwrap();
                let got = self.w.vfs.lookup(&ctx, cur.into(), &cn).map(|e| (e.inode, e.attr.st_ino));
                match by_pino.get(&expect_pino) {
                    Some(m) => {
                        let want = if m.root_ino == 0 { 0 } else { ((m.idx as u64) << 56) | m.root_ino };
                        if got.as_ref().ok() != Some(&(want, want)) {
                            self.hit("C07", "C07:crossing:mount-path".into(), format!("lookup of `{}` (mount point of backend {}) returned {:?}, expected inode {}", prefix, m.spec.id, got.as_ref().ok(), want));
                        } else {
                            // the same number in readdir / readdirplus of the parent and in getattr
                            self.listing_consistency(cur, &name, want, m);
                        }
                        break; // whatever lies below is served by that mount
                    }
                    None => {
                        if got.as_ref().ok() != Some(&(expect_pino, expect_pino)) {
                            self.hit("C07", "C07:crossing:pseudo-dir".into(), format!("lookup of pseudo directory `{}` returned {:?}, expected pseudo inode {}", prefix, got.as_ref().ok(), expect_pino));
                            break;
                        }
                        cur = expect_pino;
                    }
                }
            }
        }
        let extra = std::mem::replace(&mut *self.w.sh.log.lock().unwrap(), saved_log);
        if !extra.is_empty() {
            self.hit("C07", "C07:pseudo-reached-backend:walk".into(), format!("walking pseudo directories called backends: {}", extra.join("+")));
        }
    }

    fn listing_consistency(&mut self, parent: u64, name: &str, want: u64, m: &Live) {
        let mut ctx = Context::new();
        ctx.pid = 1;
        let mut rd: Vec<(u64, Vec<u8>)> = vec![];
        let _ = self.w.vfs.readdir(&ctx, parent.into(), 0, 4096, 0, &mut |d| {
            rd.push((d.ino, d.name.to_vec()));
            Ok(1)
        });
        let mut rdp: Vec<(u64, u64, u64, Vec<u8>)> = vec![];
        let _ = self.w.vfs.readdirplus(&ctx, parent.into(), 0, 4096, 0, &mut |d, e| {
            rdp.push((d.ino, e.inode, e.attr.st_ino, d.name.to_vec()));
            Ok(1)
        });
        if name != ".." {
            match rd.iter().find(|x| x.1 == name.as_bytes()) {
                Some(x) if x.0 == want => {}
                other => self.hit("C07", "C07:ino-inconsistent:pseudo-readdir".into(), format!("readdir of pseudo dir {} shows `{}` as {:?}, lookup says {}", parent, name, other.map(|x| x.0), want)),
            }
            match rdp.iter().find(|x| x.3 == name.as_bytes()) {
                Some(x) if x.0 == want && x.1 == want && x.2 == want => {}
                other => self.hit("C07", "C07:ino-inconsistent:pseudo-readdirplus".into(), format!("readdirplus of pseudo dir {} shows `{}` as {:?}, lookup says {}", parent, name, other.map(|x| (x.0, x.1, x.2)), want)),
            }
        }
        let _ = m;
    }

    // ---------------------------------------------------------------- request oracles

    #[allow(clippy::too_many_arguments)]
    fn check_req(&mut self, f: &[&str], so: &StepOut, pre: &BTreeMap<u8, Live>, gmap: Option<Map>, no_open: bool, no_opendir: bool) {
        let op = f[1];
        let uid: u64 = f[2].parse().unwrap_or(0);
        let gid: u64 = f[3].parse().unwrap_or(0);
        let ino: u64 = f[4].parse().unwrap_or(0);
        let a1 = f.get(5).copied().unwrap_or("");
        let a2 = f.get(6).copied().unwrap_or("");
        let ans = f.get(7).copied().unwrap_or("");
        let t1 = resolve(pre, ino);
        let two = op == "rename" || op == "link";
        let ino2: u64 = a2.parse().unwrap_or(0);
        let t2 = if two { Some(resolve(pre, ino2)) } else { None };
        let valid = match op {
            "lookup" => name_ok(op, a1),
            "rename" => {
                let n: Vec<&str> = a1.split('/').collect();
                name_ok(op, n[0]) && name_ok(op, n.get(1).copied().unwrap_or(""))
            }
            _ if NAME_OPS.contains(&op) => name_ok(op, a1),
            _ => true,
        };
        let blocked = (op == "open" && no_open) || (op == "opendir" && no_opendir);
        let calls: Vec<Vec<&str>> = so.calls.iter().map(|c| c.split('.').collect()).collect();
        let is_err = so.res.starts_with('e');

        // --- C07: delivery ---
        match &t1 {
            Tgt::Stale => {
                if !calls.is_empty() || !(is_err || op == "forget") {
                    self.hit("C07", "C07:stale-reached-backend".into(), format!("`{}` names inode {:#x} whose slot is vacant: result `{}` calls `{}`", op, ino, so.res, so.calls.join("+")));
                }
                return;
            }
            Tgt::Pseudo(_) => {
                if !calls.is_empty() {
                    self.hit("C07", format!("C07:pseudo-reached-backend:{}", op), format!("`{}` on pseudo inode {} called `{}`", op, ino, so.calls.join("+")));
                }
            }
            Tgt::Bk(l, i) => {
                let mut cross = false;
                let mut second_stale = false;
                if let Some(t2) = &t2 {
                    match tgt_idx(t2) {
                        None => second_stale = true,
                        Some(x) => cross = x != l.idx,
                    }
                }
                if cross && valid {
                    if !calls.is_empty() || so.res != "e22" {
                        self.hit("C07", format!("C07:cross-mount-not-refused:{}", op), format!("`{}` spans mount {} and another mount/pseudo fs: result `{}` calls `{}`", op, l.idx, so.res, so.calls.join("+")));
                    }
                    return;
                }
                for c in calls.iter() {
                    let ok_bk = c[0].parse::<u64>().ok() == Some(l.spec.id) && c.get(1).copied() == Some(op);
                    let ok_ino = c.get(4).and_then(|x| x.parse::<u64>().ok()) == Some(*i);
                    let ok_ino2 = match (&t2, op) {
                        (Some(Tgt::Bk(_, j)), "link") => c.get(5).and_then(|x| x.parse::<u64>().ok()) == Some(*j),
                        (Some(Tgt::Bk(_, j)), "rename") => c.get(6).and_then(|x| x.parse::<u64>().ok()) == Some(*j),
                        _ => true,
                    };
                    if !ok_bk || !ok_ino || !ok_ino2 {
                        self.hit("C07", format!("C07:misroute:{}", op), format!("`{}` on inode {:#x} belongs to backend {} inode {}; call seen: `{}`", op, ino, l.spec.id, i, c.join(".")));
                    }
                }
                let should_deliver = valid && !blocked && !second_stale;
                if should_deliver && calls.len() != 1 {
                    self.hit("C07", format!("C07:not-delivered:{}", op), format!("`{}` on inode {:#x} (backend {}) caused {} backend calls, result `{}`", op, ino, l.spec.id, calls.len(), so.res));
                }
                if !should_deliver && !calls.is_empty() {
                    self.hit("C07", format!("C07:delivered-invalid:{}", op), format!("`{}` must be refused before routing but called `{}`", op, so.calls.join("+")));
                }
                if calls.len() == 1 {
                    self.check_delivered(f, so, l, *i, &calls[0], gmap, uid, gid, ans);
                }
            }
        }
        // --- pseudo lookups / listings: mount roots seen through the pseudo fs ---
        if let Tgt::Pseudo(p) = &t1 {
            if op == "lookup" && !is_err {
                let v: Vec<u64> = so.res.split('/').map(|x| x.parse().unwrap_or(0)).collect();
                if v.len() == 4 {
                    let idx = (v[0] >> 56) as u8;
                    if idx != 0 {
                        self.out.stat("lookup:crossing");
                        match pre.get(&idx) {
                            Some(l) => self.check_root_ids("lookup", l, gmap, v[2], v[3]),
                            None => self.hit("C07", "C07:crossing:vacant-slot".into(), format!("pseudo lookup returned inode {:#x} of a vacant slot", v[0])),
                        }
                    } else {
                        // a pseudo directory: lookup and getattr must agree on its owner
                        let mut ctx = Context::new();
                        ctx.pid = 1;
                        if let Ok((st, _)) = self.w.vfs.getattr(&ctx, v[0].into(), None) {
                            if st.st_uid as u64 != v[2] || st.st_gid as u64 != v[3] {
                                self.hit("C14", "C14:pseudo-dir:lookup-getattr-differ".into(), format!("pseudo directory {}: lookup shows owner {}/{}, getattr {}/{}", v[0], v[2], v[3], st.st_uid, st.st_gid));
                            }
                        }
                    }
                }
            }
            if op == "readdirplus" && so.res.starts_with("ok[") {
                let body = &so.res[3..so.res.len() - 1];
                for e in body.split(',').filter(|x| !x.is_empty()) {
                    let v: Vec<&str> = e.split('.').collect();
                    let n = |k: usize| v.get(k).and_then(|x| x.parse::<u64>().ok()).unwrap_or(0);
                    let idx = (n(0) >> 56) as u8;
                    if idx != 0 {
                        if let Some(l) = pre.get(&idx) {
                            self.check_root_ids("readdirplus", l, gmap, n(4), n(5));
                        }
                    }
                }
            }
            let _ = p;
        }
    }

    fn classify_id(&self, l: &Live, nodeid_root: bool, matches_earlier: bool, dflt: String) -> String {
        if l.own_map.is_none() && matches_earlier {
            "C14:slot-reuse-inherits-map".into()
        } else if nodeid_root && l.pino == 1 {
            "C14:root-mount-global-map".into()
        } else {
            dflt
        }
    }

    /// owner ids of a mount root as the client sees them through the pseudo fs
    fn check_root_ids(&mut self, via: &str, l: &Live, gmap: Option<Map>, uid: u64, gid: u64) {
        let m = eff(l, gmap);
        let (wu, wg) = match (tr(m, true, l.root_uid as u64), tr(m, true, l.root_gid as u64)) {
            (Some(a), Some(b)) => (a, b),
            _ => return,
        };
        if (uid, gid) != (wu, wg) {
            let twice = tr(m, true, wu) == Some(uid) && tr(m, true, wg) == Some(gid);
            let earlier = l.earlier_maps.iter().any(|em| em.is_some() && tr(*em, true, l.root_uid as u64) == Some(uid));
            let key = if twice {
                format!("C14:{}_pseudo:double-remap", via)
            } else {
                self.classify_id(l, false, earlier, format!("C14:mount-root-wrong-id:{}", via))
            };
            self.hit("C14", key, format!("{} shows the root of backend {} (owner {}/{}, mapping {:?}) as {}/{}, expected {}/{}", via, l.spec.id, l.root_uid, l.root_gid, m, uid, gid, wu, wg));
        }
    }

    #[allow(clippy::too_many_arguments)]
    fn check_delivered(&mut self, f: &[&str], so: &StepOut, l: &Live, i: u64, call: &[&str], gmap: Option<Map>, uid: u64, gid: u64, ans: &str) {
        let op = f[1];
        let ino: u64 = f[4].parse().unwrap_or(0);
        let m = eff(l, gmap);
        let nodeid: u64 = if op == "link" { f.get(6).and_then(|x| x.parse().ok()).unwrap_or(0) } else { ino };
        let nodeid_root = nodeid == 1;
        // --- C14: the backend sees internal ids ---
        if let (Some(wu), Some(wg)) = (tr(m, false, uid), tr(m, false, gid)) {
            let su: u64 = call[2].parse().unwrap_or(u64::MAX);
            let sg: u64 = call[3].parse().unwrap_or(u64::MAX);
            if (su, sg) != (wu, wg) {
                let earlier = l.earlier_maps.iter().any(|em| em.is_some() && tr(*em, false, uid) == Some(su) && tr(*em, false, gid) == Some(sg));
                let key = self.classify_id(l, nodeid_root, earlier, format!("C14:backend-saw-external:{}", op));
                self.hit("C14", key, format!("`{}` by {}/{} on backend {} (mapping {:?}): backend saw context {}/{}, expected {}/{}", op, uid, gid, l.spec.id, m, su, sg, wu, wg));
            }
        }
        if op == "setattr" {
            let p: Vec<u64> = f[5].split('/').map(|x| x.parse().unwrap_or(0)).collect();
            if let (Some(wu), Some(wg)) = (tr(m, false, p[0]), tr(m, false, p.get(1).copied().unwrap_or(0))) {
                let su: u64 = call.get(5).and_then(|x| x.parse().ok()).unwrap_or(u64::MAX);
                let sg: u64 = call.get(6).and_then(|x| x.parse().ok()).unwrap_or(u64::MAX);
                if (su, sg) != (wu, wg) {
                    self.hit("C14", "C14:setattr-owner-not-internal".into(), format!("setattr owner {}/{} on backend {} (mapping {:?}) reached the backend as {}/{}, expected {}/{}", p[0], p.get(1).copied().unwrap_or(0), l.spec.id, m, su, sg, wu, wg));
                }
            }
        }
        if ans.starts_with('e') {
            return;
        }
        let idxbits = (l.idx as u64) << 56;
        let vis = |j: u64| -> Option<u64> {
            if j == 0 {
                Some(0)
            } else if j > VFS_MAX_INO {
                None
            } else {
                Some(idxbits | j)
            }
        };
        let mut id_check = |me: &mut Self, what: &str, bu: u64, bg: u64, cu: u64, cg: u64| {
            if let (Some(wu), Some(wg)) = (tr(m, true, bu), tr(m, true, bg)) {
                if (cu, cg) != (wu, wg) {
                    let twice = tr(m, true, wu) == Some(cu) && tr(m, true, wg) == Some(cg);
                    let earlier = l.earlier_maps.iter().any(|em| em.is_some() && tr(*em, true, bu) == Some(cu));
                    let key = if twice { format!("C14:double-remap:{}", what) } else { me.classify_id(l, false, earlier, format!("C14:client-saw-wrong-id:{}", what)) };
                    me.hit("C14", key, format!("{}: backend {} (mapping {:?}) returned owner {}/{}, client saw {}/{}, expected {}/{}", what, l.spec.id, m, bu, bg, cu, cg, wu, wg));
                }
            }
        };
        if ENTRY_OPS.contains(&op) {
            let p: Vec<u64> = ans.split('/').map(|x| x.parse().unwrap_or(0)).collect();
            let (j, bu, bg) = (p[0], p.get(1).copied().unwrap_or(0), p.get(2).copied().unwrap_or(0));
            match vis(j) {
                None => {
                    if !so.res.starts_with('e') {
                        self.hit("C07", format!("C07:ino-inconsistent:{}:too-large", op), format!("backend inode {:#x} does not fit 56 bits but `{}` answered `{}`", j, op, so.res));
                    }
                }
                Some(want) => {
                    let v: Vec<u64> = so.res.split('/').map(|x| x.parse().unwrap_or(u64::MAX)).collect();
                    if v.len() != 4 || v[0] != want || v[1] != want {
                        self.hit("C07", format!("C07:ino-inconsistent:{}", op), format!("`{}`: backend {} (index {}) returned inode {}; client saw `{}`, expected inode {}", op, l.spec.id, l.idx, j, so.res, want));
                    } else {
                        id_check(self, op, bu, bg, v[2], v[3]);
                    }
                }
            }
        } else if op == "getattr" || op == "setattr" {
            let p: Vec<u64> = ans.split('/').map(|x| x.parse().unwrap_or(0)).collect();
            let v: Vec<u64> = so.res.split('/').map(|x| x.parse().unwrap_or(u64::MAX)).collect();
            let want = idxbits | i;
            if v.len() != 3 || v[0] != want {
                self.hit("C07", format!("C07:ino-inconsistent:{}", op), format!("`{}` on inode {:#x}: st_ino in the reply `{}`, expected {}", op, ino, so.res, want));
            } else {
                id_check(self, op, p.get(1).copied().unwrap_or(0), p.get(2).copied().unwrap_or(0), v[1], v[2]);
            }
        } else if op == "readdir" || op == "readdirplus" {
            let plus = op == "readdirplus";
            let stop: u64 = f[5].split('/').nth(2).and_then(|x| x.parse().ok()).unwrap_or(u64::MAX);
            let listed: Vec<&str> = if ans == "-" || ans.is_empty() { vec![] } else { ans.split(',').collect() };
            let lb = so.res.find('[').unwrap_or(0);
            let body = &so.res[lb + 1..so.res.len() - 1];
            let got: Vec<&str> = body.split(',').filter(|x| !x.is_empty()).collect();
            let mut k = 0usize;
            for d in listed.iter() {
                if k as u64 >= stop {
                    break;
                }
                let df: Vec<&str> = d.split('.').collect();
                let n = |x: usize| df.get(x).and_then(|y| y.parse::<u64>().ok()).unwrap_or(0);
                let j = if plus { n(1) } else { n(0) };
                let want = match vis(j) {
                    None => break, // the listing ends with an error here
                    Some(w) => w,
                };
                let g: Vec<&str> = got.get(k).map(|x| x.split('.').collect()).unwrap_or_default();
                let gn = |x: usize| g.get(x).and_then(|y| y.parse::<u64>().ok()).unwrap_or(u64::MAX);
                let name_ok = if plus { g.get(6) == df.get(4) } else { g.get(2) == df.get(1) };
                let ino_ok = if plus { gn(0) == want && gn(2) == want && gn(3) == want } else { gn(0) == want };
                if !name_ok || !ino_ok {
                    self.hit("C07", format!("C07:ino-inconsistent:{}", op), format!("`{}`: entry {} of backend {} (index {}) has inode {}; client saw `{}`, expected inode {}", op, k, l.spec.id, l.idx, j, got.get(k).copied().unwrap_or("<missing>"), want));
                    break;
                }
                if plus {
                    id_check(self, "readdirplus", n(2), n(3), gn(4), gn(5));
                }
                k += 1;
            }
            if got.len() > k {
                self.hit("C07", format!("C07:ino-inconsistent:{}:extra", op), format!("`{}` delivered {} entries, the backend offered {} deliverable ones", op, got.len(), k));
            }
        } else if NUM_OPS.contains(&op) {
            if so.res != format!("ok{}", ans) {
                self.hit("C07", format!("C07:reply-altered:{}", op), format!("`{}`: backend answered {}, client saw `{}`", op, ans, so.res));
            }
        }
    }

    // ---------------------------------------------------------------- C19 oracles

    fn after_restore(&mut self, f: &[&str], so: &StepOut, pre: &BTreeMap<u8, Live>) {
        let mode = f.get(1).copied().unwrap_or("o");
        self.out.stat(&format!("restore:{}", mode));
        if so.res != "ok" {
            self.out.stat("restore:failed");
            // with remove_pseudo_root the only way a snapshot becomes unloadable is an evicted
            // directory that still had children (mounts or plain pseudo directories)
            let key = if self.orphaned || self.evicted { "C19:restore-fails:evicted-parent".to_string() } else { format!("C19:restore-fails:{}", so.res) };
            self.hit("C19", key, format!("save + restore failed with `{}`", so.res));
            return;
        }
        let a = match self.a.as_ref() {
            Some(a) => a,
            None => return,
        };
        if self.a_diverged {
            return;
        }
        let mut hits: Vec<(String, String)> = vec![];
        let mut diverged = false;
        // global mapping: a plain field set by the constructor only
        let g = a.cfg.gmap_raw;
        if g.2 != 0 {
            let mut c1 = Context::new();
            c1.uid = g.1;
            c1.gid = g.1;
            let mut c2 = c1;
            let _ = a.vfs.id_remap(&mut c1);
            let _ = self.w.vfs.id_remap(&mut c2);
            if (c1.uid, c1.gid) != (c2.uid, c2.gid) {
                hits.push(("C19:global-map-not-restored".into(), format!("global mapping {:?}: original translates uid {} to {}, restored instance to {}", g, g.1, c1.uid, c2.uid)));
                diverged = true;
            }
        }
        let (ia, ib) = (a.vfs.initialized(), self.w.vfs.initialized());
        if ia != ib {
            let key = if ia { "C19:initialized:empty-in_opts".to_string() } else { format!("C19:initialized:{}", self.uninit_cause) };
            hits.push((key, format!("initialized() is {} on the original and {} on the restored instance (in_opts = {:#x})", ia, ib, a.vfs.options().in_opts.bits())));
            diverged = true;
        }
        let (oa, ob) = (a.vfs.options(), self.w.vfs.options());
        let same_opts = oa.in_opts == ob.in_opts && oa.out_opts == ob.out_opts && oa.no_open == ob.no_open && oa.no_opendir == ob.no_opendir
            && oa.no_writeback == ob.no_writeback && oa.killpriv_v2 == ob.killpriv_v2 && oa.no_readdir == ob.no_readdir && oa.seal_size == ob.seal_size
            && oa.id_mapping == ob.id_mapping;
        if !same_opts {
            hits.push(("C19:options-differ".into(), format!("options() differ: {:?} vs {:?}", oa, ob)));
        }
        for p in self.paths.iter() {
            let (x, y) = (a.vfs.get_root_pseudofs().path_walk(p).ok(), self.w.vfs.get_root_pseudofs().path_walk(p).ok());
            if x != y {
                if self.evicted {
                    // re-attaching a mount whose recorded path runs through an evicted directory
                    // (`/a/../b` after `/a` was evicted) creates that directory again
                    hits.push(("C19:rm-evicted:reattach-recreates-dir".into(), format!("path `{}` resolves to pseudo inode {:?} on the original and {:?} on the restored instance", p, x, y)));
                    diverged = true;
                } else {
                    hits.push(("C19:pseudo-ino-differ".into(), format!("path `{}` resolves to pseudo inode {:?} on the original and {:?} on the restored instance", p, x, y)));
                }
            }
        }
        // format version 1 carries no per-mount mappings: translation differs by design
        if mode == "1" && pre.values().any(|l| l.own_map.is_some()) {
            self.out.stat("restore:v1-drops-mount-maps");
            diverged = true;
        }
        // every inode number issued before the save still routes to the same backend
        if !diverged {
            let lives: Vec<Live> = self.w.live.values().cloned().collect();
            let mut ctx = Context::new();
            ctx.pid = 1;
            for l in lives.iter() {
                *self.w.sh.ans.lock().unwrap() = "9/0/0".into();
                *a.sh.ans.lock().unwrap() = "9/0/0".into();
                let ino = ((l.idx as u64) << 56) | 5;
                let rb = self.w.vfs.getattr(&ctx, ino.into(), None).map(|x| (x.0.st_ino, x.0.st_uid, x.0.st_gid)).map_err(|e| e.raw_os_error());
                let ra = a.vfs.getattr(&ctx, ino.into(), None).map(|x| (x.0.st_ino, x.0.st_uid, x.0.st_gid)).map_err(|e| e.raw_os_error());
                let lb = std::mem::take(&mut *self.w.sh.log.lock().unwrap());
                let la = std::mem::take(&mut *a.sh.log.lock().unwrap());
                if ra != rb || la != lb {
                    hits.push(("C19:old-inode-misroutes".into(), format!("getattr on inode {:#x} issued before the save: original `{:?}` via `{}`, restored `{:?}` via `{}`", ino, ra, la.join("+"), rb, lb.join("+"))));
                }
            }
        }
        if diverged {
            self.a_diverged = true;
        }
        for (k, w) in hits {
            self.hit("C19", k, w);
        }
    }

    fn finish(self) -> (String, String, Vec<(String, String, String)>) {
        (self.case_line(), self.outs.join(";"), self.hits)
    }
}

fn res_kind(r: &str) -> String {
    if r == "panic" {
        "panic".into()
    } else if let Some(rest) = r.strip_prefix('e') {
        let n: String = rest.chars().take_while(|c| c.is_ascii_digit()).collect();
        format!("e{}", n)
    } else if r.starts_with('E') {
        r.split('.').next().unwrap_or("E").to_string()
    } else if r.starts_with("restore") {
        "restore-failed".into()
    } else if r.starts_with("ok[") {
        if r == "ok[]" { "ok-empty-list".into() } else { "ok-list".into() }
    } else {
        "ok".into()
    }
}

// ------------------------------------------------------------------------------------------
// generation

const MAPS: &[Map] = &[(0, 1000, 65536), (0, 100000, 65536), (1000, 0, 500), (5, 5, 10), (0, 4294901760, 65536), (100, 50, 100), (7, 4000000000, 1), (0, 1000, 0), (5, 77, 0)];
const BAD_MAPS: &[Map] = &[(0, 4294967000, 65536), (4294967000, 0, 65536)];
const PATHS: &[&str] = &["/a", "/b", "/a/b", "/a/b/c", "/b/a/c", "/d", "/a/../b", "/a/./b", "//a", "/a/", "/c/d", "/a/c", "/", "/.s", "/a/.s", "/..d", "/.s/a"];
const ODD_PATHS: &[&str] = &["a", "", "/..", "/a/../..", "./a", "/a//b/", "/.", "/a/../a"];

struct Gen<'r> {
    r: &'r mut Prng,
    next_bk: u64,
    /// indices that were live at some point and are vacant now
    stale: Vec<u8>,
    maps_used: Vec<Map>,
    gmap: Option<Map>,
}

impl<'r> Gen<'r> {
    fn pick_map(&mut self, allow_bad: bool) -> Map {
        if allow_bad && self.r.chance(1, 8) {
            return *self.r.pick(BAD_MAPS);
        }
        if self.r.chance(1, 6) {
            // random but within the u32 guard
            let range = self.r.range(1, 100000) as u32;
            let i = self.r.below((U32MAX + 1 - range as u64).min(200000)) as u32;
            let e = self.r.below((U32MAX + 1 - range as u64).min(3000000)) as u32;
            return (i, e, range);
        }
        *self.r.pick(MAPS)
    }

    /// an id at / around the edges of the mappings in play
    fn id(&mut self) -> u64 {
        let mut maps = self.maps_used.clone();
        if let Some(g) = self.gmap {
            maps.push(g);
        }
        if maps.is_empty() || self.r.chance(1, 5) {
            return match self.r.below(5) {
                0 => 0,
                1 => U32MAX,
                2 => 1000,
                3 => self.r.below(70000),
                _ => self.r.field(32),
            };
        }
        let m = *self.r.pick(&maps);
        let base = if self.r.chance(1, 2) { m.0 } else { m.1 } as u64;
        let range = m.2 as u64;
        let v = match self.r.below(7) {
            0 => base.wrapping_sub(1),
            1 => base,
            2 => (base + range).wrapping_sub(1),
            3 => base + range,
            4 => base + self.r.below(range.max(1)),
            5 => base + 5,
            _ => base + range / 2,
        };
        v & U32MAX
    }

    fn name(&mut self) -> String {
        match self.r.below(14) {
            0 => hex(b"."),
            1 => hex(b".."),
            2 => hex(b"a/b"),
            3 => hex(b"/"),
            4 | 5 => hex(b"a"),
            6 => hex(b"b"),
            7 => hex(b"c"),
            8 => hex(b"d"),
            9 => format!("{}", hex(format!("p{}", self.r.below(300)).as_bytes())),
            10 => hex(*self.r.pick(&[&b"..."[..], b".s", b"..d", b".a"])),
            _ => {
                let n = self.r.range(1, 6) as usize;
                let s: Vec<u8> = (0..n).map(|_| b'a' + self.r.below(26) as u8).collect();
                hex(&s)
            }
        }
    }

    fn backend_ino(&mut self) -> u64 {
        match self.r.below(12) {
            0 => 0,
            1 => 1,
            2 => VFS_MAX_INO,
            3 => VFS_MAX_INO + 1,
            4 => u64::MAX,
            5 => 1 << 55,
            _ => self.r.range(2, 5000),
        }
    }

    fn target_ino(&mut self, w: &World) -> u64 {
        let lives: Vec<&Live> = w.live.values().collect();
        match self.r.below(20) {
            0 | 1 => 1,
            2 | 3 => self.r.range(2, 9), // pseudo directories
            4 => self.r.range(10, 600), // pseudo numbers that may not exist
            5 | 6 if !self.stale.is_empty() => {
                let idx = *self.r.pick(&self.stale);
                ((idx as u64) << 56) | self.r.range(1, 50)
            }
            7 => (self.r.range(1, 255) << 56) | self.r.range(1, 50), // any slot
            8 => VFS_MAX_INO, // pseudo fs index with a huge number
            9 => self.r.next(),
            _ if !lives.is_empty() => {
                let l = *self.r.pick(&lives);
                let i = match self.r.below(6) {
                    0 => 1,
                    1 => l.root_ino & VFS_MAX_INO,
                    2 => VFS_MAX_INO,
                    _ => self.r.range(1, 5000),
                };
                ((l.idx as u64) << 56) | i
            }
            _ => 1,
        }
    }

    fn mount_step(&mut self, w: &World, prop: &str, bulk: Option<usize>) -> String {
        let path = match bulk {
            Some(k) => format!("/p{}", k),
            None => {
                if self.r.chance(1, 10) {
                    self.r.pick(ODD_PATHS).to_string()
                } else if self.r.chance(1, 8) {
                    format!("/p{}", self.r.below(300))
                } else {
                    self.r.pick(PATHS).to_string()
                }
            }
        };
        self.next_bk += 1;
        let map = if self.r.chance(if prop == "C14" { 3 } else { 1 }, 6) {
            let m = self.pick_map(prop == "C14" && bulk.is_none());
            self.maps_used.push(m);
            format!("{}/{}/{}", m.0, m.1, m.2)
        } else {
            "-".to_string()
        };
        let mans = if bulk.is_none() && self.r.chance(1, 25) {
            format!("e{}", self.r.pick(&[5u32, 2, 13, 38]))
        } else {
            let ino = if bulk.is_some() { 1 } else {
                match self.r.below(14) {
                    0 => 0,
                    1 => VFS_MAX_INO,
                    2 => VFS_MAX_INO + 1,
                    3 => self.r.range(2, 100),
                    _ => 1,
                }
            };
            let max = match self.r.below(20) {
                0 => VFS_MAX_INO + 1,
                1 => VFS_MAX_INO,
                2 => u64::MAX,
                _ => 100000,
            };
            format!("{}/{}/{}/{}", ino, self.id(), self.id(), if bulk.is_some() { 100000 } else { max })
        };
        let ie = if self.r.chance(1, 20) { 5 } else { 0 };
        let _ = w;
        format!("m:{}:{}:{}:{}:{}", path, self.next_bk, map, mans, ie)
    }

    fn req_step(&mut self, w: &World, prop: &str) -> String {
        let op = if self.r.chance(1, 2) {
            *self.r.pick(if prop == "C14" { &["lookup", "getattr", "setattr", "mkdir", "mknod", "symlink", "create", "link", "readdirplus", "unlink", "readdir"][..] } else { &["lookup", "getattr", "readdir", "readdirplus", "rename", "link", "forget", "open", "mkdir"][..] })
        } else {
            *self.r.pick(ALL_OPS)
        };
        let ino = self.target_ino(w);
        let (uid, gid) = (self.id(), self.id());
        let mut a1 = String::new();
        let mut a2 = String::new();
        match op {
            "rename" => {
                a1 = format!("{}/{}", self.name(), self.name());
            }
            "setattr" => a1 = if self.r.chance(1, 2) { format!("{}/{}", self.id(), self.id()) } else { format!("{}/{}/{}", self.id(), self.id(), self.r.range(1, 2)) },
            "readdir" | "readdirplus" => {
                let size = if self.r.chance(1, 10) { 0 } else { 4096 };
                let off = if self.r.chance(1, 3) { self.r.below(5) } else { 0 };
                a1 = if self.r.chance(1, 3) { format!("{}/{}/{}", size, off, self.r.below(4)) } else { format!("{}/{}", size, off) };
            }
            _ if NAME_OPS.contains(&op) || op == "lookup" => a1 = self.name(),
            _ => {}
        }
        if op == "rename" || op == "link" {
            // mostly the same mount, sometimes another mount / the pseudo fs / a vacant slot
            let idxbits = ino & !VFS_MAX_INO;
            a2 = if self.r.chance(2, 3) { (idxbits | self.r.range(1, 5000)).to_string() } else { self.target_ino(w).to_string() };
            if ino == 1 && w.root_live().is_some() && self.r.chance(1, 2) {
                let l = w.root_live().unwrap();
                a2 = (((l.idx as u64) << 56) | self.r.range(1, 50)).to_string();
            }
        }
        let err = self.r.chance(1, 8);
        let ans = if err {
            format!("e{}", self.r.pick(&[2u32, 13, 1, 17, 39, 28, 95]))
        } else if ENTRY_OPS.contains(&op) || op == "getattr" || op == "setattr" {
            format!("{}/{}/{}", self.backend_ino(), self.id(), self.id())
        } else if NUM_OPS.contains(&op) {
            self.r.below(100000).to_string()
        } else if op == "readdir" {
            let n = self.r.below(6);
            if n == 0 { "-".into() } else { (0..n).map(|_| format!("{}.{}", self.backend_ino(), self.name())).collect::<Vec<_>>().join(",") }
        } else if op == "readdirplus" {
            let n = self.r.below(6);
            if n == 0 { "-".into() } else {
                (0..n).map(|_| { let j = self.backend_ino(); format!("{}.{}.{}.{}.{}", if self.r.chance(1, 4) { self.backend_ino() } else { j }, j, self.id(), self.id(), self.name()) }).collect::<Vec<_>>().join(",")
            }
        } else {
            String::new()
        };
        let via = if SRV_OPS.contains(&op) && self.r.chance(1, 3) { "R" } else { "r" };
        format!("{}:{}:{}:{}:{}:{}:{}:{}", via, op, uid, gid, ino, a1, a2, ans)
    }
}

fn gen_case(r: &mut Prng, prop: &str, n: u64, out: &mut Out) -> (String, String, Vec<(String, String, String)>) {
    // configuration
    let mut cfg = String::new();
    let flags = if r.chance(1, 4) { (0..6).map(|_| if r.chance(1, 2) { '1' } else { '0' }).collect::<String>() } else { "110000".to_string() };
    cfg.push_str(&format!("case={} o={}", n, flags));
    if r.chance(1, 5) {
        let bits: u64 = [1u64, 8, 32, 65536, 131072, 16777216, 268435456, 4096, 8192].iter().filter(|_| r.chance(1, 2)).sum();
        cfg.push_str(&format!(" oo={}", bits));
    }
    let mut gmap = None;
    let gchance = match prop { "C14" => 2, "C19" => 2, _ => 1 };
    if r.chance(gchance, 4) {
        let m = if prop == "C14" && r.chance(1, 10) { *r.pick(BAD_MAPS) } else if r.chance(1, 8) { (0, 1000, 0) } else { *r.pick(MAPS) };
        cfg.push_str(&format!(" gmap={}/{}/{}", m.0, m.1, m.2));
        if m.2 != 0 {
            gmap = Some(m);
        }
    }
    let rm = r.chance(1, 12);
    if rm {
        cfg.push_str(" rm=1");
    }
    let dual = prop == "C19";
    let mut run = Runner::new(&cfg, prop, dual, out);
    let shape = r.below(20);
    let (len, bulk) = match shape {
        0 | 1 => (r.range(300, 400), true),          // > 255 mounts: index wrap-around
        2 => (r.range(256, 330), true),
        3..=6 => (r.range(40, 150), false),
        7 => (r.range(1, 4), false),
        _ => (r.range(5, 40), false),
    };
    let (len, bulk) = if prop == "C19" && bulk { (r.range(270, 300), true) } else if prop == "C19" && shape == 4 { (r.range(0, 6), false) } else { (len, bulk) };
    // "fill" histories: 255 live mounts, so that allocation fails, then a vacancy is made and found
    let fill = prop != "C19" && shape == 2;
    let len = if fill { r.range(300, 360) } else { len };
    let mut g = Gen { r, next_bk: 0, stale: vec![], maps_used: vec![], gmap };
    let mut bulk_k = 0usize;
    let bulk_target = if bulk { g.r.range(200, 280) as usize } else { 0 };
    // C14 "reuse" histories: a mapped mount is over-mounted (its slot is freed with the mapping
    // still in the table), the index wraps around, and an unmapped mount lands in that slot
    if prop == "C14" && shape == 3 {
        let m = g.pick_map(false);
        g.maps_used.push(m);
        let pre = g.r.below(4);
        for k in 0..pre {
            let st = g.mount_step(&run.w, prop, Some(1000 + k as usize));
            run.exec(&st);
        }
        let mut mk = |g: &mut Gen, path: String, map: String| -> String {
            g.next_bk += 1;
            let (bk, u, gi) = (g.next_bk, g.id(), g.id());
            format!("m:{}:{}:{}:1/{}/{}/100000:0", path, bk, map, u, gi)
        };
        let st = mk(&mut g, "/x".into(), format!("{}/{}/{}", m.0, m.1, m.2));
        run.exec(&st);
        let st = mk(&mut g, "/x".into(), "-".into());
        run.exec(&st);
        for k in 0..(253 - pre) {
            let st = mk(&mut g, format!("/q{}", k), "-".into());
            run.exec(&st);
        }
        for k in 0..3 {
            let st = mk(&mut g, format!("/z{}", k), "-".into());
            run.exec(&st);
            let (u, gi) = (g.id(), g.id());
            run.exec(&format!("r:lookup:{}:{}:1:{}::", u, gi, hex(format!("z{}", k).as_bytes())));
        }
    }
    // C19 "wrapped cursor" histories: few live mounts, the 8-bit index allocator driven around by
    // mount/umount cycles on a scratch path, so that at save time live mounts sit above the cursor
    if prop == "C19" && shape == 4 {
        let cycles = g.r.range(250, 300);
        let keep_at = [g.r.below(cycles), g.r.below(cycles), g.r.below(cycles)];
        for c in 0..cycles {
            g.next_bk += 1;
            let (bk, u, gi) = (g.next_bk, g.id(), g.id());
            if let Some(j) = keep_at.iter().position(|x| *x == c) {
                run.exec(&format!("m:/keep{}:{}:-:1/{}/{}/100000:0", j, bk, u, gi));
            } else {
                run.exec(&format!("m:/scr:{}:-:1/{}/{}/100000:0", bk, u, gi));
                run.exec("u:/scr");
            }
        }
    }
    // C19 "evicted tail" histories: with remove_pseudo_root the newest pseudo directory is evicted
    // before the save, so the saved `next_inode` is larger than the largest saved inode + 1
    if prop == "C19" && rm && g.r.chance(2, 3) {
        for (k, path) in ["/sa", "/sb/x", "/sc"].iter().enumerate() {
            g.next_bk += 1;
            let (bk, u, gi) = (g.next_bk, g.id(), g.id());
            run.exec(&format!("m:{}:{}:-:1/{}/{}/100000:0", path, bk, u, gi));
            if k == 2 {
                run.exec("u:/sc");
                if g.r.chance(1, 2) {
                    run.exec("u:/sb/x");
                }
            }
        }
    }
    for _ in 0..len {
        if run.panicked {
            break;
        }
        let live_before: Vec<u8> = run.w.live.keys().copied().collect();
        let st = if fill && bulk_k < 262 {
            bulk_k += 1;
            if bulk_k == 259 { format!("u:/p{}", g.r.range(1, 255)) } else { g.mount_step(&run.w, prop, Some(bulk_k)) }
        } else if bulk && bulk_k < bulk_target && g.r.chance(9, 10) {
            bulk_k += 1;
            // sprinkle umounts and over-mounts into the mass mounting so that vacancies exist at wrap
            if bulk_k > 20 && g.r.chance(1, 12) {
                format!("u:/p{}", g.r.below(bulk_k as u64))
            } else if bulk_k > 20 && g.r.chance(1, 15) {
                let k = g.r.below(bulk_k as u64) as usize;
                g.mount_step(&run.w, prop, Some(k))
            } else {
                g.mount_step(&run.w, prop, Some(bulk_k))
            }
        } else {
            match g.r.below(100) {
                2 if prop != "C19" && run.w.root_live().is_none() && run.w.live.values().any(|l| l.pino != 1 && l.path.starts_with('/') && !l.path.contains(':')) => {
                    // a client looks the mount path up while the mount is being torn down
                    let cands: Vec<String> = run.w.live.values().filter(|l| l.pino != 1 && l.path.starts_with('/') && !l.path.contains(':')).map(|l| l.path.clone()).collect();
                    let up = g.r.pick(&cands).clone();
                    let comps: Vec<&str> = up.split('/').filter(|c| !c.is_empty() && *c != ".").collect();
                    if comps.is_empty() || comps.contains(&"..") {
                        format!("u:{}", up)
                    } else {
                        let parent = format!("/{}", comps[..comps.len() - 1].join("/"));
                        match run.w.vfs.get_root_pseudofs().path_walk(&parent).ok().flatten() {
                            Some(pp) => format!("Y:{}:{}:{}:{}:{}", up, g.id(), g.id(), pp, hex(comps[comps.len() - 1].as_bytes())),
                            None => format!("u:{}", up),
                        }
                    }
                }
                0..=1 if !run.w.live.is_empty() && prop != "C19" => {
                    // a mount racing with the teardown of another mount
                    let lives: Vec<String> = run.w.live.values().map(|l| l.path.clone()).collect();
                    let up = g.r.pick(&lives).clone();
                    let m = g.mount_step(&run.w, prop, None);
                    if up.contains(':') || !m.starts_with("m:") { m } else { format!("X:{}:{}", up, &m[2..]) }
                }
                3 if !run.w.live.is_empty() && prop != "C19" && !run.w.cfg.rm => {
                    // the teardown of one mount racing with a mount that already holds the mount lock
                    // (not with remove_pseudo_root: the umount may evict the pseudo directory of the
                    // mount path, which this harness looks up when it books the mount half)
                    let lives: Vec<String> = run.w.live.values().map(|l| l.path.clone()).collect();
                    let up = g.r.pick(&lives).clone();
                    let m = g.mount_step(&run.w, prop, None);
                    let mpath = m.split(':').nth(1).unwrap_or("").to_string();
                    // (not the path being mounted, under any spelling: the log of the two halves is
                    // told apart by backend)
                    let canon = |p: &str| -> Vec<String> {
                        let mut v: Vec<String> = vec![];
                        for c in p.split('/') {
                            match c {
                                "" | "." => {}
                                ".." => {
                                    v.pop();
                                }
                                x => v.push(x.to_string()),
                            }
                        }
                        v
                    };
                    if up.contains(':') || !m.starts_with("m:") || canon(&mpath) == canon(&up) { m } else { format!("W:{}:{}", up, &m[2..]) }
                }
                0..=17 => g.mount_step(&run.w, prop, None),
                18..=24 => {
                    let lives: Vec<String> = run.w.live.values().map(|l| l.path.clone()).collect();
                    let p = if !lives.is_empty() && g.r.chance(3, 4) { g.r.pick(&lives).clone() } else if g.r.chance(1, 3) { g.r.pick(ODD_PATHS).to_string() } else { g.r.pick(PATHS).to_string() };
                    format!("u:{}", p)
                }
                25 if prop != "C19" => {
                    // the client's INIT is served while a mount is inside its backend's mount()
                    let m = g.mount_step(&run.w, prop, None);
                    let bits = match g.r.below(4) { 0 => 0u64, 1 => 131072 | 16777216 | 1, 2 => 0xffff_ffff & !(1u64 << 31), _ => 131072 | 8 | 65536 };
                    if !m.starts_with("m:") { m } else { format!("Z:{}:{}", bits, &m[2..]) }
                }
                25..=27 => format!("i:{}", match g.r.below(6) { 0 => 0, 1 => 1, 2 => 131072 | 16777216 | 1, 3 => 0xffff_ffff & !(1u64 << 31), 4 => 131072 | 8 | 65536, _ => g.r.next() & 0x3fff_ffff }),
                28 => "d".to_string(),
                29..=34 if prop == "C19" => format!("s:{}", match g.r.below(10) { 0 | 1 => "d", 2 | 3 => "1", _ => "o" }),
                _ => g.req_step(&run.w, prop),
            }
        };
        run.exec(&st);
        for i in live_before {
            if !run.w.live.contains_key(&i) && !g.stale.contains(&i) {
                g.stale.push(i);
            }
        }
        let now: Vec<u8> = run.w.live.keys().copied().collect();
        g.stale.retain(|i| !now.contains(i));
    }
    if prop == "C19" && !run.panicked {
        // every C19 history ends with a save/restore and a common tail
        run.exec("s:o");
        for _ in 0..6 {
            let st = if g.r.chance(1, 3) { g.mount_step(&run.w, prop, None) } else { g.req_step(&run.w, prop) };
            run.exec(&st);
        }
        // a fresh pseudo directory, then the numbers of the top-level pseudo entries as a client sees them
        g.next_bk += 1;
        let (bk, u, gi) = (g.next_bk, g.id(), g.id());
        run.exec(&format!("m:/tail{}/y:{}:-:1/{}/{}/100000:0", n % 7, bk, u, gi));
        let mut tops: Vec<String> = run.w.live.values().filter_map(|l| l.path.split('/').find(|c| !c.is_empty() && *c != "." && *c != "..").map(|c| c.to_string())).collect();
        tops.sort();
        tops.dedup();
        for t in tops.iter().take(8) {
            run.exec(&format!("r:lookup:0:0:1:{}::", hex(t.as_bytes())));
        }
        run.exec("r:readdir:0:0:1:4096/0::");
    }
    run.finish()
}

fn replay_line(line: &str, prop: &str, out: &mut Out) -> (String, String, Vec<(String, String, String)>) {
    let kv = parse_kv(line);
    let ops = kv.get("ops").cloned().unwrap_or_default();
    let cfg_tokens: Vec<&str> = line.split(' ').filter(|t| !t.is_empty() && !t.starts_with("ops=")).collect();
    let dual = ops.split(';').any(|s| s.starts_with("s:") || s == "s");
    let mut run = Runner::new(&cfg_tokens.join(" "), prop, dual, out);
    for st in ops.split(';').filter(|s| !s.is_empty()) {
        run.exec(st);
    }
    let (_, o, h) = run.finish();
    (line.to_string(), o, h)
}

static SEEN_KEYS: std::sync::Mutex<std::collections::BTreeSet<String>> = std::sync::Mutex::new(std::collections::BTreeSet::new());

/// does replaying `line` still raise the oracle `key`?
fn still_fires(line: &str, prop: &str, key: &str) -> bool {
    let mut scratch = Out::new("/verif/.work/vfs/shrink-scratch");
    let (_, _, h) = replay_line(line, prop, &mut scratch);
    h.iter().any(|x| x.1 == key)
}

/// delta debugging on the step list (bounded number of re-executions): the smallest history found
/// that still raises the same oracle key
fn shrink(line: &str, prop: &str, key: &str) -> String {
    let (cfg, ops) = match line.split_once(" ops=") {
        Some(x) => x,
        None => return line.to_string(),
    };
    let mut steps: Vec<String> = ops.split(';').filter(|s| !s.is_empty()).map(|s| s.to_string()).collect();
    let mk = |st: &[String]| format!("{} ops={}", cfg, st.join(";"));
    if !still_fires(&mk(&steps), prop, key) {
        return line.to_string();
    }
    let mut budget = 400;
    let mut chunk = (steps.len() / 2).max(1);
    while chunk >= 1 && budget > 0 {
        let mut i = 0;
        let mut removed_any = false;
        while i < steps.len() && budget > 0 {
            let end = (i + chunk).min(steps.len());
            let mut cand = steps.clone();
            cand.drain(i..end);
            budget -= 1;
            if !cand.is_empty() && still_fires(&mk(&cand), prop, key) {
                steps = cand;
                removed_any = true;
            } else {
                i = end;
            }
        }
        if chunk == 1 && !removed_any {
            break;
        }
        chunk = if chunk == 1 { 1 } else { chunk / 2 };
        if chunk == 1 && !removed_any && steps.len() <= 2 {
            break;
        }
    }
    mk(&steps)
}

fn emit(out: &mut Out, case: &str, impl_line: &str, hits: Vec<(String, String, String)>) {
    use std::io::Write;
    for (p, k, w) in hits {
        // the first report of a key carries a minimised history (later ones the original)
        let first = SEEN_KEYS.lock().unwrap().insert(k.clone());
        let shown = if first && case.len() > 400 { shrink(case, &p, &k) } else { case.to_string() };
        let case = shown.as_str();
        let v = serde_json::json!({"prop": p, "key": k, "case": case, "what": w});
        writeln!(out.oracle, "{}", v).unwrap();
        out.n_oracle += 1;
    }
    out.case(case, impl_line);
}

fn main() {
    let a = args();
    let mut out = Out::new(a.get("out").map(|s| s.as_str()).unwrap_or("/verif/.work/vfs/out"));
    std::panic::set_hook(Box::new(|_| {}));
    let prop = a.get("prop").cloned().unwrap_or_else(|| "C07".into());
    if let Some(f) = a.get("cases") {
        for line in std::fs::read_to_string(f).unwrap().lines() {
            fbrh::util::crumb(line);
            if line.trim().is_empty() {
                continue;
            }
            let (c, o, h) = replay_line(line, &prop, &mut out);
            emit(&mut out, &c, &o, h);
        }
        out.finish();
        return;
    }
    let seed: u64 = a.get("seed").and_then(|s| s.parse().ok()).unwrap_or(1);
    let n: u64 = a.get("n").and_then(|s| s.parse().ok()).unwrap_or(300);
    let mut r = Prng::new(seed ^ 0x7f5 ^ (prop.bytes().map(|b| b as u64).sum::<u64>() << 20));
    for i in 0..n {
        let (c, o, h) = gen_case(&mut r, &prop, i, &mut out);
        emit(&mut out, &c, &o, h);
    }
    out.finish();
}
