//! `initfs` engine (C12, second half): option negotiation of the VFS, passthrough and overlay
//! layers.  The toggles are observed by behaviour: OPEN / OPENDIR answer ENOSYS iff the layer is in
//! no-open / no-opendir mode, LOOKUP of a file carries FUSE_ATTR_DAX iff per-file DAX is on.
use std::ffi::CString;
use std::sync::Arc;

use fbrh::prng::Prng;
use fbrh::scriptfs::{kn, ks, parse_kv, Kv};
use fbrh::util::{args, Out};
use fuse_backend_rs::abi::fuse_abi::{FsOptions, FUSE_ATTR_DAX};
use fuse_backend_rs::api::filesystem::{Context, FileSystem, Layer};
use fuse_backend_rs::api::{Vfs, VfsOptions};
use fuse_backend_rs::overlayfs::config::Config as OvlConfig;
use fuse_backend_rs::overlayfs::OverlayFs;
use fuse_backend_rs::passthrough::{Config as PtConfig, PassthroughFs};

const ZMO: u64 = 0x20000;
const ZMOD: u64 = 0x1000000;
const WB: u64 = 0x10000;
const KP2: u64 = 0x10000000;
const DAX: u64 = 0x2_0000_0000;
const KNOWN: u64 = 0x1fff_ffff | 0x4000_0000 | 0x2_0000_0000 | (1 << 39) | (1 << 63);

fn is_enosys<T>(r: &std::io::Result<T>) -> bool {
    matches!(r, Err(e) if e.raw_os_error() == Some(libc::ENOSYS))
}

fn tmp_root(tag: &str) -> String {
    let d = format!("/verif/.work/initfs-tmp/{}-{}", std::process::id(), tag);
    let _ = std::fs::remove_dir_all(&d);
    std::fs::create_dir_all(&d).unwrap();
    std::fs::write(format!("{}/file", d), b"hello").unwrap();
    d
}

fn b01(b: bool) -> &'static str {
    if b { "1" } else { "0" }
}

fn exec(line: &str, out: &mut Out) -> String {
    let kv: Kv = parse_kv(line);
    let ctx = Context::default();
    let mut oracle = |key: String, what: String, out: &mut Out| {
        let v = serde_json::json!({"prop": "C12", "key": key, "case": line, "what": what});
        use std::io::Write;
        writeln!(out.oracle, "{}", v).unwrap();
        out.n_oracle += 1;
    };
    match ks(&kv, "fs") {
        "vfs" => {
            let mut o = VfsOptions::default();
            o.no_open = kn(&kv, "no_open") == 1;
            o.no_opendir = kn(&kv, "no_opendir") == 1;
            o.no_writeback = kn(&kv, "no_wb") == 1;
            o.killpriv_v2 = kn(&kv, "kp") == 1;
            o.out_opts = FsOptions::from_bits_truncate(kn(&kv, "out"));
            let vfs = Vfs::new(o);
            let mut res = Vec::new();
            let mut inited = false;
            for st in ks(&kv, "seq").split(',') {
                if st == "d" {
                    vfs.destroy();
                    inited = false;
                    res.push("d".to_string());
                    continue;
                }
                let cap: u64 = st[1..].parse().unwrap_or(0);
                let r = vfs.init(FsOptions::from_bits_truncate(cap));
                // observe the toggles by behaviour on the pseudo root
                let no_open = is_enosys(&vfs.open(&ctx, 1.into(), libc::O_RDONLY as u32, 0));
                let no_opendir = is_enosys(&vfs.opendir(&ctx, 1.into(), libc::O_RDONLY as u32));
                match r {
                    Ok(w) => {
                        if inited {
                            oracle("C12:vfs:second-init-accepted".into(), "a second INIT without DESTROY succeeded".into(), out);
                        }
                        inited = true;
                        let w = w.bits();
                        if w & !(cap & KNOWN) != 0 {
                            oracle("C12:vfs:want-not-offered".into(), format!("returned options {:#x} not within the offered {:#x}", w, cap), out);
                        }
                        if no_open != (w & ZMO != 0) {
                            oracle("C12:vfs:no_open-vs-negotiated".into(), format!("no_open behaviour {} but ZERO_MESSAGE_OPEN negotiated {}", no_open, w & ZMO != 0), out);
                        }
                        if no_opendir != (w & ZMOD != 0) {
                            oracle("C12:vfs:no_opendir-vs-negotiated".into(), format!("no_opendir behaviour {} but ZERO_MESSAGE_OPENDIR negotiated {}", no_opendir, w & ZMOD != 0), out);
                        }
                        res.push(format!("ok:{}:{}:{}", w, b01(no_open), b01(no_opendir)));
                    }
                    Err(_) => {
                        if !inited {
                            oracle("C12:vfs:first-init-refused".into(), "INIT refused although not initialised".into(), out);
                        }
                        res.push(format!("einval:{}:{}", b01(no_open), b01(no_opendir)));
                    }
                }
            }
            out.class(&format!("vfs|{}|{}", ks(&kv, "no_open"), res.len()));
            format!("res={}", res.join(","))
        }
        "pt" => {
            let root = tmp_root("pt");
            let mut c = PtConfig::default();
            c.root_dir = root.clone();
            c.do_import = kn(&kv, "import") == 1;
            c.writeback = kn(&kv, "wb") == 1;
            c.no_open = kn(&kv, "no_open") == 1;
            c.no_opendir = kn(&kv, "no_opendir") == 1;
            c.killpriv_v2 = kn(&kv, "kp") == 1;
            c.dax_file_size = Some(0);
            c.cache_policy = match kn(&kv, "cache") {
                0 => fuse_backend_rs::passthrough::CachePolicy::Never,
                2 => fuse_backend_rs::passthrough::CachePolicy::Always,
                _ => fuse_backend_rs::passthrough::CachePolicy::Auto,
            };
            let fs = PassthroughFs::<()>::new(c).unwrap();
            if kn(&kv, "import") != 1 {
                fs.import().unwrap();
            }
            let cap = kn(&kv, "cap");
            let w = fs.init(FsOptions::from_bits_truncate(cap)).unwrap().bits();
            let ro = fs.open(&ctx, 1, libc::O_RDONLY as u32, 0);
            let no_open = is_enosys(&ro);
            if let Ok((Some(h), _, _)) = ro {
                let _ = fs.release(&ctx, 1, 0, h, false, false, None);
            }
            let rd = fs.opendir(&ctx, 1, libc::O_RDONLY as u32);
            let no_opendir = is_enosys(&rd);
            if let Ok((Some(h), _)) = rd {
                let _ = fs.releasedir(&ctx, 1, 0, h);
            }
            let e = fs.lookup(&ctx, 1, &CString::new("file").unwrap()).unwrap();
            let dax = e.attr_flags & FUSE_ATTR_DAX != 0;
            let neg = cap & KNOWN & w;
            if no_open != (neg & ZMO != 0) {
                oracle("C12:pt:no_open-vs-negotiated".into(), format!("no_open {} negotiated {}", no_open, neg & ZMO != 0), out);
            }
            if no_opendir != (neg & ZMOD != 0) {
                oracle("C12:pt:no_opendir-vs-negotiated".into(), format!("no_opendir {} negotiated {}", no_opendir, neg & ZMOD != 0), out);
            }
            if dax != (neg & DAX != 0) {
                oracle("C12:pt:perfile_dax-vs-negotiated".into(), format!("dax attr {} negotiated {}", dax, neg & DAX != 0), out);
            }
            let _ = (WB, KP2);
            let _ = std::fs::remove_dir_all(&root);
            out.class(&format!("pt|{}|{}|{}|{}", ks(&kv, "import"), b01(no_open), b01(no_opendir), b01(dax)));
            format!("want={} no_open={} no_opendir={} dax={}", w, b01(no_open), b01(no_opendir), b01(dax))
        }
        "ovl" => {
            type BoxedLayer = Box<dyn Layer<Inode = u64, Handle = u64> + Send + Sync>;
            let up = tmp_root("ovl-up");
            let lo = tmp_root("ovl-lo");
            let mk = |dir: &str| -> Arc<BoxedLayer> {
                let mut c = PtConfig::default();
                c.root_dir = dir.to_string();
                c.xattr = true;
                c.do_import = true;
                let fs = Box::new(PassthroughFs::<()>::new(c).unwrap());
                fs.import().unwrap();
                Arc::new(fs as BoxedLayer)
            };
            let mut c = OvlConfig::default();
            c.do_import = kn(&kv, "import") == 1;
            c.writeback = kn(&kv, "wb") == 1;
            c.no_open = kn(&kv, "no_open") == 1;
            c.no_opendir = kn(&kv, "no_opendir") == 1;
            c.killpriv_v2 = kn(&kv, "kp") == 1;
            c.perfile_dax = kn(&kv, "dax") == 1;
            let fs = OverlayFs::new(Some(mk(&up)), vec![mk(&lo)], c).unwrap();
            if kn(&kv, "import") != 1 {
                fs.import().unwrap();
            }
            let cap = kn(&kv, "cap");
            let w = fs.init(FsOptions::from_bits_truncate(cap)).unwrap().bits();
            let ro = fs.open(&ctx, 1, libc::O_RDONLY as u32, 0);
            let no_open = is_enosys(&ro);
            if let Ok((Some(h), _, _)) = ro {
                let _ = fs.release(&ctx, 1, 0, h, false, false, None);
            }
            let rd = fs.opendir(&ctx, 1, libc::O_RDONLY as u32);
            let no_opendir = is_enosys(&rd);
            if let Ok((Some(h), _)) = rd {
                let _ = fs.releasedir(&ctx, 1, 0, h);
            }
            let neg = cap & KNOWN & w;
            if no_open != (neg & ZMO != 0) {
                oracle("C12:ovl:no_open-vs-negotiated".into(), format!("no_open {} negotiated {}", no_open, neg & ZMO != 0), out);
            }
            if no_opendir != (neg & ZMOD != 0) {
                oracle("C12:ovl:no_opendir-vs-negotiated".into(), format!("no_opendir {} negotiated {}", no_opendir, neg & ZMOD != 0), out);
            }
            let _ = std::fs::remove_dir_all(&up);
            let _ = std::fs::remove_dir_all(&lo);
            out.class(&format!("ovl|{}|{}|{}", ks(&kv, "import"), b01(no_open), b01(no_opendir)));
            format!("want={} no_open={} no_opendir={}", w, b01(no_open), b01(no_opendir))
        }
        _ => "bad-op".into(),
    }
}

fn gen_cap(r: &mut Prng) -> u64 {
    let interesting = ZMO | ZMOD | WB | KP2 | DAX | 0x8 | 0x2000 | 0x4000;
    match r.below(8) {
        0 => 0,
        1 => KNOWN,
        2 => u64::MAX,
        3 => 1u64 << r.below(64),
        4 => interesting & r.next(),
        5 => KNOWN & !(1u64 << r.below(34)),
        _ => r.next(),
    }
}

fn main() {
    let a = args();
    let mut out = Out::new(a.get("out").map(|s| s.as_str()).unwrap_or("/verif/.work/initfs"));
    if let Some(f) = a.get("cases") {
        for line in std::fs::read_to_string(f).unwrap().lines() {
            fbrh::util::crumb(line);
            if line.trim().is_empty() { continue; }
            let o = exec(line, &mut out);
            out.case(line, &o);
        }
        out.finish();
        return;
    }
    let seed: u64 = a.get("seed").and_then(|s| s.parse().ok()).unwrap_or(1);
    let n: u64 = a.get("n").and_then(|s| s.parse().ok()).unwrap_or(600);
    let mut r = Prng::new(seed ^ 0x1217);
    for i in 0..n {
        let line = match i % 4 {
            0 | 1 => {
                let nseq = r.range(1, 4);
                let mut steps = Vec::new();
                for _ in 0..nseq {
                    if r.chance(1, 4) { steps.push("d".to_string()); } else { steps.push(format!("i{}", gen_cap(&mut r))); }
                }
                let outo = match r.below(4) { 0 => KNOWN, 1 => gen_cap(&mut r), 2 => KNOWN & !(if r.chance(1, 2) { ZMO } else { ZMOD }), _ => 0x0302_67b9 | ZMO | ZMOD | WB | KP2 | DAX };
                format!("fs=vfs no_open={} no_opendir={} no_wb={} kp={} out={} seq={}", r.below(2), r.below(2), r.below(2), r.below(2), outo & KNOWN, steps.join(","))
            }
            2 => format!("fs=pt import={} wb={} no_open={} no_opendir={} kp={} cache={} cap={}", r.below(2), r.below(2), r.below(2), r.below(2), r.below(2), [2u64, 2, 1, 0][r.below(4) as usize], gen_cap(&mut r)),
            _ => format!("fs=ovl import={} wb={} no_open={} no_opendir={} kp={} dax={} cap={}", r.below(2), r.below(2), r.below(2), r.below(2), r.below(2), r.below(2), gen_cap(&mut r)),
        };
        out.stat(&format!("fs:{}", &line[3..6]));
        fbrh::util::crumb(&line);
        let o = exec(&line, &mut out);
        out.case(&line, &o);
    }
    let _ = std::fs::remove_dir_all(format!("/verif/.work/initfs-tmp"));
    out.finish();
}
