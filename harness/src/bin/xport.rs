//! `xport` engine (C04, C17): drives the real `Reader`, `VirtioFsWriter` (over mock virtqueue
//! descriptor chains in a `GuestMemoryMmap<AtomicBitmap>` with a chosen bitmap page size),
//! `FuseDevWriter` (over a SOCK_SEQPACKET socketpair) and `FileVolatileSlice` with operation lists
//! and scripted files, prints what each call lets the caller observe, and checks the property
//! directly on the implementation (oracles), independently of the Lean model.
use std::io::{self, IoSlice, Read, Write};
use std::os::unix::io::RawFd;
use std::panic::{catch_unwind, AssertUnwindSafe};

use fbrh::prng::Prng;
use fbrh::util::{args, hex, Out};
use fbrh::vq;
use fbrh::xscript::{pat_bytes, Ans, Core, DfltFile, FullFile, OpS};
use fuse_backend_rs::abi::fuse_abi::InHeader;
use fuse_backend_rs::file_buf::{FileVolatileBuf, FileVolatileSlice};
use fuse_backend_rs::file_traits::{AsyncFileReadWriteVolatile, FileReadWriteVolatile};
use fbrh::scriptfs_async::block_on;
use std::cell::RefCell;
use std::sync::atomic::{AtomicBool, Ordering};
use fuse_backend_rs::transport::{FuseBuf, FuseDevWriter, Reader, VirtioFsWriter, Writer};
use vm_memory::bitmap::BitmapSlice;
use vm_memory::{ByteValued, Bytes, GuestAddress, GuestMemory};

const CANARY: u8 = 0xC3;
const GUARD: usize = 64;

fn rfill(i: usize) -> u8 {
    ((i * 17 + 3) % 256) as u8
}
/// initial content of reply space: always even; every written pattern byte is odd
fn wfill(i: usize) -> u8 {
    (((i * 31 + 7) % 256) / 2 * 2) as u8
}

fn fnv(b: &[u8]) -> u32 {
    let mut h: u32 = 2166136261;
    for x in b {
        h = (h ^ *x as u32).wrapping_mul(16777619);
    }
    h
}
fn show_bytes(b: &[u8]) -> String {
    if b.len() <= 48 {
        hex(b)
    } else {
        format!("#{}.{}", b.len(), fnv(b))
    }
}

fn io_class(e: &std::io::Error) -> &'static str {
    use std::io::ErrorKind::*;
    match e.kind() {
        InvalidData => "InvalidData",
        UnexpectedEof => "UnexpectedEof",
        WriteZero => "WriteZero",
        Interrupted => "Interrupted",
        _ => "Other",
    }
}
fn tr_class(e: &fuse_backend_rs::transport::Error) -> &'static str {
    use fuse_backend_rs::transport::Error::*;
    match e {
        DescriptorChainOverflow => "DescriptorChainOverflow",
        FindMemoryRegion => "FindMemoryRegion",
        InvalidChain => "InvalidChain",
        InvalidParameter => "InvalidParameter",
        IoError(_) => "IoError",
        SplitOutOfBounds(_) => "SplitOutOfBounds",
        VolatileMemoryError(_) => "VolatileMemoryError",
        SessionFailure(_) => "SessionFailure",
        GuestMemoryError(_) => "GuestMemoryError",
        ConvertIndirectDescriptor(_) => "ConvertIndirectDescriptor",
    }
}

fn socketpair() -> (RawFd, RawFd) {
    let mut fds = [0i32; 2];
    let rc = unsafe { libc::socketpair(libc::AF_UNIX, libc::SOCK_SEQPACKET | libc::SOCK_NONBLOCK, 0, fds.as_mut_ptr()) };
    assert_eq!(rc, 0);
    let sz: libc::c_int = 8 << 20;
    unsafe {
        libc::setsockopt(fds[0], libc::SOL_SOCKET, libc::SO_SNDBUFFORCE, &sz as *const _ as *const libc::c_void, 4);
        libc::setsockopt(fds[1], libc::SOL_SOCKET, libc::SO_RCVBUFFORCE, &sz as *const _ as *const libc::c_void, 4);
    }
    (fds[0], fds[1])
}

fn drain(fd: RawFd) -> Vec<Vec<u8>> {
    let mut out = Vec::new();
    let mut buf = vec![0u8; 1 << 20];
    loop {
        let n = unsafe { libc::recv(fd, buf.as_mut_ptr() as *mut libc::c_void, buf.len(), libc::MSG_DONTWAIT) };
        if n < 0 || out.len() > 64 {
            break;
        }
        out.push(buf[..n as usize].to_vec());
    }
    out
}

/// `am=1` / `--mode async`: operations that have an asynchronous sibling in the transport API
/// (`async_write{,2,3}`, `async_write_from_at`, `async_read_to_at`) go through it; the expected
/// behaviour is the synchronous model's (the same case line is fed to the same model driver)
static ASYNC_MODE: AtomicBool = AtomicBool::new(false);
fn am() -> bool {
    ASYNC_MODE.load(Ordering::Relaxed)
}
static ASYNC_CALLS: std::sync::Mutex<std::collections::BTreeMap<&'static str, u64>> = std::sync::Mutex::new(std::collections::BTreeMap::new());
/// count an operation that really went through the asynchronous API
fn via_async(what: &'static str) {
    *ASYNC_CALLS.lock().unwrap().entry(what).or_default() += 1;
}

/// the scripted file behind the asynchronous trait; every future completes at its first poll
struct AFile(RefCell<Core>);

fn buf_free_slices(bufs: &[FileVolatileBuf]) -> Vec<FileVolatileSlice<'static>> {
    bufs.iter().map(|b| {
        let mut m = b.io_slice_mut();
        unsafe { FileVolatileSlice::from_raw_ptr(m.as_mut_ptr(), m.len()) }
    }).collect()
}
fn buf_data_slices(bufs: &[FileVolatileBuf]) -> Vec<FileVolatileSlice<'static>> {
    bufs.iter().map(|b| {
        let d = b.io_slice();
        unsafe { FileVolatileSlice::from_raw_ptr(d.as_ptr() as *mut u8, d.len()) }
    }).collect()
}
fn grow(bufs: &mut [FileVolatileBuf], mut k: usize) {
    for b in bufs.iter_mut() {
        let c = std::cmp::min(k, b.cap() - b.len());
        unsafe { b.set_size(b.len() + c) };
        k -= c;
    }
}

#[async_trait::async_trait(?Send)]
impl AsyncFileReadWriteVolatile for AFile {
    async fn async_read_at_volatile(&self, buf: FileVolatileBuf, offset: u64) -> (io::Result<usize>, FileVolatileBuf) {
        let mut v = vec![buf];
        let r = self.0.borrow_mut().source_call(&buf_free_slices(&v), Some(offset));
        if let Ok(k) = r {
            grow(&mut v, k);
        }
        (r, v.pop().unwrap())
    }
    async fn async_read_vectored_at_volatile(&self, mut bufs: Vec<FileVolatileBuf>, offset: u64) -> (io::Result<usize>, Vec<FileVolatileBuf>) {
        let r = self.0.borrow_mut().source_call(&buf_free_slices(&bufs), Some(offset));
        if let Ok(k) = r {
            grow(&mut bufs, k);
        }
        (r, bufs)
    }
    async fn async_write_at_volatile(&self, buf: FileVolatileBuf, offset: u64) -> (io::Result<usize>, FileVolatileBuf) {
        let r = self.0.borrow_mut().sink_call(&buf_data_slices(&[buf]), Some(offset));
        (r, buf)
    }
    async fn async_write_vectored_at_volatile(&self, bufs: Vec<FileVolatileBuf>, offset: u64) -> (io::Result<usize>, Vec<FileVolatileBuf>) {
        let r = self.0.borrow_mut().sink_call(&buf_data_slices(&bufs), Some(offset));
        (r, bufs)
    }
}

enum AnyFile {
    Full(FullFile),
    Dflt(DfltFile),
}
impl AnyFile {
    fn new(op: &OpS) -> Self {
        let c = Core::new(&op.answers, op.seed);
        if op.dflt {
            AnyFile::Dflt(DfltFile(c))
        } else {
            AnyFile::Full(FullFile(c))
        }
    }
    fn f(&mut self) -> &mut dyn FileReadWriteVolatile {
        match self {
            AnyFile::Full(x) => x,
            AnyFile::Dflt(x) => x,
        }
    }
    fn core(&self) -> &Core {
        match self {
            AnyFile::Full(x) => &x.0,
            AnyFile::Dflt(x) => &x.0,
        }
    }
}

/// one region as the model sees it: id, host pointer, size
#[derive(Clone, Copy)]
struct Reg {
    id: usize,
    ptr: usize,
    size: usize,
}

/// a window of a flat area owned by one handle
#[derive(Clone, Copy, Debug)]
struct Win {
    pos: usize,
    end: usize,
}

#[derive(Clone, Debug)]
struct FTrack {
    buffered: bool,
    len: usize,
    cap: usize,
    /// bytes this writer holds in its buffer; None when the one-shot rule was broken and the
    /// buffer content is unspecified
    content: Option<Vec<u8>>,
}

struct Cx {
    line_hdr: String,
    regs: Vec<Reg>,
    /// (region id, off, len) of the buffers readers / writers may touch
    rsegs: Vec<(usize, usize, usize)>,
    wsegs: Vec<(usize, usize, usize)>,
    req: Vec<u8>,
    area: Vec<u8>,
    rt: Vec<Win>,
    wt: Vec<Win>,
    ft: Vec<FTrack>,
    hits: Vec<(String, String, String)>, // prop, key, what
    sock: (RawFd, RawFd),
    tags: Vec<String>,
}

impl Cx {
    fn hit(&mut self, prop: &str, key: String, what: String) {
        if !self.hits.iter().any(|h| h.1 == key) {
            self.hits.push((prop.to_string(), key, what));
        }
    }
    fn xlate(&self, ptr: usize, len: usize) -> Option<(usize, usize)> {
        for r in &self.regs {
            if ptr >= r.ptr && ptr + len <= r.ptr + r.size {
                return Some((r.id, ptr - r.ptr));
            }
        }
        None
    }
    fn show_offered(&mut self, offered: &[Vec<(usize, usize)>], writers: bool) -> String {
        let mut calls = Vec::new();
        for bufs in offered {
            let mut v = Vec::new();
            for &(p, l) in bufs {
                match self.xlate(p, l) {
                    Some((id, off)) => {
                        let segs = if writers { &self.wsegs } else { &self.rsegs };
                        if !segs.iter().any(|&(r, o, n)| r == id && o <= off && off + l <= o + n) {
                            self.hit("C04", format!("C04:oob:offered:{}", if writers { "w" } else { "r" }),
                                format!("buffer {}.{}.{} handed to the file is not inside a descriptor", id, off, l));
                        }
                        v.push(format!("{}.{}.{}", id, off, l));
                    }
                    None => {
                        self.hit("C04", "C04:oob:offered:unmapped".into(), "buffer outside every region handed to the file".into());
                        v.push(format!("?.{}", l));
                    }
                }
            }
            calls.push(v.join(","));
        }
        calls.join("|")
    }
}

fn obs(res: &str, bytes: &[u8], offered: &str, c: &str, fd: &[Vec<u8>]) -> String {
    format!("{}/b={}/o={}/c={}/fd={}:{}", res, show_bytes(bytes), offered, c, fd.len(), fd.iter().map(|r| show_bytes(r)).collect::<Vec<_>>().join("|"))
}

fn read_obj_n<S: BitmapSlice>(r: &mut Reader<'_, S>, n: usize) -> Option<std::io::Result<Vec<u8>>> {
    fn go<T: ByteValued, S: BitmapSlice>(r: &mut Reader<'_, S>) -> std::io::Result<Vec<u8>> {
        r.read_obj::<T>().map(|o| o.as_slice().to_vec())
    }
    Some(match n {
        0 => go::<[u8; 0], S>(r),
        1 => go::<u8, S>(r),
        2 => go::<u16, S>(r),
        3 => go::<[u8; 3], S>(r),
        4 => go::<u32, S>(r),
        8 => go::<u64, S>(r),
        16 => go::<u128, S>(r),
        24 => go::<[u8; 24], S>(r),
        32 => go::<[u8; 32], S>(r),
        40 => go::<InHeader, S>(r),
        _ => return None,
    })
}
const OBJ_SIZES: [usize; 10] = [0, 1, 2, 3, 4, 8, 16, 24, 32, 40];

fn reader_op<S: BitmapSlice>(rs: &mut Vec<Reader<'_, S>>, op: &OpS, cx: &mut Cx) -> String {
    if op.h >= rs.len() {
        return "nohandle".into();
    }
    let (a0, u0) = (rs[op.h].available_bytes(), rs[op.h].bytes_read());
    let w = cx.rt[op.h];
    let k = op.k.clone();
    let mut res;
    let mut bytes: Vec<u8> = vec![];
    let mut offered = String::new();
    let mut other = String::new();
    match k.as_str() {
        "rd" => {
            let mut buf = vec![0xEEu8; op.n];
            match catch_unwind(AssertUnwindSafe(|| rs[op.h].read(&mut buf))) {
                Err(_) => res = "err:panic".to_string(),
                Ok(Err(e)) => res = format!("err:{}", io_class(&e)),
                Ok(Ok(n)) => {
                    res = format!("ok:{}", n);
                    let want = std::cmp::min(op.n, w.end - w.pos);
                    if n > op.n || buf[std::cmp::min(n, op.n)..].iter().any(|&b| b != 0xEE) {
                        cx.hit("C04", "C04:reader-bytes:rd:overrun".into(), "read wrote past the count it returned".into());
                    }
                    let n = std::cmp::min(n, op.n);
                    bytes = buf[..n].to_vec();
                    if n != want || bytes[..] != cx.req[w.pos..std::cmp::min(w.pos + n, cx.req.len())] {
                        cx.hit("C04", "C04:reader-bytes:rd".into(), format!("read({}) at request offset {} returned {} bytes {}", op.n, w.pos, n, show_bytes(&bytes)));
                    }
                }
            }
        }
        "ro" => match catch_unwind(AssertUnwindSafe(|| read_obj_n(&mut rs[op.h], op.n))) {
            Err(_) => res = "err:panic".to_string(),
            Ok(None) => return "badsize".into(),
            Ok(Some(Err(e))) => {
                res = format!("err:{}", io_class(&e));
                if w.end - w.pos >= op.n {
                    cx.hit("C04", "C04:reader-bytes:ro:spurious-error".into(), format!("read_obj({}) failed with {} bytes available", op.n, w.end - w.pos));
                }
            }
            Ok(Some(Ok(v))) => {
                res = "ok:0".to_string();
                bytes = v;
                if w.end - w.pos < op.n || bytes[..] != cx.req[w.pos..w.pos + op.n] {
                    cx.hit("C04", "C04:reader-bytes:ro".into(), format!("read_obj({}) at request offset {} returned {}", op.n, w.pos, show_bytes(&bytes)));
                }
            }
        },
        "rt" | "re" => {
            let mut file = AnyFile::new(op);
            let r = catch_unwind(AssertUnwindSafe(|| {
                if k == "re" {
                    rs[op.h].read_exact_to(file.f(), op.n).map(|_| 0)
                } else if let (Some(off), true) = (op.at, am() && !op.dflt) {
                    let af = AFile(RefCell::new(Core::new(&op.answers, op.seed)));
                    via_async("async:Reader::async_read_to_at");
                    let r = block_on(rs[op.h].async_read_to_at(&af, op.n, off));
                    file = AnyFile::Full(FullFile(af.0.into_inner()));
                    r
                } else if let Some(off) = op.at {
                    rs[op.h].read_to_at(file.f(), op.n, off)
                } else {
                    rs[op.h].read_to(file.f(), op.n)
                }
            }));
            let got = file.core().got.clone();
            match r {
                Err(_) => res = "err:panic".to_string(),
                Ok(Err(e)) => res = format!("err:{}", io_class(&e)),
                Ok(Ok(n)) => {
                    res = format!("ok:{}", n);
                    if k == "rt" && n != got.len() {
                        cx.hit("C04", "C04:reader-bytes:rt:count".into(), format!("read_to returned {} but the file received {} bytes", n, got.len()));
                    }
                    if k == "re" && got.len() != op.n {
                        cx.hit("C04", "C04:reader-bytes:re:count".into(), format!("read_exact_to({}) delivered {} bytes", op.n, got.len()));
                    }
                }
            }
            if w.pos + got.len() > w.end || got[..] != cx.req[w.pos..w.pos + got.len()] {
                cx.hit("C04", format!("C04:reader-bytes:{}", k), format!("file received {} at request offset {}", show_bytes(&got), w.pos));
            }
            if file.core().offs.iter().any(|o| *o != op.at) {
                cx.hit("C04", format!("C04:sink-offset:{}", k), "file offset argument altered".into());
            }
            let off = file.core().offered.clone();
            offered = cx.show_offered(&off, false);
            bytes = got;
        }
        "rs" => match catch_unwind(AssertUnwindSafe(|| rs[op.h].split_at(op.n))) {
            Err(_) => res = "err:panic".to_string(),
            Ok(Err(e)) => {
                res = format!("err:{}", tr_class(&e));
                if op.n <= a0 {
                    cx.hit("C04", "C04:split:rs:spurious-error".into(), format!("split_at({}) failed with {} available", op.n, a0));
                }
            }
            Ok(Ok(o)) => {
                res = "ok:0".to_string();
                let (a1, u1) = (rs[op.h].available_bytes(), rs[op.h].bytes_read());
                if op.n > a0 || a1 != op.n || u1 != u0 || o.available_bytes() != a0 - std::cmp::min(op.n, a0) || o.bytes_read() != 0 {
                    cx.hit("C04", "C04:split:rs".into(), format!("split_at({}) of {}/{} gave {}/{} + {}/{}", op.n, a0, u0, a1, u1, o.available_bytes(), o.bytes_read()));
                }
                other = format!(",{},{}", o.available_bytes(), o.bytes_read());
                let cut = std::cmp::min(w.pos + op.n, w.end);
                cx.rt[op.h] = Win { pos: w.pos, end: cut };
                cx.rt.push(Win { pos: cut, end: w.end });
                rs.push(o);
            }
        },
        _ => return "badop".into(),
    }
    let (a1, u1) = (rs[op.h].available_bytes(), rs[op.h].bytes_read());
    if k != "rs" {
        let adv = u1.wrapping_sub(u0);
        if a1 + u1 != a0 + u0 || (res.starts_with("ok") && adv != bytes.len()) {
            cx.hit("C04", format!("C04:counter:{}", k), format!("counters {}/{} -> {}/{} with {} bytes obtained", a0, u0, a1, u1, bytes.len()));
        }
        cx.rt[op.h].pos = std::cmp::min(w.pos + adv, w.end);
    } else if res.starts_with("err") && (a1, u1) != (a0, u0) {
        cx.hit("C04", "C04:counter:rs".into(), "failed split changed the counters".into());
    }
    obs(&res, &bytes, &offered, &format!("{},{}{}", a1, u1, other), &[])
}

fn flat_area(cx: &Cx) -> Vec<u8> {
    let mut v = Vec::new();
    for &(id, off, len) in &cx.wsegs {
        let r = cx.regs.iter().find(|r| r.id == id).unwrap();
        v.extend_from_slice(unsafe { std::slice::from_raw_parts((r.ptr + off) as *const u8, len) });
    }
    v
}

fn vwriter_op<'a, S: BitmapSlice>(ws: &mut Vec<Writer<'a, S>>, op: &OpS, cx: &mut Cx) -> String {
    if op.h >= ws.len() {
        return "nohandle".into();
    }
    let (a0, u0) = (ws[op.h].available_bytes(), ws[op.h].bytes_written());
    let w = cx.wt[op.h];
    let k = op.k.clone();
    let mut res;
    let mut offered = String::new();
    let mut other = String::new();
    // what the flat area must look like afterwards
    let mut written: Vec<u8> = vec![];
    match k.as_str() {
        "wr" => {
            let data = pat_bytes(op.seed, 0, op.n);
            match catch_unwind(AssertUnwindSafe(|| if am() { via_async("async:virtio:async_write"); block_on(ws[op.h].async_write(&data)) } else { ws[op.h].write(&data) })) {
                Err(_) => res = "err:panic".to_string(),
                Ok(Err(e)) => {
                    res = format!("err:{}", io_class(&e));
                    if op.n <= a0 {
                        cx.hit("C04", "C04:overflow:wr:spurious-error".into(), format!("write({}) failed with {} available", op.n, a0));
                    }
                }
                Ok(Ok(n)) => {
                    res = format!("ok:{}", n);
                    if n != op.n {
                        cx.hit("C04", "C04:writer-bytes:wr:count".into(), format!("write({}) returned {}", op.n, n));
                    }
                    written = data[..std::cmp::min(n, data.len())].to_vec();
                }
            }
        }
        "wv" => {
            let datas = op.datas();
            let ios: Vec<IoSlice> = datas.iter().map(|d| IoSlice::new(d)).collect();
            let tot: usize = datas.iter().map(|d| d.len()).sum();
            match catch_unwind(AssertUnwindSafe(|| match (am(), datas.len()) {
                (true, 2) => { via_async("async:virtio:async_write2"); block_on(ws[op.h].async_write2(&datas[0], &datas[1])) }
                (true, 3) => { via_async("async:virtio:async_write3"); block_on(ws[op.h].async_write3(&datas[0], &datas[1], &datas[2])) }
                _ => ws[op.h].write_vectored(&ios),
            })) {
                Err(_) => res = "err:panic".to_string(),
                Ok(Err(e)) => {
                    res = format!("err:{}", io_class(&e));
                    if tot <= a0 {
                        cx.hit("C04", "C04:overflow:wv:spurious-error".into(), format!("write_vectored({}) failed with {} available", tot, a0));
                    }
                }
                Ok(Ok(n)) => {
                    res = format!("ok:{}", n);
                    if n != tot {
                        cx.hit("C04", "C04:writer-bytes:wv:count".into(), format!("write_vectored({}) returned {}", tot, n));
                    }
                    written = datas.concat();
                    written.truncate(n);
                }
            }
        }
        "wf" | "wa" => {
            let mut file = AnyFile::new(op);
            let r = catch_unwind(AssertUnwindSafe(|| {
                if k == "wa" {
                    match &mut ws[op.h] {
                        Writer::VirtioFs(v) => v.write_all_from(file.f(), op.n).map(|_| 0),
                        _ => unreachable!(),
                    }
                } else if let (Some(off), true) = (op.at, am() && !op.dflt) {
                    let af = AFile(RefCell::new(Core::new(&op.answers, op.seed)));
                    via_async("async:virtio:async_write_from_at");
                    let r = block_on(ws[op.h].async_write_from_at(&af, op.n, off));
                    file = AnyFile::Full(FullFile(af.0.into_inner()));
                    r
                } else if let Some(off) = op.at {
                    ws[op.h].write_from_at(file.f(), op.n, off)
                } else {
                    match &mut ws[op.h] {
                        Writer::VirtioFs(v) => v.write_from(file.f(), op.n),
                        _ => unreachable!(),
                    }
                }
            }));
            match r {
                Err(_) => res = "err:panic".to_string(),
                Ok(Err(e)) => res = format!("err:{}", io_class(&e)),
                Ok(Ok(n)) => res = format!("ok:{}", n),
            }
            let adv = ws[op.h].bytes_written().wrapping_sub(u0);
            written = pat_bytes(op.seed, op.at.unwrap_or(0), std::cmp::min(adv, 1 << 20));
            if file.core().offs.iter().any(|o| *o != op.at) {
                cx.hit("C04", format!("C04:sink-offset:{}", k), "file offset argument altered".into());
            }
            let off = file.core().offered.clone();
            offered = cx.show_offered(&off, true);
        }
        "ws" => match catch_unwind(AssertUnwindSafe(|| ws[op.h].split_at(op.n))) {
            Err(_) => res = "err:panic".to_string(),
            Ok(Err(e)) => {
                res = format!("err:{}", tr_class(&e));
                if op.n <= a0 {
                    cx.hit("C04", "C04:split:ws:spurious-error".into(), format!("split_at({}) failed with {} available", op.n, a0));
                }
            }
            Ok(Ok(o)) => {
                res = "ok:0".to_string();
                let (a1, u1) = (ws[op.h].available_bytes(), ws[op.h].bytes_written());
                if op.n > a0 || a1 != op.n || u1 != u0 || o.available_bytes() != a0 - std::cmp::min(op.n, a0) || o.bytes_written() != 0 {
                    cx.hit("C04", "C04:split:ws".into(), format!("split_at({}) of {}/{} gave {}/{} + {}/{}", op.n, a0, u0, a1, u1, o.available_bytes(), o.bytes_written()));
                }
                other = format!(",{},{}", o.available_bytes(), o.bytes_written());
                let cut = std::cmp::min(w.pos + op.n, w.end);
                cx.wt[op.h] = Win { pos: w.pos, end: cut };
                cx.wt.push(Win { pos: cut, end: w.end });
                ws.push(o);
            }
        },
        "wc" => {
            let r = match op.other {
                Some(o) if o != op.h && o < ws.len() => {
                    let (x, y) = if op.h < o {
                        let (l, r) = ws.split_at_mut(o);
                        (&mut l[op.h], &r[0])
                    } else {
                        let (l, r) = ws.split_at_mut(op.h);
                        (&mut r[0], &l[o])
                    };
                    x.commit(Some(y))
                }
                _ => ws[op.h].commit(None),
            };
            res = match r {
                Ok(n) => format!("ok:{}", n),
                Err(e) => format!("err:{}", io_class(&e)),
            };
        }
        _ => return "badop".into(),
    }
    let (a1, u1) = (ws[op.h].available_bytes(), ws[op.h].bytes_written());
    if k != "ws" {
        let adv = u1.wrapping_sub(u0);
        if a1 + u1 != a0 + u0 || adv != written.len() {
            cx.hit("C04", format!("C04:counter:{}", k), format!("counters {}/{} -> {}/{} with {} bytes placed", a0, u0, a1, u1, written.len()));
        }
        if w.pos + written.len() <= w.end {
            cx.area[w.pos..w.pos + written.len()].copy_from_slice(&written);
            cx.wt[op.h].pos = w.pos + written.len();
        } else {
            cx.hit("C04", format!("C04:writer-bytes:{}:beyond-window", k), "more bytes placed than the writer owns".into());
        }
    } else if res.starts_with("err") && (a1, u1) != (a0, u0) {
        cx.hit("C04", "C04:counter:ws".into(), "failed split changed the counters".into());
    }
    let now = flat_area(cx);
    if now != cx.area {
        let at = now.iter().zip(cx.area.iter()).position(|(a, b)| a != b).unwrap_or(0);
        let cls = if res.starts_with("err") { "err" } else { "ok" };
        cx.hit("C04", format!("C04:writer-bytes:{}:{}", k, cls), format!("reply area differs from the concatenation written, first at flat offset {}", at));
        cx.area = now; // report once per divergence
    }
    obs(&res, &[], &offered, &format!("{},{}{}", a1, u1, other), &[])
}

fn fwriter_op<'a>(ws: &mut Vec<Writer<'a, ()>>, op: &OpS, cx: &mut Cx) -> String {
    if op.h >= ws.len() {
        return "nohandle".into();
    }
    let t = cx.ft[op.h].clone();
    let k = op.k.clone();
    let mut res;
    let mut offered = String::new();
    let mut other = String::new();
    let expect_panic = !t.buffered && t.len > 0 && k != "fs" && k != "fc";
    let mut panicked = false;
    // records the spec expects on the descriptor for this call (None: not predicted)
    let mut want_fd: Option<Vec<Vec<u8>>> = Some(vec![]);
    match k.as_str() {
        "fw" | "fv" => {
            let datas = if k == "fw" { vec![pat_bytes(op.seed, 0, op.n)] } else { op.datas() };
            let tot: usize = datas.iter().map(|d| d.len()).sum();
            let r = catch_unwind(AssertUnwindSafe(|| {
                // unbuffered asynchronous writes use pwrite()/writev() on the descriptor, which the
                // socket standing in for /dev/fuse refuses: only buffered writers go the async way
                let a = am() && t.buffered;
                if k == "fw" {
                    if a { via_async("async:fusedev:async_write"); block_on(ws[op.h].async_write(&datas[0])) } else { ws[op.h].write(&datas[0]) }
                } else {
                    let ios: Vec<IoSlice> = datas.iter().map(|d| IoSlice::new(d)).collect();
                    match (a, datas.len()) {
                        (true, 2) => { via_async("async:fusedev:async_write2"); block_on(ws[op.h].async_write2(&datas[0], &datas[1])) }
                        (true, 3) => { via_async("async:fusedev:async_write3"); block_on(ws[op.h].async_write3(&datas[0], &datas[1], &datas[2])) }
                        _ => ws[op.h].write_vectored(&ios),
                    }
                }
            }));
            match r {
                Err(_) => {
                    res = "err:panic".to_string();
                    panicked = true;
                }
                Ok(Err(e)) => {
                    res = format!("err:{}", io_class(&e));
                    if tot <= t.cap.saturating_sub(t.len) {
                        cx.hit("C04", format!("C04:overflow:{}:spurious-error", k), format!("write of {} failed with {} available", tot, t.cap.saturating_sub(t.len)));
                    }
                }
                Ok(Ok(n)) => {
                    res = format!("ok:{}", n);
                    if n != tot {
                        cx.hit("C04", format!("C04:writer-bytes:{}:count", k), format!("write of {} returned {}", tot, n));
                    }
                    let all = datas.concat();
                    let ft = &mut cx.ft[op.h];
                    ft.len += n;
                    if t.buffered {
                        if let Some(c) = ft.content.as_mut() {
                            c.extend_from_slice(&all);
                        }
                    } else {
                        if !(k == "fv" && datas.is_empty()) {
                            want_fd = Some(vec![all]);
                        }
                        if n > 0 {
                            ft.content = None; // the buffer was not filled, only its length grew
                        }
                    }
                }
            }
        }
        "ff" | "fa" => {
            let mut file = AnyFile::new(op);
            let r = catch_unwind(AssertUnwindSafe(|| match &mut ws[op.h] {
                Writer::FuseDev(v) => {
                    if k == "fa" {
                        v.write_all_from(file.f(), op.n).map(|_| 0)
                    } else if let (Some(off), true) = (op.at, am() && t.buffered && !op.dflt) {
                        let af = AFile(RefCell::new(Core::new(&op.answers, op.seed)));
                        via_async("async:fusedev:async_write_from_at");
                        let r = block_on(v.async_write_from_at(&af, op.n, off));
                        file = AnyFile::Full(FullFile(af.0.into_inner()));
                        r
                    } else if let Some(off) = op.at {
                        v.write_from_at(file.f(), op.n, off)
                    } else {
                        v.write_from(file.f(), op.n)
                    }
                }
                _ => unreachable!(),
            }));
            match r {
                Err(_) => {
                    res = "err:panic".to_string();
                    panicked = true;
                }
                Ok(Err(e)) => res = format!("err:{}", io_class(&e)),
                Ok(Ok(n)) => res = format!("ok:{}", n),
            }
            let adv = ws[op.h].bytes_written().wrapping_sub(t.len);
            let data = pat_bytes(op.seed, op.at.unwrap_or(0), std::cmp::min(adv, 1 << 20));
            let ft = &mut cx.ft[op.h];
            ft.len += adv;
            if let Some(c) = ft.content.as_mut() {
                c.extend_from_slice(&data);
            }
            want_fd = if t.buffered { Some(vec![]) } else { None };
            if !t.buffered && k == "ff" && res.starts_with("ok") {
                want_fd = Some(vec![data.clone()]);
            }
            if file.core().offs.iter().any(|o| *o != op.at) {
                cx.hit("C04", format!("C04:sink-offset:{}", k), "file offset argument altered".into());
            }
            let off = file.core().offered.clone();
            offered = cx.show_offered(&off, true);
            // a panic inside write_all_from's second round on an unbuffered writer is the
            // documented one-shot rule
            if k == "fa" && !t.buffered {
                panicked = false;
            }
        }
        "fs" => match catch_unwind(AssertUnwindSafe(|| ws[op.h].split_at(op.n))) {
            Err(_) => {
                res = "err:panic".to_string();
                panicked = true;
            }
            Ok(Err(e)) => {
                res = format!("err:{}", tr_class(&e));
                if op.n <= t.cap {
                    cx.hit("C04", "C04:split:fs:spurious-error".into(), format!("split_at({}) failed with capacity {}", op.n, t.cap));
                }
            }
            Ok(Ok(o)) => {
                res = "ok:0".to_string();
                let (a1, u1) = (ws[op.h].available_bytes(), ws[op.h].bytes_written());
                let (l1, l2) = if t.len > op.n { (op.n, t.len - op.n) } else { (t.len, 0) };
                if op.n > t.cap || a1 + u1 != op.n || u1 != l1 || o.available_bytes() + o.bytes_written() != t.cap - std::cmp::min(op.n, t.cap) || o.bytes_written() != l2 {
                    cx.hit("C04", "C04:split:fs".into(), format!("split_at({}) of len {} cap {} gave {}/{} + {}/{}", op.n, t.len, t.cap, a1, u1, o.available_bytes(), o.bytes_written()));
                }
                other = format!(",{},{}", o.available_bytes(), o.bytes_written());
                let (c1, c2) = match &t.content {
                    Some(c) if (t.buffered || t.len == 0) && l1 <= c.len() => (Some(c[..l1].to_vec()), Some(c[std::cmp::min(op.n, c.len())..].to_vec())),
                    _ => (None, None),
                };
                cx.ft[op.h] = FTrack { buffered: true, len: l1, cap: op.n, content: c1 };
                cx.ft.push(FTrack { buffered: true, len: l2, cap: t.cap.saturating_sub(op.n), content: c2 });
                ws.push(o);
            }
        },
        "fc" => {
            let oi = match op.other {
                Some(o) if o != op.h && o < ws.len() => Some(o),
                _ => None,
            };
            let r = catch_unwind(AssertUnwindSafe(|| match oi {
                Some(o) => {
                    let (x, y) = if op.h < o {
                        let (l, r) = ws.split_at_mut(o);
                        (&mut l[op.h], &r[0])
                    } else {
                        let (l, r) = ws.split_at_mut(op.h);
                        (&mut r[0], &l[o])
                    };
                    x.commit(Some(y))
                }
                None => ws[op.h].commit(None),
            }));
            match r {
                Err(_) => {
                    res = "err:panic".to_string();
                    panicked = true;
                }
                Ok(Err(e)) => res = format!("err:{}", io_class(&e)),
                Ok(Ok(n)) => res = format!("ok:{}", n),
            }
            want_fd = if !t.buffered {
                Some(vec![])
            } else {
                let oc = match oi {
                    Some(o) => cx.ft[o].content.clone(),
                    None => Some(vec![]),
                };
                match (&t.content, oc) {
                    (Some(a), Some(b)) => {
                        let mut v = a.clone();
                        v.extend_from_slice(&b);
                        Some(if v.is_empty() { vec![] } else { vec![v] })
                    }
                    _ => None,
                }
            };
        }
        _ => return "badop".into(),
    }
    let fd = drain(cx.sock.1);
    if panicked != expect_panic && !(k == "fa" && !t.buffered) {
        cx.hit("C04", format!("C04:panic:{}", k), format!("panicked={} but the one-shot rule predicts {}", panicked, expect_panic));
    }
    if let Some(mut wfd) = want_fd {
        // a zero-length writev on the descriptor queues nothing (a zero-length write does)
        if k == "fv" {
            wfd.retain(|r| !r.is_empty());
        }
        if !panicked && fd != wfd && !(res.starts_with("err") && fd.is_empty()) {
            cx.hit("C04", format!("C04:fd-record:{}", k), format!("descriptor saw {:?} expected {:?}", fd.iter().map(|r| show_bytes(r)).collect::<Vec<_>>(), wfd.iter().map(|r| show_bytes(r)).collect::<Vec<_>>()));
        }
    }
    let (a1, u1) = (ws[op.h].available_bytes(), ws[op.h].bytes_written());
    let ft = &cx.ft[op.h];
    if a1 + u1 != ft.cap || u1 != ft.len {
        cx.hit("C04", format!("C04:counter:{}", k), format!("available {} written {} but capacity {} and {} bytes accounted", a1, u1, ft.cap, ft.len));
    }
    obs(&res, &[], &offered, &format!("{},{}{}", a1, u1, other), &fd)
}

// ------------------------------------------------------------------ cases

#[derive(Clone)]
struct Hdr {
    fusedev: bool,
    page: usize,
    lay: Vec<(usize, u64, usize)>,
    chain: Vec<(bool, u64, u32)>,
    req: usize,
    cap: usize,
    /// asynchronous API where a sibling exists
    am: bool,
}

impl Hdr {
    fn show(&self) -> String {
        let am = if self.am { " am=1" } else { "" };
        if self.fusedev {
            format!("t=fusedev req={} cap={}{}", self.req, self.cap, am)
        } else {
            format!("t=virtio p={} lay={} chain={}{}", self.page,
                self.lay.iter().map(|(i, b, s)| format!("{}:{}:{}", i, b, s)).collect::<Vec<_>>().join(","),
                self.chain.iter().map(|(w, a, l)| format!("{}:{}:{}", if *w { "w" } else { "r" }, a, l)).collect::<Vec<_>>().join(","), am)
        }
    }
    fn parse(kv: &std::collections::BTreeMap<String, String>) -> Hdr {
        let g = |k: &str| kv.get(k).cloned().unwrap_or_default();
        let n = |k: &str| g(k).parse::<usize>().unwrap_or(0);
        let lay = g("lay").split(',').filter(|s| !s.is_empty()).map(|t| {
            let f: Vec<&str> = t.split(':').collect();
            (f[0].parse().unwrap(), f[1].parse().unwrap(), f[2].parse().unwrap())
        }).collect();
        let chain = g("chain").split(',').filter(|s| !s.is_empty()).map(|t| {
            let f: Vec<&str> = t.split(':').collect();
            (f[0] == "w", f[1].parse().unwrap(), f[2].parse().unwrap())
        }).collect();
        Hdr { fusedev: g("t") == "fusedev", page: if n("p") == 0 { 4096 } else { n("p") }, lay, chain, req: n("req"), cap: n("cap"), am: g("am") == "1" }
    }
}

/// live counters handed to the generator
struct Info {
    readers: Vec<usize>,
    writers: Vec<usize>,
    fws: Vec<(usize, bool)>,
}

type Provider<'p> = dyn FnMut(&Info) -> Option<OpS> + 'p;

struct CaseResult {
    ops: Vec<OpS>,
    impl_line: String,
    hits: Vec<(String, String, String)>,
    tags: Vec<String>,
}

fn diff_region(id: usize, ini: &[u8], fin: &[u8]) -> Vec<String> {
    let mut out = Vec::new();
    let mut i = 0;
    while i < ini.len() {
        if ini[i] != fin[i] {
            let s = i;
            while i < ini.len() && ini[i] != fin[i] {
                i += 1;
            }
            out.push(format!("{}:{}:{}", id, s, show_bytes(&fin[s..i])));
        } else {
            i += 1;
        }
    }
    out
}

fn finish_line(init: &str, obs: &[String], mem: &[String], dirty: &str, fin: &str) -> String {
    format!("init={} ops={} mem={} dirty={} fin={}", init, obs.join(";"), mem.join(","), dirty, fin)
}

fn run_virtio(h: &Hdr, sock: (RawFd, RawFd), next: &mut Provider) -> CaseResult {
    ASYNC_MODE.store(h.am, Ordering::Relaxed);
    const QSIZE: usize = 0x10000;
    let mut ranges: Vec<(u64, usize)> = vec![(0, QSIZE)];
    ranges.extend(h.lay.iter().map(|&(_, b, s)| (b, s)));
    let mem = vq::new_mem_with(h.page, &ranges);
    let mut cx = Cx { line_hdr: h.show(), regs: vec![], rsegs: vec![], wsegs: vec![], req: vec![], area: vec![], rt: vec![], wt: vec![], ft: vec![], hits: vec![], sock, tags: vec![] };
    for &(id, base, size) in &h.lay {
        let p = mem.get_host_address(GuestAddress(base)).unwrap() as usize;
        unsafe { std::ptr::write_bytes(p as *mut u8, CANARY, size) };
        cx.regs.push(Reg { id, ptr: p, size });
    }
    // fill: request pattern / reply fill pattern by flat position
    for &(w, addr, len) in &h.chain {
        let len = len as usize;
        if let Some(&(id, base, size)) = h.lay.iter().find(|&&(_, b, s)| b <= addr && addr < b + s as u64) {
            let off = (addr - base) as usize;
            if off + len <= size {
                let r = cx.regs.iter().find(|r| r.id == id).unwrap();
                let dst = unsafe { std::slice::from_raw_parts_mut((r.ptr + off) as *mut u8, len) };
                if w {
                    let p0 = cx.area.len();
                    for (i, d) in dst.iter_mut().enumerate() {
                        *d = wfill(p0 + i);
                    }
                    cx.area.extend_from_slice(dst);
                    cx.wsegs.push((id, off, len));
                } else {
                    let p0 = cx.req.len();
                    for (i, d) in dst.iter_mut().enumerate() {
                        *d = rfill(p0 + i);
                    }
                    cx.req.extend_from_slice(dst);
                    cx.rsegs.push((id, off, len));
                }
            }
        }
    }
    let initial: Vec<Vec<u8>> = cx.regs.iter().map(|r| unsafe { std::slice::from_raw_parts(r.ptr as *const u8, r.size) }.to_vec()).collect();
    let segs: Vec<vq::Seg> = h.chain.iter().map(|&(w, a, l)| vq::Seg { addr: a, len: l, writable: w }).collect();
    let chain = vq::build_chain(&mem, &segs);
    for &(_, base, _) in &h.lay {
        let _ = vq::take_dirty(&mem, base);
    }
    let mut readers = Vec::new();
    let mut writers: Vec<Writer<_>> = Vec::new();
    let ri = match Reader::from_descriptor_chain(&mem, chain.clone()) {
        Ok(r) => {
            cx.rt.push(Win { pos: 0, end: r.available_bytes() });
            if r.available_bytes() != cx.req.len() {
                cx.hit("C04", "C04:counter:new:reader".into(), format!("new reader has {} bytes for a {}-byte request", r.available_bytes(), cx.req.len()));
            }
            readers.push(r);
            "ok".to_string()
        }
        Err(e) => format!("err:{}", tr_class(&e)),
    };
    let wi = match VirtioFsWriter::new(&mem, chain) {
        Ok(w) => {
            cx.wt.push(Win { pos: 0, end: w.available_bytes() });
            if w.available_bytes() != cx.area.len() {
                cx.hit("C04", "C04:counter:new:writer".into(), format!("new writer has {} bytes for {} bytes of reply space", w.available_bytes(), cx.area.len()));
            }
            writers.push(Writer::VirtioFs(w));
            "ok".to_string()
        }
        Err(e) => format!("err:{}", tr_class(&e)),
    };
    let mut ops = Vec::new();
    let mut obs_v = Vec::new();
    loop {
        let info = Info { readers: readers.iter().map(|r| r.available_bytes()).collect(), writers: writers.iter().map(|w| w.available_bytes()).collect(), fws: vec![] };
        let op = match next(&info) {
            Some(o) => o,
            None => break,
        };
        let o = if op.k.starts_with('r') { reader_op(&mut readers, &op, &mut cx) } else if op.k.starts_with('w') { vwriter_op(&mut writers, &op, &mut cx) } else { "badop".into() };
        cx.tags.push(format!("{}:{}", op.k, o.split('/').next().unwrap_or("").split(':').take(2).collect::<Vec<_>>().join(":").replace(|c: char| c.is_ascii_digit(), "")));
        ops.push(op);
        obs_v.push(o);
    }
    let fin = format!("R{}|W{}|F",
        readers.iter().map(|r| format!("{}/{}", r.available_bytes(), r.bytes_read())).collect::<Vec<_>>().join(","),
        writers.iter().map(|w| format!("{}/{}", w.available_bytes(), w.bytes_written())).collect::<Vec<_>>().join(","));
    // sums of counters
    let rs: usize = readers.iter().map(|r| r.available_bytes() + r.bytes_read()).sum();
    let wsum: usize = writers.iter().map(|w| w.available_bytes() + w.bytes_written()).sum();
    if (ri == "ok" && rs != cx.req.len()) || (wi == "ok" && wsum != cx.area.len()) {
        cx.hit("C04", "C04:counter:sum".into(), format!("available+consumed over all handles: readers {} of {}, writers {} of {}", rs, cx.req.len(), wsum, cx.area.len()));
    }
    drop(readers);
    drop(writers);
    // memory and dirty log
    let mut memd = Vec::new();
    let mut dirty_s = Vec::new();
    for (i, r) in cx.regs.clone().iter().enumerate() {
        let fin_b = unsafe { std::slice::from_raw_parts(r.ptr as *const u8, r.size) }.to_vec();
        memd.extend(diff_region(r.id, &initial[i], &fin_b));
        let base = h.lay.iter().find(|l| l.0 == r.id).unwrap().1;
        let dirty = vq::take_dirty(&mem, base);
        let npages = r.size.div_ceil(h.page);
        let mut changed = vec![false; npages];
        for j in 0..r.size {
            if fin_b[j] != initial[i][j] {
                changed[j / h.page] = true;
                if !cx.wsegs.iter().any(|&(id, o, n)| id == r.id && o <= j && j < o + n) {
                    cx.hit("C04", "C04:oob:mem".into(), format!("byte {} of region {} changed outside the writable descriptors", j, r.id));
                }
            }
        }
        for pg in 0..npages {
            let d = dirty.contains(&pg);
            if changed[pg] && !d {
                cx.hit("C17", "C17:missed-dirty".into(), format!("page {} of region {} (page size {}) was modified but is not marked dirty", pg, r.id, h.page));
            }
            if d && !changed[pg] {
                cx.hit("C17", "C17:spurious-dirty".into(), format!("page {} of region {} (page size {}) is marked dirty but no byte of it was modified", pg, r.id, h.page));
            }
        }
        for pg in dirty {
            dirty_s.push(format!("{}:{}", r.id, pg));
        }
    }
    let line = finish_line(&format!("{},{}", ri, wi), &obs_v, &memd, &dirty_s.join(","), &fin);
    CaseResult { ops, impl_line: line, hits: cx.hits, tags: cx.tags }
}

fn run_fusedev(h: &Hdr, sock: (RawFd, RawFd), next: &mut Provider) -> CaseResult {
    ASYNC_MODE.store(h.am, Ordering::Relaxed);
    let mut reqbuf: Vec<u8> = (0..h.req).map(rfill).collect();
    let mut scratch: Vec<u8> = (0..h.cap + 2 * GUARD).map(|i| if i < GUARD || i >= GUARD + h.cap { CANARY } else { wfill(i - GUARD) }).collect();
    let initial = vec![reqbuf.clone(), scratch.clone()];
    let mut cx = Cx { line_hdr: h.show(), regs: vec![Reg { id: 1, ptr: reqbuf.as_ptr() as usize, size: h.req }, Reg { id: 2, ptr: scratch.as_ptr() as usize, size: scratch.len() }],
        rsegs: vec![(1, 0, h.req)], wsegs: vec![(2, GUARD, h.cap)], req: reqbuf.clone(), area: vec![], rt: vec![Win { pos: 0, end: h.req }], wt: vec![],
        ft: vec![FTrack { buffered: false, len: 0, cap: h.cap, content: Some(vec![]) }], hits: vec![], sock, tags: vec![] };
    let _ = drain(sock.1);
    let mut ops = Vec::new();
    let mut obs_v = Vec::new();
    let fin;
    {
        let mut readers: Vec<Reader<'_, ()>> = vec![Reader::from_fuse_buffer(FuseBuf::new(&mut reqbuf)).unwrap()];
        let mut writers: Vec<Writer<'_, ()>> = vec![Writer::FuseDev(FuseDevWriter::<()>::new(sock.0, &mut scratch[GUARD..GUARD + h.cap]).unwrap())];
        loop {
            let info = Info { readers: readers.iter().map(|r| r.available_bytes()).collect(), writers: vec![],
                fws: writers.iter().zip(cx.ft.iter()).map(|(w, t)| (w.available_bytes(), t.buffered)).collect() };
            let op = match next(&info) {
                Some(o) => o,
                None => break,
            };
            let o = if op.k.starts_with('r') { reader_op(&mut readers, &op, &mut cx) } else if op.k.starts_with('f') { fwriter_op(&mut writers, &op, &mut cx) } else { "badop".into() };
            cx.tags.push(format!("{}:{}", op.k, o.split('/').next().unwrap_or("").split(':').take(2).collect::<Vec<_>>().join(":").replace(|c: char| c.is_ascii_digit(), "")));
            ops.push(op);
            obs_v.push(o);
        }
        fin = format!("R{}|W|F{}",
            readers.iter().map(|r| format!("{}/{}", r.available_bytes(), r.bytes_read())).collect::<Vec<_>>().join(","),
            writers.iter().map(|w| format!("{}/{}", w.available_bytes(), w.bytes_written())).collect::<Vec<_>>().join(","));
        let caps: usize = writers.iter().map(|w| w.available_bytes() + w.bytes_written()).sum();
        if caps != h.cap {
            cx.hit("C04", "C04:counter:sum".into(), format!("capacities of all writers add up to {} of {}", caps, h.cap));
        }
    }
    let mut memd = diff_region(1, &initial[0], &reqbuf);
    memd.extend(diff_region(2, &initial[1], &scratch));
    if reqbuf != initial[0] || scratch[..GUARD] != initial[1][..GUARD] || scratch[GUARD + h.cap..] != initial[1][GUARD + h.cap..] {
        cx.hit("C04", "C04:oob:mem".into(), "request buffer or guard bytes around the reply buffer changed".into());
    }
    let line = finish_line("ok,ok", &obs_v, &memd, "", &fin);
    CaseResult { ops, impl_line: line, hits: cx.hits, tags: cx.tags }
}

// ------------------------------------------------------------------ adapter (FileVolatileSlice)

fn verr(e: &vm_memory::VolatileMemoryError) -> String {
    use vm_memory::VolatileMemoryError::*;
    match e {
        OutOfBounds { .. } => "OutOfBounds".into(),
        PartialBuffer { expected, completed } => format!("PartialBuffer.{}.{}", expected, completed),
        Misaligned { .. } => "Misaligned".into(),
        _ => "OtherV".into(),
    }
}

fn adapter_op(s: &str, hits: &mut Vec<(String, String, String)>) -> String {
    let f: Vec<&str> = s.split(':').collect();
    let u = |i: usize| -> usize { f.get(i).and_then(|x| x.parse().ok()).unwrap_or(0) };
    let len = u(1);
    // 8-aligned backing store with guards
    let mut store: Vec<u64> = vec![0xC3C3_C3C3_C3C3_C3C3; len / 8 + 3];
    let base = unsafe { (store.as_mut_ptr() as *mut u8).add(8) };
    let init: Vec<u8> = (0..len).map(wfill).collect();
    unsafe { std::ptr::copy_nonoverlapping(init.as_ptr(), base, len) };
    let sl = unsafe { FileVolatileSlice::from_raw_ptr(base, len) };
    let now = |b: *mut u8| unsafe { std::slice::from_raw_parts(b, len) }.to_vec();
    let fin = |a: &[u8]| format!("/s={}", diff_region(0, &init, a).join(","));
    let mut hit = |m: &str, what: String| {
        let key = format!("C04:adapter:{}", m);
        if !hits.iter().any(|h| h.1 == key) {
            hits.push(("C04".into(), key, what));
        }
    };
    let out = match f[0] {
        "ar" => {
            let (n, addr) = (u(2), u(3));
            let mut buf = vec![0xAAu8; n];
            match sl.read(&mut buf, addr) {
                Ok(c) => {
                    let want: Vec<u8> = if addr < len { init[addr..std::cmp::min(addr + n, len)].to_vec() } else { vec![] };
                    if buf[..std::cmp::min(c, n)] != want[..] || now(base) != init {
                        hit("read", format!("read({}, {}) on a {}-byte slice returned {} / changed the slice", n, addr, len, show_bytes(&buf[..std::cmp::min(c, n)])));
                    }
                    format!("ok:{}/b={}{}", c, show_bytes(&buf[..std::cmp::min(c, n)]), fin(&now(base)))
                }
                Err(e) => {
                    if n > 0 && addr < len {
                        hit("read", format!("read({}, {}) on a {}-byte slice failed", n, addr, len));
                    }
                    format!("err:{}/b={}", verr(&e), fin(&now(base)))
                }
            }
        }
        "aw" | "ax" => {
            let (n, addr, seed) = (u(2), u(3), u(4) as u64);
            let data = pat_bytes(seed, 0, n);
            let c_want = if n == 0 { 0 } else if addr < len { std::cmp::min(n, len - addr) } else { 0 };
            let mut expect = init.clone();
            if addr < len {
                expect[addr..addr + c_want].copy_from_slice(&data[..c_want]);
            }
            let r = if f[0] == "aw" { sl.write(&data, addr) } else { sl.write_slice(&data, addr).map(|_| 0) };
            let m = if f[0] == "aw" { "write" } else { "write_slice" };
            let a = now(base);
            if a != expect {
                hit(m, format!("{}({}, {}) on a {}-byte slice left the wrong content", m, n, addr, len));
            }
            match r {
                Ok(c) => {
                    if (f[0] == "aw" && c != c_want) || (f[0] == "ax" && c_want != n) {
                        hit(m, format!("{}({}, {}) on a {}-byte slice returned Ok({})", m, n, addr, len, c));
                    }
                    format!("ok:{}/b={}", c, fin(&a))
                }
                Err(e) => {
                    if n == 0 || (f[0] == "aw" && addr < len) || (f[0] == "ax" && c_want == n) {
                        hit(m, format!("{}({}, {}) on a {}-byte slice failed", m, n, addr, len));
                    }
                    format!("err:{}/b={}", verr(&e), fin(&a))
                }
            }
        }
        "as" => {
            let (n, addr) = (u(2), u(3));
            let mut buf = vec![0xAAu8; n];
            let r = sl.read_slice(&mut buf, addr);
            let a = now(base);
            let avail = if n == 0 { 0 } else if addr < len { std::cmp::min(n, len - addr) } else { 0 };
            let mut want = vec![0xAAu8; n];
            if addr < len {
                want[..avail].copy_from_slice(&init[addr..addr + avail]);
            }
            if a != init || buf != want || (r.is_ok() != (avail == n)) {
                hit("read_slice", format!("read_slice({}, {}) on a {}-byte slice: buffer {} (expected {}), slice {}", n, addr, len, show_bytes(&buf), show_bytes(&want), if a != init { "modified" } else { "intact" }));
            }
            match r {
                Ok(()) => format!("ok:0/b={}{}", show_bytes(&buf), fin(&a)),
                Err(e) => format!("err:{}/b={}{}", verr(&e), show_bytes(&buf), fin(&a)),
            }
        }
        "al" => {
            let (wd, addr) = (u(2), u(3));
            use std::sync::atomic::Ordering::SeqCst;
            let r: Result<Vec<u8>, _> = match wd {
                1 => sl.load::<u8>(addr, SeqCst).map(|v| v.to_le_bytes().to_vec()),
                2 => sl.load::<u16>(addr, SeqCst).map(|v| v.to_le_bytes().to_vec()),
                4 => sl.load::<u32>(addr, SeqCst).map(|v| v.to_le_bytes().to_vec()),
                _ => sl.load::<u64>(addr, SeqCst).map(|v| v.to_le_bytes().to_vec()),
            };
            let a = now(base);
            match r {
                Ok(v) => {
                    if addr + wd > len || v[..] != init[addr..addr + wd] || a != init {
                        hit("load", format!("load::<u{}>({}) on a {}-byte slice returned {}", wd * 8, addr, len, show_bytes(&v)));
                    }
                    format!("ok:{}/b={}{}", v.len(), show_bytes(&v), fin(&a))
                }
                Err(e) => {
                    if addr + wd <= len && addr % wd == 0 {
                        hit("load", format!("load::<u{}>({}) on a {}-byte slice failed", wd * 8, addr, len));
                    }
                    format!("err:{}/b={}", verr(&e), fin(&a))
                }
            }
        }
        "at" => {
            let (wd, addr, seed) = (u(2), u(3), u(4) as u64);
            use std::sync::atomic::Ordering::SeqCst;
            let v = pat_bytes(seed, 0, wd);
            let r = match wd {
                1 => sl.store::<u8>(v[0], addr, SeqCst),
                2 => sl.store::<u16>(u16::from_le_bytes([v[0], v[1]]), addr, SeqCst),
                4 => sl.store::<u32>(u32::from_le_bytes([v[0], v[1], v[2], v[3]]), addr, SeqCst),
                _ => sl.store::<u64>(u64::from_le_bytes([v[0], v[1], v[2], v[3], v[4], v[5], v[6], v[7]]), addr, SeqCst),
            };
            let a = now(base);
            let okx = addr + wd <= len && addr % wd == 0;
            let mut expect = init.clone();
            if okx {
                expect[addr..addr + wd].copy_from_slice(&v);
            }
            if a != expect || r.is_ok() != okx {
                hit("store", format!("store::<u{}>({}) on a {}-byte slice: wrong content or result", wd * 8, addr, len));
            }
            match r {
                Ok(()) => format!("ok:0/b={}", fin(&a)),
                Err(e) => format!("err:{}/b={}", verr(&e), fin(&a)),
            }
        }
        _ => "badop".into(),
    };
    // guards of the backing store
    let g = unsafe { std::slice::from_raw_parts(store.as_ptr() as *const u8, store.len() * 8) };
    if g[..8].iter().any(|&b| b != 0xC3) || g[8 + len..].iter().any(|&b| b != 0xC3) {
        hit("oob", format!("{} touched memory outside the slice", s));
    }
    out
}

// ------------------------------------------------------------------ generation

fn pick_n(r: &mut Prng, avail: usize) -> usize {
    match r.below(12) {
        0 => 0,
        1 => 1,
        2 => avail,
        3 => avail + 1,
        4 => avail.saturating_sub(1),
        5 => avail / 2,
        6 => avail + r.below(5) as usize,
        7 => r.below(9) as usize,
        _ => r.below(avail as u64 + 1) as usize,
    }
}

fn gen_answers(r: &mut Prng, count: usize, many: bool) -> Vec<Ans> {
    let n = if many { r.below(5) as usize } else { r.below(2) as usize };
    (0..n)
        .map(|_| match r.below(10) {
            0 => Ans::Err,
            1 => Ans::Intr,
            2 => Ans::N(0),
            3 => Ans::N(1),
            4 => Ans::N(count),
            _ => Ans::N(r.below(count as u64 + 2) as usize),
        })
        .collect()
}

fn gen_op(r: &mut Prng, info: &Info, prop: &str) -> Option<OpS> {
    let fusedev = !info.fws.is_empty();
    // C17 concentrates on writes
    let wbias = if prop == "C17" { 5 } else { 2 };
    let mut kinds: Vec<&str> = vec![];
    if !info.readers.is_empty() {
        kinds.extend(["rd", "rd", "ro", "rt", "rt", "re", "rs"]);
    }
    if !info.writers.is_empty() {
        for _ in 0..wbias {
            kinds.extend(["wr", "wv", "wf", "wf", "wa", "ws"]);
        }
        kinds.push("wc");
    }
    if fusedev {
        for _ in 0..2 {
            kinds.extend(["fw", "fv", "ff", "fa", "fs", "fs", "fc"]);
        }
    }
    if kinds.is_empty() {
        return None;
    }
    let k = *r.pick(&kinds);
    let mut op = OpS { k: k.to_string(), ..Default::default() };
    match k.as_bytes()[0] {
        b'r' => {
            op.h = r.below(info.readers.len() as u64) as usize;
            let a = info.readers[op.h];
            op.n = if k == "ro" { *r.pick(&OBJ_SIZES) } else { pick_n(r, a) };
        }
        b'w' => {
            op.h = r.below(info.writers.len() as u64) as usize;
            op.n = pick_n(r, info.writers[op.h]);
        }
        _ => {
            // prefer buffered writers: the one-shot rule makes unbuffered ones single-use
            let buffered: Vec<usize> = (0..info.fws.len()).filter(|&i| info.fws[i].1).collect();
            op.h = if !buffered.is_empty() && r.chance(4, 5) { *r.pick(&buffered) } else { r.below(info.fws.len() as u64) as usize };
            op.n = pick_n(r, info.fws[op.h].0);
        }
    }
    op.seed = r.below(200);
    op.dflt = r.chance(1, 3);
    match k {
        "rt" | "wf" | "ff" => {
            if r.chance(1, 2) {
                op.at = Some(r.below(100000));
            }
            op.answers = gen_answers(r, op.n, false);
        }
        "re" | "wa" | "fa" => op.answers = gen_answers(r, op.n, true),
        "wv" | "fv" => {
            let avail = op.n;
            let parts = r.below(5) as usize;
            let mut left = avail;
            for _ in 0..parts {
                let l = match r.below(4) {
                    0 => 0,
                    1 => left,
                    _ => r.below(left as u64 + 1) as usize,
                };
                op.lens.push(l);
                left -= std::cmp::min(l, left);
            }
            if r.chance(1, 8) {
                op.lens.push(left + 1);
            }
        }
        "wc" | "fc" => {
            let n = if k == "wc" { info.writers.len() } else { info.fws.len() };
            if n > 1 && r.chance(3, 4) {
                let o = r.below(n as u64) as usize;
                if o != op.h {
                    op.other = Some(o);
                }
            }
        }
        _ => {}
    }
    Some(op)
}

fn gen_lens(r: &mut Prng, page: usize, n: usize, big: bool) -> Vec<u32> {
    (0..n)
        .map(|_| match r.below(12) {
            0 | 1 => 0,
            2 | 3 => 1,
            4 => 2,
            5 => 8,
            6 => 16,
            7 => 40,
            8 if big => (page + r.below(page as u64 / 2 + 2) as usize) as u32,
            9 if big => (page - 1 + r.below(3) as usize) as u32,
            _ => r.below(if page >= 4096 { 300 } else { page as u64 * 3 + 2 }) as u32,
        })
        .collect()
}

fn gen_hdr(r: &mut Prng, prop: &str) -> Hdr {
    if prop != "C17" && r.chance(1, 4) {
        let cap = match r.below(6) { 0 => 0, 1 => 1, 2 => 16, _ => r.below(300) as usize };
        let req = match r.below(5) { 0 => 0, 1 => 1, 2 => 40, _ => r.below(200) as usize };
        return Hdr { fusedev: true, page: 4096, lay: vec![], chain: vec![], req, cap, am: false };
    }
    let page = *r.pick(&[4096usize, 4096, 64, 2]);
    let (s1, s2): (usize, usize) = match page { 4096 => (6 * 4096, 4 * 4096 + 17), 64 => (2048, 1024 + 5), _ => (1024, 513) };
    let (b1, b2) = (0x10_0000u64, 0x100_0000u64);
    let lay = vec![(1usize, b1, s1), (2usize, b2, s2)];
    if r.chance(1, if prop == "C17" { 40 } else { 120 }) {
        // a chain longer than any iovec limit: more than 1024 tiny writable descriptors (queues
        // may have up to 32768 entries); the case's first operation writes across all of them
        let nw = r.range(1030, 1300) as usize;
        let mut chain = vec![(false, b1, 16u32)];
        let mut cur = [32usize, 0usize];
        let size = [s1, s2];
        let base = [b1, b2];
        for k in 0..nw {
            let reg = if k % 7 == 3 { 1 } else { 0 };
            let l = if page == 2 || size[reg] < 4096 { 1 } else { 1 + r.below(3) as u32 };
            if cur[reg] + l as usize + 1 > size[reg] {
                continue;
            }
            let gap = if r.chance(1, 5) { 1 } else { 0 };
            chain.push((true, base[reg] + (cur[reg] + gap) as u64, l));
            cur[reg] += gap + l as usize;
        }
        return Hdr { fusedev: false, page, lay, chain, req: 0, cap: 0, am: false };
    }
    loop {
        let nr = r.below(6) as usize;
        let nw = if prop == "C17" { r.range(1, 6) } else { r.below(7) } as usize;
        if nr + nw == 0 {
            continue;
        }
        let big_r = r.chance(1, 4);
        let rl = gen_lens(r, page, nr, big_r);
        let big_w = r.chance(1, 2);
        let wl = gen_lens(r, page, nw, big_w);
        // placement: cursors in both regions, gaps random, sometimes hugging a page border
        let mut cur = [r.below(page as u64 + 9) as usize, r.below(page as u64 + 9) as usize];
        let size = [s1, s2];
        let base = [b1, b2];
        let mut chain = Vec::new();
        let mut ok = true;
        let mut descs: Vec<(bool, u32)> = rl.iter().map(|&l| (false, l)).chain(wl.iter().map(|&l| (true, l))).collect();
        if r.chance(1, 12) && descs.len() > 1 {
            // a driver that does not put the readable descriptors first
            let i = r.below(descs.len() as u64) as usize;
            let j = r.below(descs.len() as u64) as usize;
            descs.swap(i, j);
        }
        for (w, l) in descs {
            let reg = if r.chance(1, 3) { 1 } else { 0 };
            let gap = match r.below(6) {
                0 => 0,
                1 => {
                    // end exactly at / just across the next page border
                    let end = cur[reg] + l as usize;
                    let to = (page - end % page) % page;
                    to + r.below(2) as usize
                }
                _ => r.below(24) as usize,
            };
            let off = cur[reg] + gap;
            if off + l as usize > size[reg] {
                ok = false;
                break;
            }
            chain.push((w, base[reg] + off as u64, l));
            cur[reg] = off + l as usize;
        }
        if !ok {
            continue;
        }
        if r.chance(1, 25) && !chain.is_empty() {
            // a bad descriptor: outside every region, or running over the end of one
            let i = r.below(chain.len() as u64) as usize;
            if r.chance(1, 2) {
                chain[i].1 = 0x80_0000;
            } else {
                chain[i].1 = b2 + s2 as u64 - 3;
                chain[i].2 = 8;
            }
        }
        return Hdr { fusedev: false, page, lay, chain, req: 0, cap: 0, am: false };
    }
}

fn gen_adapter(r: &mut Prng) -> String {
    let n = r.range(1, 12);
    let ops: Vec<String> = (0..n)
        .map(|_| {
            let len = *r.pick(&[0usize, 1, 8, 16, 33, 64]);
            let cnt = match r.below(5) { 0 => 0, 1 => len, 2 => len + 1, _ => r.below(len as u64 + 3) as usize };
            let addr = match r.below(5) { 0 => 0, 1 => len, 2 => len.saturating_sub(1), _ => r.below(len as u64 + 2) as usize };
            let wd = *r.pick(&[1usize, 2, 4, 8]);
            match r.below(6) {
                0 => format!("ar:{}:{}:{}", len, cnt, addr),
                1 => format!("aw:{}:{}:{}:{}", len, cnt, addr, r.below(100)),
                2 => format!("as:{}:{}:{}", len, cnt, addr),
                3 => format!("ax:{}:{}:{}:{}", len, cnt, addr, r.below(100)),
                4 => format!("al:{}:{}:{}", len, wd, addr),
                _ => format!("at:{}:{}:{}:{}", len, wd, addr, r.below(100)),
            }
        })
        .collect();
    format!("t=adapter ops={}", ops.join(";"))
}

// ------------------------------------------------------------------ adapter: file-transfer methods
//
// `FileVolatileSlice`'s `Bytes<usize>` implementation hands the four volatile file-transfer
// methods to vm-memory's `VolatileSlice`.  "Behaves as a plain view" for them = same result, same
// bytes moved, same calls on the file as the `VolatileSlice` over the same memory (reference =
// vm-memory itself; no model involved).  Sources/sinks move at most `chunk` bytes per call.

struct ChunkIo {
    chunk: usize,
    data: Vec<u8>,
    pos: usize,
    got: Vec<u8>,
    calls: usize,
    fail_at: usize,
}

impl vm_memory::ReadVolatile for ChunkIo {
    fn read_volatile<B: BitmapSlice>(&mut self, buf: &mut vm_memory::VolatileSlice<B>) -> Result<usize, vm_memory::VolatileMemoryError> {
        self.calls += 1;
        if self.calls == self.fail_at {
            return Err(vm_memory::VolatileMemoryError::IOError(io::Error::from_raw_os_error(libc::EIO)));
        }
        let n = self.chunk.min(buf.len()).min(self.data.len() - self.pos);
        buf.copy_from(&self.data[self.pos..self.pos + n]);
        self.pos += n;
        Ok(n)
    }
}

impl vm_memory::WriteVolatile for ChunkIo {
    fn write_volatile<B: BitmapSlice>(&mut self, buf: &vm_memory::VolatileSlice<B>) -> Result<usize, vm_memory::VolatileMemoryError> {
        self.calls += 1;
        if self.calls == self.fail_at {
            return Err(vm_memory::VolatileMemoryError::IOError(io::Error::from_raw_os_error(libc::EIO)));
        }
        let n = self.chunk.min(buf.len());
        let mut tmp = vec![0u8; n];
        buf.copy_to(&mut tmp[..]);
        self.got.extend_from_slice(&tmp);
        Ok(n)
    }
}

fn adapter_delegation_probe(r: &mut Prng, out: &mut Out) {
    let len = *r.pick(&[0usize, 1, 8, 16, 33, 64]);
    let count = match r.below(5) { 0 => 0, 1 => len, 2 => len + 1, _ => r.below(len as u64 + 3) as usize };
    let addr = match r.below(5) { 0 => 0, 1 => len, 2 => len.saturating_sub(1), _ => r.below(len as u64 + 2) as usize };
    let chunk = *r.pick(&[1usize, 3, 7, 64, 1000]);
    let fail_at = if r.chance(1, 5) { r.range(1, 4) as usize } else { 0 };
    let method = *r.pick(&["read_volatile_from", "read_exact_volatile_from", "write_volatile_to", "write_all_volatile_to"]);
    let avail = if r.chance(1, 4) { r.below(count as u64 + 1) as usize } else { count + 8 };
    adapter_delegation_probe_with(method, len, addr, count, chunk, fail_at, avail, out);
}

#[allow(clippy::too_many_arguments)]
fn adapter_delegation_probe_with(method: &str, len: usize, addr: usize, count: usize, chunk: usize, fail_at: usize, avail: usize, out: &mut Out) {
    let line = format!("t=adapter-probe m={} len={} addr={} count={} chunk={} fail_at={} avail={}", method, len, addr, count, chunk, fail_at, avail);
    let run = |adapter: bool| -> (String, Vec<u8>, Vec<u8>, usize) {
        let mut mem: Vec<u8> = (0..len).map(wfill).collect();
        let mut io_ = ChunkIo { chunk, data: pat_bytes(77, 0, avail), pos: 0, got: vec![], calls: 0, fail_at };
        let show = |e: vm_memory::VolatileMemoryError| format!("err:{}", verr(&e));
        let res = if adapter {
            let sl = unsafe { FileVolatileSlice::from_raw_ptr(mem.as_mut_ptr(), len) };
            match method {
                "read_volatile_from" => sl.read_volatile_from(addr, &mut io_, count).map(|n| format!("ok:{}", n)).unwrap_or_else(show),
                "read_exact_volatile_from" => sl.read_exact_volatile_from(addr, &mut io_, count).map(|_| "ok".to_string()).unwrap_or_else(show),
                "write_volatile_to" => sl.write_volatile_to(addr, &mut io_, count).map(|n| format!("ok:{}", n)).unwrap_or_else(show),
                _ => sl.write_all_volatile_to(addr, &mut io_, count).map(|_| "ok".to_string()).unwrap_or_else(show),
            }
        } else {
            let sl = unsafe { vm_memory::VolatileSlice::new(mem.as_mut_ptr(), len) };
            match method {
                "read_volatile_from" => sl.read_volatile_from(addr, &mut io_, count).map(|n| format!("ok:{}", n)).unwrap_or_else(show),
                "read_exact_volatile_from" => sl.read_exact_volatile_from(addr, &mut io_, count).map(|_| "ok".to_string()).unwrap_or_else(show),
                "write_volatile_to" => sl.write_volatile_to(addr, &mut io_, count).map(|n| format!("ok:{}", n)).unwrap_or_else(show),
                _ => sl.write_all_volatile_to(addr, &mut io_, count).map(|_| "ok".to_string()).unwrap_or_else(show),
            }
        };
        (res, mem, io_.got, io_.calls)
    };
    let a = catch_unwind(AssertUnwindSafe(|| run(true)));
    let b = catch_unwind(AssertUnwindSafe(|| run(false)));
    out.stat(&format!("adapter-probe:{}", method));
    let same = match (&a, &b) {
        (Ok(x), Ok(y)) => x == y,
        (Err(_), Err(_)) => true,
        _ => false,
    };
    if !same {
        let d = |x: &std::thread::Result<(String, Vec<u8>, Vec<u8>, usize)>| match x {
            Ok((r, _, g, c)) => format!("{} ({} bytes to the file, {} calls)", r, g.len(), c),
            Err(_) => "panic".to_string(),
        };
        let v = serde_json::json!({"prop": "C04", "key": format!("C04:adapter:delegation:{}", method), "case": line,
            "what": format!("FileVolatileSlice: {} | VolatileSlice over the same bytes: {}", d(&a), d(&b))});
        writeln!(out.oracle, "{}", v).unwrap();
        out.n_oracle += 1;
    }
}

fn write_hits(out: &mut Out, line: &str, hits: &[(String, String, String)]) {
    for (p, k, w) in hits {
        let v = serde_json::json!({"prop": p, "key": k, "case": line, "what": w});
        writeln!(out.oracle, "{}", v).unwrap();
        out.n_oracle += 1;
    }
}

fn parse_kv(line: &str) -> std::collections::BTreeMap<String, String> {
    line.split_whitespace().filter_map(|t| t.split_once('=').map(|(k, v)| (k.to_string(), v.to_string()))).collect()
}

fn replay_line(line: &str, sock: (RawFd, RawFd), out: &mut Out) {
    let kv = parse_kv(line);
    if kv.get("t").map(|s| s.as_str()) == Some("adapter-probe") {
        let n = |k: &str| kv.get(k).and_then(|v| v.parse::<usize>().ok()).unwrap_or(0);
        let m = kv.get("m").cloned().unwrap_or_default();
        adapter_delegation_probe_with(&m, n("len"), n("addr"), n("count"), n("chunk"), n("fail_at"), n("avail"), out);
        return;
    }
    if kv.get("t").map(|s| s.as_str()) == Some("adapter") {
        let mut hits = vec![];
        let o: Vec<String> = kv.get("ops").cloned().unwrap_or_default().split(';').filter(|s| !s.is_empty()).map(|s| adapter_op(s, &mut hits)).collect();
        write_hits(out, line, &hits);
        out.case(line, &format!("ops={}", o.join(";")));
        return;
    }
    let h = Hdr::parse(&kv);
    let opsv: Vec<OpS> = kv.get("ops").cloned().unwrap_or_default().split(';').filter(|s| !s.is_empty()).filter_map(OpS::parse).collect();
    let mut it = opsv.into_iter();
    let mut next = |_: &Info| it.next();
    let res = if h.fusedev { run_fusedev(&h, sock, &mut next) } else { run_virtio(&h, sock, &mut next) };
    write_hits(out, line, &res.hits);
    out.case(line, &res.impl_line);
}

fn main() {
    let a = args();
    let mut out = Out::new(a.get("out").map(|s| s.as_str()).unwrap_or("/verif/.work/xport/out"));
    if std::env::var("XPORT_TRACE").is_err() { std::panic::set_hook(Box::new(|_| {})); }
    let sock = socketpair();
    if let Some(f) = a.get("cases") {
        for line in std::fs::read_to_string(f).unwrap().lines() {
            fbrh::util::crumb(line);
            if !line.trim().is_empty() {
                replay_line(line, sock, &mut out);
            }
        }
        out.finish();
        return;
    }
    let seed: u64 = a.get("seed").and_then(|s| s.parse().ok()).unwrap_or(1);
    let n: u64 = a.get("n").and_then(|s| s.parse().ok()).unwrap_or(2000);
    let prop = a.get("prop").cloned().unwrap_or_else(|| "C04".into());
    let asyncm = a.get("mode").map(|m| m == "async").unwrap_or(false);
    let mut r = Prng::new(seed ^ 0x7a9047 ^ if asyncm { 0xa5 } else { 0 });
    for i in 0..n {
        if prop == "C04" && i % 10 == 9 && !asyncm {
            let line = gen_adapter(&mut r);
            out.stat("t:adapter");
            for o in line.split("ops=").nth(1).unwrap_or("").split(';') {
                out.stat(&format!("op:{}", &o[..2]));
            }
            replay_line(&line, sock, &mut out);
            for _ in 0..4 {
                adapter_delegation_probe(&mut r, &mut out);
            }
            continue;
        }
        let mut h = gen_hdr(&mut r, &prop);
        h.am = asyncm;
        let nops = r.range(1, 40) as usize;
        let mut cnt = 0;
        let long_chain = h.chain.len() > 1024;
        let res = catch_unwind(AssertUnwindSafe(|| {
            let rr = &mut r;
            let mut next = |info: &Info| {
                if cnt >= nops {
                    return None;
                }
                cnt += 1;
                if long_chain && cnt == 1 && !info.writers.is_empty() {
                    // one write across (nearly) the whole chain
                    let a = info.writers[0];
                    return Some(OpS { k: "wr".into(), h: 0, n: a - rr.below(3).min(a as u64) as usize, seed: rr.below(200), ..Default::default() });
                }
                gen_op(rr, info, &prop)
            };
            if h.fusedev { run_fusedev(&h, sock, &mut next) } else { run_virtio(&h, sock, &mut next) }
        }));
        let res = match res {
            Ok(r) => r,
            Err(_) => {
                // a panic outside the per-operation guards: counters or constructors of the
                // implementation (or the harness's own bookkeeping) broke down
                let line = format!("{} ops=", h.show());
                write_hits(&mut out, &line, &[(prop.clone(), format!("{}:panic:outside-operation", prop), format!("case {} of seed {} panicked outside an operation call", i, seed))]);
                let _ = drain(sock.1);
                continue;
            }
        };
        let line = format!("{} ops={}", h.show(), res.ops.iter().map(|o| o.show()).collect::<Vec<_>>().join(";"));
        out.stat(if h.fusedev { "t:fusedev" } else { "t:virtio" });
        if !h.fusedev {
            out.stat(&format!("page:{}", h.page));
            out.stat(&format!("descs:{}", h.chain.len()));
            if h.chain.iter().any(|c| c.2 == 0) {
                out.stat("chain:has-zero-len");
            }
        }
        for o in &res.ops {
            out.stat(&format!("op:{}", o.k));
        }
        for t in &res.tags {
            out.stat(&format!("res:{}", t));
            out.class(&format!("{}|{}|{}", if h.fusedev { "f" } else { "v" }, h.page, t));
        }
        write_hits(&mut out, &line, &res.hits);
        out.case(&line, &res.impl_line);
    }
    for (k, v) in ASYNC_CALLS.lock().unwrap().iter() {
        out.stat_n(k, *v);
    }
    out.finish();
}
