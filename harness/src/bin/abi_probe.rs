//! `abi` engine (C13): the compiler's truth about struct layouts, constants, `Opcode::from`,
//! and the real conversion functions on generated values.
use fbrh::prng::Prng;
use fbrh::util::{args, Out};
use fuse_backend_rs::abi::fuse_abi::{Attr, EntryOut, Kstatfs, Opcode, SetattrIn};
use fuse_backend_rs::api::filesystem::Entry;
use std::time::Duration;

#[path = "../gen_layout.rs"]
mod gen_layout;

fn kv(line: &str) -> std::collections::BTreeMap<String, String> {
    line.split(' ')
        .filter(|t| !t.is_empty())
        .map(|t| {
            let mut it = t.splitn(2, '=');
            (it.next().unwrap().to_string(), it.next().unwrap_or("").to_string())
        })
        .collect()
}

fn n(m: &std::collections::BTreeMap<String, String>, k: &str) -> u64 {
    m.get(k).and_then(|v| v.parse::<u64>().ok()).unwrap_or(0)
}

fn show_attr(a: &Attr) -> String {
    format!("ino={} size={} blocks={} atime={} mtime={} ctime={} atimensec={} mtimensec={} ctimensec={} mode={} nlink={} uid={} gid={} rdev={} blksize={} flags={}",
        a.ino, a.size, a.blocks, a.atime, a.mtime, a.ctime, a.atimensec, a.mtimensec, a.ctimensec,
        a.mode, a.nlink, a.uid, a.gid, a.rdev, a.blksize, a.flags)
}

fn show_stat(s: &libc::stat64) -> String {
    format!("ino={} size={} blocks={} atime={} mtime={} ctime={} atime_nsec={} mtime_nsec={} ctime_nsec={} mode={} nlink={} uid={} gid={} rdev={} blksize={}",
        s.st_ino, s.st_size as u64, s.st_blocks as u64, s.st_atime as u64, s.st_mtime as u64, s.st_ctime as u64,
        s.st_atime_nsec as u64, s.st_mtime_nsec as u64, s.st_ctime_nsec as u64,
        s.st_mode, s.st_nlink, s.st_uid, s.st_gid, s.st_rdev, s.st_blksize as u64)
}

fn read_stat(m: &std::collections::BTreeMap<String, String>) -> libc::stat64 {
    let mut st: libc::stat64 = unsafe { std::mem::zeroed() };
    st.st_ino = n(m, "ino");
    st.st_size = n(m, "size") as i64;
    st.st_blocks = n(m, "blocks") as i64;
    st.st_atime = n(m, "atime") as i64;
    st.st_mtime = n(m, "mtime") as i64;
    st.st_ctime = n(m, "ctime") as i64;
    st.st_atime_nsec = n(m, "atime_nsec") as i64;
    st.st_mtime_nsec = n(m, "mtime_nsec") as i64;
    st.st_ctime_nsec = n(m, "ctime_nsec") as i64;
    st.st_mode = n(m, "mode") as u32;
    st.st_nlink = n(m, "nlink");
    st.st_uid = n(m, "uid") as u32;
    st.st_gid = n(m, "gid") as u32;
    st.st_rdev = n(m, "rdev");
    st.st_blksize = n(m, "blksize") as i64;
    st
}

fn exec(line: &str) -> String {
    let m = kv(line);
    match m.get("op").map(|s| s.as_str()) {
        Some("layout") => gen_layout::layout(m.get("struct").map(|s| s.as_str()).unwrap_or(""))
            .unwrap_or_else(|| "unknown-struct".into()),
        Some("const") => match gen_layout::const_value(m.get("name").map(|s| s.as_str()).unwrap_or("")) {
            Some(v) => format!("value={}", v),
            None => "unknown-const".into(),
        },
        Some("opcode_from") => format!("value={}", Opcode::from(n(&m, "n") as u32) as u32),
        Some("attr_with_flags") => show_attr(&Attr::with_flags(read_stat(&m), n(&m, "flags") as u32)),
        Some("stat_of_attr") => {
            let a = Attr {
                ino: n(&m, "ino"), size: n(&m, "size"), blocks: n(&m, "blocks"), atime: n(&m, "atime"),
                mtime: n(&m, "mtime"), ctime: n(&m, "ctime"), atimensec: n(&m, "atimensec") as u32,
                mtimensec: n(&m, "mtimensec") as u32, ctimensec: n(&m, "ctimensec") as u32,
                mode: n(&m, "mode") as u32, nlink: n(&m, "nlink") as u32, uid: n(&m, "uid") as u32,
                gid: n(&m, "gid") as u32, rdev: n(&m, "rdev") as u32, blksize: n(&m, "blksize") as u32,
                flags: n(&m, "flags") as u32,
            };
            show_stat(&libc::stat64::from(a))
        }
        Some("stat_of_setattr") => {
            let s = SetattrIn {
                valid: n(&m, "valid") as u32, padding: 0, fh: n(&m, "fh"), size: n(&m, "size"),
                lock_owner: n(&m, "lock_owner"), atime: n(&m, "atime"), mtime: n(&m, "mtime"),
                ctime: n(&m, "ctime"), atimensec: n(&m, "atimensec") as u32,
                mtimensec: n(&m, "mtimensec") as u32, ctimensec: n(&m, "ctimensec") as u32,
                mode: n(&m, "mode") as u32, unused4: 0, uid: n(&m, "uid") as u32, gid: n(&m, "gid") as u32,
                unused5: 0,
            };
            show_stat(&libc::stat64::from(s))
        }
        Some("kstatfs") => {
            let mut st: libc::statvfs64 = unsafe { std::mem::zeroed() };
            st.f_blocks = n(&m, "blocks");
            st.f_bfree = n(&m, "bfree");
            st.f_bavail = n(&m, "bavail");
            st.f_files = n(&m, "files");
            st.f_ffree = n(&m, "ffree");
            st.f_bsize = n(&m, "bsize");
            st.f_namemax = n(&m, "namemax");
            st.f_frsize = n(&m, "frsize");
            let k = Kstatfs::from(st);
            format!("blocks={} bfree={} bavail={} files={} ffree={} bsize={} namelen={} frsize={}",
                k.blocks, k.bfree, k.bavail, k.files, k.ffree, k.bsize, k.namelen, k.frsize)
        }
        Some("entry_out") => {
            let e = Entry {
                inode: n(&m, "inode"), generation: n(&m, "generation"), attr: read_stat(&m),
                attr_flags: n(&m, "attr_flags") as u32,
                attr_timeout: Duration::new(n(&m, "attr_secs"), n(&m, "attr_nanos") as u32),
                entry_timeout: Duration::new(n(&m, "entry_secs"), n(&m, "entry_nanos") as u32),
            };
            let o = EntryOut::from(e);
            format!("nodeid={} generation={} entry_valid={} attr_valid={} entry_valid_nsec={} attr_valid_nsec={} {}",
                o.nodeid, o.generation, o.entry_valid, o.attr_valid, o.entry_valid_nsec, o.attr_valid_nsec, show_attr(&o.attr))
        }
        _ => "bad-op".into(),
    }
}

fn gen_stat(r: &mut Prng) -> String {
    format!("ino={} size={} blocks={} atime={} mtime={} ctime={} atime_nsec={} mtime_nsec={} ctime_nsec={} mode={} nlink={} uid={} gid={} rdev={} blksize={}",
        r.field(64), r.field(64), r.field(64), r.field(64), r.field(64), r.field(64),
        r.wide(1, 4, 64, 30), r.wide(1, 4, 64, 30),
        r.wide(1, 4, 64, 30), r.field(32), r.wide(1, 4, 64, 32),
        r.field(32), r.field(32), r.wide(1, 4, 64, 32), r.wide(1, 4, 64, 32))
}

fn main() {
    let a = args();
    let mut out = Out::new(a.get("out").map(|s| s.as_str()).unwrap_or("/verif/.work/abi"));
    if let Some(f) = a.get("cases") {
        for line in std::fs::read_to_string(f).unwrap().lines() {
            fbrh::util::crumb(line);
            let o = exec(line);
            out.case(line, &o);
        }
        out.finish();
        return;
    }
    let seed: u64 = a.get("seed").and_then(|s| s.parse().ok()).unwrap_or(1);
    let n_cases: u64 = a.get("n").and_then(|s| s.parse().ok()).unwrap_or(2000);
    let mut r = Prng::new(seed);
    let mut lines: Vec<String> = Vec::new();
    for s in gen_layout::struct_names() {
        lines.push(format!("op=layout struct={}", s));
        out.stat("layout");
    }
    for c in gen_layout::const_names() {
        lines.push(format!("op=const name={}", c));
        out.stat("const");
    }
    // opcode numbers: every small number, the reserved markers, powers of two, random
    for k in 0..=300u64 {
        lines.push(format!("op=opcode_from n={}", k));
    }
    for k in [4096u64, 1_048_576, 436_207_616, u32::MAX as u64, (1 << 31), (1 << 20) + 1] {
        lines.push(format!("op=opcode_from n={}", k));
    }
    for b in 0..32 {
        lines.push(format!("op=opcode_from n={}", 1u64 << b));
        lines.push(format!("op=opcode_from n={}", (1u64 << b) | r.below(51)));
    }
    for _ in 0..n_cases {
        let line = match r.below(6) {
            0 => format!("op=opcode_from n={}", r.field(32)),
            1 => format!("op=attr_with_flags {} flags={}", gen_stat(&mut r), r.field(32)),
            2 => format!("op=stat_of_attr ino={} size={} blocks={} atime={} mtime={} ctime={} atimensec={} mtimensec={} ctimensec={} mode={} nlink={} uid={} gid={} rdev={} blksize={} flags={}",
                r.field(64), r.field(64), r.field(64), r.field(64), r.field(64), r.field(64), r.field(32), r.field(32), r.field(32),
                r.field(32), r.field(32), r.field(32), r.field(32), r.field(32), r.field(32), r.field(32)),
            3 => format!("op=stat_of_setattr valid={} fh={} size={} lock_owner={} atime={} mtime={} ctime={} atimensec={} mtimensec={} ctimensec={} mode={} uid={} gid={}",
                r.field(32), r.field(64), r.field(64), r.field(64), r.field(64), r.field(64), r.field(64), r.field(32), r.field(32), r.field(32),
                r.field(32), r.field(32), r.field(32)),
            4 => format!("op=kstatfs blocks={} bfree={} bavail={} files={} ffree={} bsize={} namemax={} frsize={}",
                r.field(64), r.field(64), r.field(64), r.field(64), r.field(64), r.wide(1, 3, 64, 32),
                r.wide(1, 3, 64, 32), r.wide(1, 3, 64, 32)),
            _ => format!("op=entry_out inode={} generation={} attr_flags={} attr_secs={} attr_nanos={} entry_secs={} entry_nanos={} {}",
                r.field(64), r.field(64), r.field(32), r.field(60), r.below(1_000_000_000), r.field(60), r.below(1_000_000_000), gen_stat(&mut r)),
        };
        lines.push(line);
    }
    for line in lines {
        let op = line.split(' ').next().unwrap().to_string();
        out.stat(&op);
        fbrh::util::crumb(&line);
        let o = exec(&line);
        // non-trivial + distinct: the output line itself (distinct layouts / values / conversions)
        out.class(&o);
        out.case(&line, &o);
    }
    out.finish();
}
