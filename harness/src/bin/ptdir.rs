//! `ptdir` engine (C16): directory listing of the real `PassthroughFs` (stand-alone and mounted
//! in a `Vfs`) and of pseudo directories of a `Vfs`, driven with chunked / resumed READDIR and
//! READDIRPLUS histories, either through the `FileSystem` API with the harness's own accounting
//! callback (mode=api) or through `Server` + a /dev/fuse style writer (mode=srv).
//!
//! A case is one directory + one request history on one line; the actual host listing (raw
//! getdents64 on a separate fd) is part of the case line, so the Lean model predicts exactly.
use std::collections::{BTreeMap, HashMap, HashSet};
use std::ffi::CString;
use std::io;
use std::os::unix::io::RawFd;
use std::panic::{catch_unwind, AssertUnwindSafe};
use std::time::Duration;
use std::sync::{Arc, Mutex};

use fbrh::prng::Prng;
use fbrh::srvgen;
use fbrh::util::{args, hex, unhex, Out};
use fuse_backend_rs::api::filesystem::{Context, DirEntry, Entry, FileSystem, FsOptions};
use fuse_backend_rs::api::server::Server;
use fuse_backend_rs::api::{Vfs, VfsOptions};
use fuse_backend_rs::passthrough::{Config, PassthroughFs};
use fuse_backend_rs::transport::{FuseBuf, FuseDevWriter, Reader, Writer};

// ------------------------------------------------------------------ host side

#[derive(Clone, Debug)]
struct HEnt {
    name: Vec<u8>,
    id: u64, // dense id of d_ino by first occurrence
    off: u64,
    ty: u8,
    reclen: u16,
}

fn raw_listing(path: &str) -> Vec<HEnt> {
    let c = CString::new(path).unwrap();
    let fd = unsafe { libc::open(c.as_ptr(), libc::O_RDONLY | libc::O_DIRECTORY | libc::O_CLOEXEC) };
    assert!(fd >= 0, "open {}", path);
    let mut out = Vec::new();
    let mut ids: HashMap<u64, u64> = HashMap::new();
    let mut buf = vec![0u8; 1 << 20];
    loop {
        let n = unsafe { libc::syscall(libc::SYS_getdents64, fd, buf.as_mut_ptr(), buf.len()) };
        assert!(n >= 0);
        if n == 0 {
            break;
        }
        let mut p = 0usize;
        while p < n as usize {
            let ino = u64::from_le_bytes(buf[p..p + 8].try_into().unwrap());
            let off = u64::from_le_bytes(buf[p + 8..p + 16].try_into().unwrap());
            let reclen = u16::from_le_bytes(buf[p + 16..p + 18].try_into().unwrap());
            let ty = buf[p + 18];
            let area = &buf[p + 19..p + reclen as usize];
            let l = area.iter().position(|&b| b == 0).unwrap_or(area.len());
            let next = ids.len() as u64 + 1;
            let id = *ids.entry(ino).or_insert(next);
            out.push(HEnt { name: area[..l].to_vec(), id, off, ty, reclen });
            p += reclen as usize;
        }
    }
    unsafe { libc::close(fd) };
    out
}

/// offsets (not cookies of the directory) for which lseek on a directory fd fails, with errno
fn seek_probes(path: &str, cookies: &HashSet<u64>) -> Vec<(u64, i32)> {
    let c = CString::new(path).unwrap();
    let fd = unsafe { libc::open(c.as_ptr(), libc::O_RDONLY | libc::O_DIRECTORY | libc::O_CLOEXEC) };
    let mut v = Vec::new();
    for off in [1u64 << 62, (1u64 << 62) + 12345, (1u64 << 45) + 7, i64::MAX as u64 - 1] {
        if cookies.contains(&off) {
            continue;
        }
        let r = unsafe { libc::lseek64(fd, off as i64, libc::SEEK_SET) };
        if r < 0 {
            v.push((off, io::Error::last_os_error().raw_os_error().unwrap_or(0)));
        }
    }
    unsafe { libc::close(fd) };
    v
}

/// does this host show the ext4 "first getdents at EOF, then rewind -> empty" defect?
fn probe_eof_quirk(tmp: &str) -> bool {
    let p = format!("{}/quirk", tmp);
    std::fs::create_dir_all(&p).unwrap();
    for n in ["a", "b", "c"] {
        std::fs::write(format!("{}/{}", p, n), b"").unwrap();
    }
    let c = CString::new(p).unwrap();
    let fd = unsafe { libc::open(c.as_ptr(), libc::O_RDONLY | libc::O_DIRECTORY | libc::O_CLOEXEC) };
    let mut buf = vec![0u8; 4096];
    let q = unsafe {
        libc::lseek64(fd, i64::MAX, libc::SEEK_SET);
        let a = libc::syscall(libc::SYS_getdents64, fd, buf.as_mut_ptr(), buf.len());
        libc::lseek64(fd, 0, libc::SEEK_SET);
        let b = libc::syscall(libc::SYS_getdents64, fd, buf.as_mut_ptr(), buf.len());
        libc::close(fd);
        a == 0 && b == 0
    };
    q
}

struct Tmp(String);
impl Drop for Tmp {
    fn drop(&mut self) {
        let _ = std::fs::remove_dir_all(&self.0);
    }
}

const CHARS: &[u8] = b"abcdefghijklmnopqrstuvwxyzABCDEFGHIJKLMNOPQRSTUVWXYZ0123456789_-+=,.~@#%^ \xc3\xa9\x80\xff";
const ASCII: &[u8] = b"abcdefghijklmnopqrstuvwxyz0123456789_-";

fn mk_name(len: usize, i: usize, used: &mut HashSet<Vec<u8>>, r: &mut Prng, ascii: bool) -> Vec<u8> {
    let set = if ascii { ASCII } else { CHARS };
    for attempt in 0..1000 {
        let mut n: Vec<u8> = Vec::with_capacity(len);
        // a unique-ish prefix from the index, then random filler
        let tag = format!("{}", i);
        for k in 0..len {
            if len > tag.len() + 1 && k < tag.len() && attempt == 0 {
                n.push(tag.as_bytes()[k]);
            } else {
                n.push(*r.pick(set));
            }
        }
        if n == b"." || n == b".." {
            continue;
        }
        if !used.contains(&n) {
            used.insert(n.clone());
            return n;
        }
    }
    // fall back to a longer unique name
    let n = format!("u{}", i).into_bytes();
    used.insert(n.clone());
    n
}

/// create a directory with `n` entries of assorted types and name lengths
fn mk_dir(path: &str, n: usize, style: u32, r: &mut Prng) {
    std::fs::create_dir_all(path).unwrap();
    let mut used: HashSet<Vec<u8>> = HashSet::new();
    let mut prev_reg: Option<Vec<u8>> = None;
    let special: Vec<Vec<u8>> = vec![b"...".to_vec(), b".a".to_vec(), b"..b".to_vec(), b". ".to_vec()];
    for i in 0..n {
        let len = match style {
            0 => i + 1,                                      // 1..n
            1 => (i % 255) + 1,                              // cycles through 1..=255
            2 => 1 + r.below(12) as usize,                   // short
            _ => if i % 50 == 49 { 200 + r.below(56) as usize } else { 1 + r.below(60) as usize },
        };
        let name = if style <= 1 && n >= 17 && i >= n - special.len() && !used.contains(&special[n - 1 - i]) {
            let s = special[n - 1 - i].clone();
            used.insert(s.clone());
            s
        } else if style == 0 && n >= 17 && i == 7 {
            mk_name(255, i, &mut used, r, false)
        } else {
            mk_name(len.min(255), i, &mut used, r, false)
        };
        let full = {
            let mut p = path.as_bytes().to_vec();
            p.push(b'/');
            p.extend_from_slice(&name);
            CString::new(p).unwrap()
        };
        let kind = if n == 1 { 0 } else { i % 11 };
        unsafe {
            match kind {
                3 => assert_eq!(libc::mkdir(full.as_ptr(), 0o755), 0),
                5 => {
                    let t = CString::new("target").unwrap();
                    assert_eq!(libc::symlink(t.as_ptr(), full.as_ptr()), 0)
                }
                7 => assert_eq!(libc::mknod(full.as_ptr(), libc::S_IFIFO | 0o644, 0), 0),
                9 if prev_reg.is_some() => {
                    let mut p = path.as_bytes().to_vec();
                    p.push(b'/');
                    p.extend_from_slice(prev_reg.as_ref().unwrap());
                    let o = CString::new(p).unwrap();
                    assert_eq!(libc::link(o.as_ptr(), full.as_ptr()), 0)
                }
                _ => {
                    let fd = libc::open(full.as_ptr(), libc::O_CREAT | libc::O_WRONLY | libc::O_CLOEXEC, 0o644);
                    assert!(fd >= 0, "create {:?}", full);
                    libc::close(fd);
                    prev_reg = Some(name.clone());
                }
            }
        }
    }
}

// ------------------------------------------------------------------ the file systems

fn pt_new(root: &str, nod: bool, standalone: bool) -> PassthroughFs<()> {
    let cfg = Config { root_dir: root.to_string(), do_import: standalone, no_opendir: nod, ..Default::default() };
    let fs = PassthroughFs::<()>::new(cfg).unwrap();
    fs.import().unwrap();
    fs
}

fn capable(nod: bool) -> FsOptions {
    let mut c = FsOptions::DO_READDIRPLUS | FsOptions::READDIRPLUS_AUTO | FsOptions::ASYNC_READ;
    if nod {
        c |= FsOptions::ZERO_MESSAGE_OPENDIR;
    }
    c
}

fn socketpair() -> (RawFd, RawFd) {
    let mut fds = [0i32; 2];
    let rc = unsafe { libc::socketpair(libc::AF_UNIX, libc::SOCK_SEQPACKET | libc::SOCK_NONBLOCK, 0, fds.as_mut_ptr()) };
    assert_eq!(rc, 0);
    let sz: libc::c_int = 8 << 20;
    unsafe {
        libc::setsockopt(fds[0], libc::SOL_SOCKET, libc::SO_SNDBUFFORCE, &sz as *const _ as *const libc::c_void, 4);
        libc::setsockopt(fds[1], libc::SOL_SOCKET, libc::SO_RCVBUFFORCE, &sz as *const _ as *const libc::c_void, 4);
    }
    (fds[0], fds[1])
}

fn drain(fd: RawFd) -> Vec<Vec<u8>> {
    let mut out = Vec::new();
    let mut buf = vec![0u8; 3 << 20];
    loop {
        let n = unsafe { libc::recv(fd, buf.as_mut_ptr() as *mut libc::c_void, buf.len(), libc::MSG_DONTWAIT) };
        if n < 0 {
            break;
        }
        out.push(buf[..n as usize].to_vec());
        if n == 0 && out.len() > 64 {
            break;
        }
    }
    out
}

#[derive(Clone, Debug)]
struct Deliv {
    name: Vec<u8>,
    ty: u32,
    off: u64,
    ino: u64,
    nodeid: u64, // plus only (0 otherwise)
}

enum Rd {
    Ok(Vec<Deliv>, usize), // delivered, bytes accounted / reply payload length
    Err(i32),
    Panic,
}

fn fuse_len(namelen: usize, plus: bool) -> usize {
    ((24 + namelen + 7) & !7) + if plus { 128 } else { 0 }
}

/// READDIR(PLUS) through the FileSystem API with the harness's own add_entry callback, which
/// does the server's accounting (`size` bytes, 8-byte padded records, +128 for plus)
fn api_read<F: FileSystem>(fs: &F, ino: u64, handle: u64, plus: bool, size: u32, off: u64, err_at: Option<u64>) -> Rd
where
    F::Inode: From<u64>,
    F::Handle: From<u64>,
{
    api_read_gated(fs, ino, handle, plus, size, off, err_at, None)
}

type GateEnds = (std::sync::mpsc::SyncSender<()>, std::sync::mpsc::Receiver<()>);

#[allow(clippy::too_many_arguments)]
fn api_read_gated<F: FileSystem>(fs: &F, ino: u64, handle: u64, plus: bool, size: u32, off: u64, err_at: Option<u64>, gate: Option<GateEnds>) -> Rd
where
    F::Inode: From<u64>,
    F::Handle: From<u64>,
{
    let mut gate = gate;
    let mut park = move || {
        if let Some((entered, go)) = gate.take() {
            let _ = entered.send(());
            let _ = go.recv_timeout(Duration::from_secs(10));
        }
    };
    let ctx = Context::default();
    let mut written = 0usize;
    let mut offered = 0u64;
    let mut out: Vec<Deliv> = Vec::new();
    let res = catch_unwind(AssertUnwindSafe(|| {
        if plus {
            fs.readdirplus(&ctx, ino.into(), handle.into(), size, off, &mut |d: DirEntry, e: Entry| {
                park();
                let k = offered;
                offered += 1;
                if err_at == Some(k) {
                    return Err(io::Error::from_raw_os_error(libc::EIO));
                }
                let total = fuse_len(d.name.len(), true);
                if (size as usize).saturating_sub(written) < total {
                    return Ok(0);
                }
                written += total;
                out.push(Deliv { name: d.name.to_vec(), ty: d.type_, off: d.offset, ino: d.ino, nodeid: e.inode });
                Ok(total)
            })
        } else {
            fs.readdir(&ctx, ino.into(), handle.into(), size, off, &mut |d: DirEntry| {
                park();
                let k = offered;
                offered += 1;
                if err_at == Some(k) {
                    return Err(io::Error::from_raw_os_error(libc::EIO));
                }
                let total = fuse_len(d.name.len(), false);
                if (size as usize).saturating_sub(written) < total {
                    return Ok(0);
                }
                written += total;
                out.push(Deliv { name: d.name.to_vec(), ty: d.type_, off: d.offset, ino: d.ino, nodeid: 0 });
                Ok(total)
            })
        }
    }));
    match res {
        Err(_) => Rd::Panic,
        Ok(Err(e)) => Rd::Err(e.raw_os_error().unwrap_or(-1)),
        Ok(Ok(())) => Rd::Ok(out, written),
    }
}

fn le32(b: &[u8], o: usize) -> u32 {
    u32::from_le_bytes(b[o..o + 4].try_into().unwrap())
}
fn le64(b: &[u8], o: usize) -> u64 {
    u64::from_le_bytes(b[o..o + 8].try_into().unwrap())
}

/// READDIR(PLUS) as a FUSE request through `Server::handle_message` and a fusedev writer
fn srv_read<F: FileSystem + Sync>(srv: &Server<F>, sock: (RawFd, RawFd), ino: u64, handle: u64, plus: bool, size: u32, off: u64, slack: usize) -> Rd
where
    F::Inode: From<u64> + Into<u64>,
    F::Handle: From<u64> + Into<u64>,
{
    let mut b = srvgen::B::new();
    b.u64(handle);
    b.u64(off);
    b.u32(size as u64);
    b.u32(0);
    b.u64(0);
    b.u32(0);
    b.u32(0);
    let mut req = srvgen::header(80, if plus { 44 } else { 28 }, 77, ino, 0, 0, 1, 0);
    req.extend_from_slice(&b.v);
    let cap = size as usize + 16 + slack;
    let mut scratch = vec![0u8; cap];
    let res = catch_unwind(AssertUnwindSafe(|| {
        let r: Reader<'_, ()> = Reader::from_fuse_buffer(FuseBuf::new(&mut req)).unwrap();
        let w = FuseDevWriter::<()>::new(sock.0, &mut scratch).unwrap();
        srv.handle_message(r, Writer::FuseDev(w), None, None)
    }));
    let recs = drain(sock.1);
    match res {
        Err(_) => Rd::Panic,
        Ok(Err(_)) => Rd::Err(-2),
        Ok(Ok(_)) => {
            let rp = match recs.first() {
                Some(r) if r.len() >= 16 => r.clone(),
                _ => return Rd::Err(-3),
            };
            let e = le32(&rp, 4) as i32;
            if e != 0 {
                return Rd::Err(-e);
            }
            let mut out = Vec::new();
            let mut p = 16usize;
            while p < rp.len() {
                let mut nodeid = 0;
                if plus {
                    if p + 128 > rp.len() {
                        return Rd::Err(-4);
                    }
                    nodeid = le64(&rp, p);
                    p += 128;
                }
                if p + 24 > rp.len() {
                    return Rd::Err(-4);
                }
                let dino = le64(&rp, p);
                let doff = le64(&rp, p + 8);
                let nl = le32(&rp, p + 16) as usize;
                let ty = le32(&rp, p + 20);
                if p + 24 + nl > rp.len() {
                    return Rd::Err(-4);
                }
                out.push(Deliv { name: rp[p + 24..p + 24 + nl].to_vec(), ty, off: doff, ino: dino, nodeid });
                p += (24 + nl + 7) & !7;
            }
            Rd::Ok(out, rp.len() - 16)
        }
    }
}

// ------------------------------------------------------------------ case execution

struct DirInfo {
    quirk: bool,
    by_name: HashMap<Vec<u8>, usize>,
    path: String,
    listing: Vec<HEnt>,
    sk: Vec<(u64, i32)>,
    dir_field: String, // the `dir=` token value
}

fn dir_field(l: &[HEnt]) -> String {
    let v: Vec<String> = l.iter().map(|e| format!("{}:{}:{}:{}:{}", hex(&e.name), e.id, e.off, e.ty, e.reclen)).collect();
    v.join(",")
}

fn is_dot(n: &[u8]) -> bool {
    n == b"." || n == b".."
}

struct Walker {
    handle_k: usize, // index (1-based) into opened, 0 = none
    plus: bool,
    off: u64,
    done: bool,
    failed: bool,
    got: Vec<Deliv>,
    steps: usize,
    ended_empty: bool,
    overrun: bool,
    exact: bool, // every step asks for exactly the next entry
}

struct Case<'a> {
    fsk: &'a str,
    nod: bool,
    srv_mode: bool,
    dir: &'a DirInfo,
    ops: Vec<String>,
    outs: Vec<String>,
    ids: HashMap<(bool, u64), u64>,
    opened: Vec<u64>,         // handle values of successful opendirs
    open_now: Vec<usize>,     // 1-based indices still open
    pool: Vec<u64>,           // offsets returned so far
    refs: BTreeMap<u64, u64>, // nodeid -> deliveries (plus)
    /// per opened handle (1-based k): (a read was issued, the first read was at the EOF cookie and
    /// nothing but EOF/0 reads followed) — see `Host.eofQuirk` in the model
    hq: HashMap<usize, (bool, bool)>,
    wstats: Vec<String>,
    oracle: Vec<(String, String)>,
}

/// inode numbers are renamed by first occurrence; a stand-alone passthrough reports host inode
/// numbers in READDIRPLUS and its own inode numbers in READDIR: two numbering spaces (`space`)
fn show_entries(ids: &mut HashMap<(bool, u64), u64>, space: bool, es: &[Deliv]) -> String {
    let mut strs = Vec::with_capacity(es.len());
    for d in es {
        let next = ids.len() as u64 + 1;
        let id = *ids.entry((space, d.ino)).or_insert(next);
        strs.push(format!("{}/{}/{}/{}", hex(&d.name), d.ty, d.off, id));
    }
    let joined = strs.join(",");
    if es.len() > 8 {
        let mut h: u64 = 0xcbf29ce484222325;
        for b in joined.as_bytes() {
            h = (h ^ (*b as u64)).wrapping_mul(0x100000001b3);
        }
        format!("#{}/{:x}/{}", es.len(), h, es.last().unwrap().off)
    } else {
        joined
    }
}

trait Backend {
    fn opendir(&self, ino: u64) -> Result<u64, i32>;
    fn releasedir(&self, ino: u64, h: u64) -> Result<(), i32>;
    fn read(&self, srv_mode: bool, ino: u64, h: u64, plus: bool, size: u32, off: u64, err_at: Option<u64>, slack: usize) -> Rd;
    /// two requests on ONE handle from two threads: `a` is parked in its first entry callback (the
    /// directory lock is released by then) while `b` runs completely; None = not supported here
    fn read_pair(&self, _ino: u64, _h: u64, _a: &RdOp, _b: &RdOp) -> Option<(Rd, Rd)> {
        None
    }
    fn alive(&self, ino: u64) -> bool;
    fn forget(&self, ino: u64, n: u64);
}

struct B<F: FileSystem + Send + Sync> {
    fs: Arc<F>,
    srv: Server<Arc<F>>,
    sock: (RawFd, RawFd),
}

impl<F: FileSystem + Send + Sync> Backend for B<F>
where
    F::Inode: From<u64> + Into<u64>,
    F::Handle: From<u64> + Into<u64>,
{
    fn opendir(&self, ino: u64) -> Result<u64, i32> {
        match self.fs.opendir(&Context::default(), ino.into(), libc::O_RDONLY as u32) {
            Ok((h, _)) => Ok(h.map(|x| x.into()).unwrap_or(0)),
            Err(e) => Err(e.raw_os_error().unwrap_or(-1)),
        }
    }
    fn releasedir(&self, ino: u64, h: u64) -> Result<(), i32> {
        self.fs.releasedir(&Context::default(), ino.into(), 0, h.into()).map_err(|e| e.raw_os_error().unwrap_or(-1))
    }
    fn read(&self, srv_mode: bool, ino: u64, h: u64, plus: bool, size: u32, off: u64, err_at: Option<u64>, slack: usize) -> Rd {
        if srv_mode {
            srv_read(&self.srv, self.sock, ino, h, plus, size, off, slack)
        } else {
            api_read(&*self.fs, ino, h, plus, size, off, err_at)
        }
    }
    fn read_pair(&self, ino: u64, h: u64, a: &RdOp, b: &RdOp) -> Option<(Rd, Rd)> {
        use std::sync::mpsc::sync_channel;
        let (etx, erx) = sync_channel::<()>(1);
        let (gtx, grx) = sync_channel::<()>(1);
        let fs = &*self.fs;
        let mut out = None;
        std::thread::scope(|sc| {
            let ta = sc.spawn(move || api_read_gated(fs, ino, h, a.plus, a.size, a.off, a.err_at, Some((etx, grx))));
            let t0 = std::time::Instant::now();
            while t0.elapsed() < Duration::from_secs(60) {
                if erx.try_recv().is_ok() || ta.is_finished() {
                    break;
                }
                std::thread::sleep(Duration::from_micros(200));
            }
            let rb = api_read(fs, ino, h, b.plus, b.size, b.off, b.err_at);
            let _ = gtx.send(());
            let ra = ta.join().unwrap_or(Rd::Panic);
            out = Some((ra, rb));
        });
        out
    }
    fn alive(&self, ino: u64) -> bool {
        self.fs.getattr(&Context::default(), ino.into(), None).is_ok()
    }
    fn forget(&self, ino: u64, n: u64) {
        self.fs.forget(&Context::default(), ino.into(), n)
    }
}

/// parse "rd:k:size:off[:eN][:w<j>]"
struct RdOp {
    plus: bool,
    k: usize,
    size: u32,
    off: u64,
    err_at: Option<u64>,
    walker: Option<usize>,
}

fn parse_rd(op: &str) -> Option<RdOp> {
    let p: Vec<&str> = op.split(':').collect();
    if p.len() < 4 || (p[0] != "rd" && p[0] != "rp") {
        return None;
    }
    let mut err_at = None;
    let mut walker = None;
    for x in &p[4..] {
        if let Some(n) = x.strip_prefix('e') {
            err_at = n.parse().ok();
        } else if let Some(n) = x.strip_prefix('w') {
            walker = n.parse().ok();
        }
    }
    Some(RdOp { plus: p[0] == "rp", k: p[1].parse().ok()?, size: p[2].parse().ok()?, off: p[3].parse().ok()?, err_at, walker })
}

impl<'a> Case<'a> {
    fn handle_of(&self, k: usize) -> u64 {
        if k == 0 { 0 } else { self.opened.get(k - 1).copied().unwrap_or(0) }
    }

    /// execute one op on the implementation, record output + per-reply oracles
    fn exec(&mut self, be: &dyn Backend, dir_ino: u64, op: &str, walkers: &mut Vec<Walker>) {
        self.ops.push(op.to_string());
        if op == "o" {
            match be.opendir(dir_ino) {
                Ok(h) => {
                    self.opened.push(h);
                    self.open_now.push(self.opened.len());
                    self.outs.push("ok".into());
                }
                Err(e) => self.outs.push(format!("e{}", e)),
            }
            return;
        }
        if let Some(k) = op.strip_prefix("c:") {
            let k: usize = k.parse().unwrap_or(0);
            match be.releasedir(dir_ino, self.handle_of(k)) {
                Ok(()) => {
                    self.open_now.retain(|&x| x != k);
                    self.outs.push("ok".into());
                }
                Err(e) => self.outs.push(format!("e{}", e)),
            }
            return;
        }
        if let Some(rest) = op.strip_prefix("pp~") {
            // two requests on one handle from two threads (see Backend::read_pair); the model runs
            // them one after the other
            let parts: Vec<&str> = rest.split('~').collect();
            let (Some(a), Some(b)) = (parts.first().and_then(|x| parse_rd(x)), parts.get(1).and_then(|x| parse_rd(x))) else {
                self.outs.push("bad-op".into());
                self.outs.push("bad-op".into());
                return;
            };
            self.note_request(&a);
            self.note_request(&b);
            let h = self.handle_of(a.k);
            let pair = if !self.srv_mode && a.k == b.k { be.read_pair(dir_ino, h, &a, &b) } else { None };
            let (ra, rb) = match pair {
                Some(x) => x,
                None => {
                    let ra = be.read(self.srv_mode, dir_ino, h, a.plus, a.size, a.off, a.err_at, 0);
                    let rb = be.read(self.srv_mode, dir_ino, self.handle_of(b.k), b.plus, b.size, b.off, b.err_at, 0);
                    (ra, rb)
                }
            };
            self.post(be, &a, ra, walkers);
            self.post(be, &b, rb, walkers);
            return;
        }
        let Some(rd) = parse_rd(op) else {
            self.outs.push("bad-op".into());
            return;
        };
        let h = self.handle_of(rd.k);
        self.note_request(&rd);
        let slack = ((rd.size as u64).wrapping_mul(7).wrapping_add(rd.off) % 64) as usize;
        let res = be.read(self.srv_mode, dir_ino, h, rd.plus, rd.size, rd.off, rd.err_at, slack);
        self.post(be, &rd, res, walkers);
    }

    /// bookkeeping of the host's first-rewind quirk per handle
    fn note_request(&mut self, rd: &RdOp) {
        if rd.size > 0 && !self.nod && self.open_now.contains(&rd.k) {
            let e = self.hq.entry(rd.k).or_insert((false, false));
            if !e.0 {
                *e = (true, rd.off == i64::MAX as u64);
            } else if rd.off != i64::MAX as u64 {
                e.1 = false;
            }
        }
    }

    /// record one reply and run the per-reply oracles
    fn post(&mut self, be: &dyn Backend, rd: &RdOp, res: Rd, walkers: &mut Vec<Walker>) {
        match res {
            Rd::Panic => {
                self.outs.push("panic".into());
                if let Some(w) = rd.walker {
                    walkers[w].failed = true;
                    walkers[w].done = true;
                }
            }
            Rd::Err(e) => {
                self.outs.push(format!("e{}", e));
                if let Some(w) = rd.walker {
                    walkers[w].failed = true;
                    walkers[w].done = true;
                    self.oracle.push(("C16:walk-error".into(), format!("sequential walk step (offset {}, size {}) failed with errno {}", rd.off, rd.size, e)));
                }
            }
            Rd::Ok(es, bytes) => {
                // ---- per-reply oracles
                if bytes > rd.size as usize {
                    self.oracle.push(("C16:exceeds-size".into(), format!("reply of {} bytes for size {}", bytes, rd.size)));
                }
                let acc: usize = es.iter().map(|d| fuse_len(d.name.len(), rd.plus)).sum();
                if acc > rd.size as usize {
                    self.oracle.push(("C16:exceeds-size".into(), format!("{} bytes of records for size {}", acc, rd.size)));
                }
                for d in &es {
                    if is_dot(&d.name) {
                        self.oracle.push(("C16:dot-entry".into(), format!("entry {:?} delivered", String::from_utf8_lossy(&d.name))));
                    }
                    if d.off == 0 {
                        self.oracle.push(("C16:zero-offset".into(), format!("entry {} has offset 0", hex(&d.name))));
                    }
                    if d.name.contains(&0) {
                        self.oracle.push(("C16:nul-in-name".into(), format!("entry {} contains NUL", hex(&d.name))));
                    }
                    match self.dir.by_name.get(&d.name).map(|i| &self.dir.listing[*i]) {
                        None => self.oracle.push(("C16:unknown-entry".into(), format!("entry {} is not in the directory", hex(&d.name)))),
                        Some(e) => {
                            if d.ty != e.ty as u32 && d.ty != 0 {
                                self.oracle.push(("C16:wrong-type".into(), format!("entry {} type {} but host says {}", hex(&d.name), d.ty, e.ty)));
                            }
                        }
                    }
                    self.pool.push(d.off);
                    if rd.plus && self.fsk != "pseudo" {
                        *self.refs.entry(d.nodeid).or_default() += 1;
                        if !be.alive(d.nodeid) {
                            self.oracle.push(("C16:plus-ref-mismatch".into(), format!("delivered entry {} (nodeid {}) holds no lookup reference", hex(&d.name), d.nodeid)));
                        }
                    }
                }
                let s = show_entries(&mut self.ids, rd.plus && self.fsk == "pt", &es);
                self.outs.push(format!("ok:{}", s));
                if let Some(w) = rd.walker {
                    let wk = &mut walkers[w];
                    wk.steps += 1;
                    if es.is_empty() {
                        wk.done = true;
                        wk.ended_empty = true;
                    } else {
                        wk.off = es.last().unwrap().off;
                        wk.got.extend(es.iter().cloned());
                    }
                }
            }
        }
    }

    /// oracles over complete sequential walks
    fn check_walkers(&mut self, walkers: &[Walker]) {
        let real: Vec<&HEnt> = self.dir.listing.iter().filter(|e| !is_dot(&e.name)).collect();
        for (i, w) in walkers.iter().enumerate() {
            if w.failed {
                continue;
            }
            let mut seen: HashMap<&[u8], usize> = HashMap::new();
            for d in &w.got {
                *seen.entry(&d.name[..]).or_default() += 1;
            }
            for (n, c) in &seen {
                if *c > 1 {
                    self.oracle.push(("C16:duplicate".into(), format!("walker {}: entry {} delivered {} times", i, hex(n), c)));
                    break;
                }
            }
            if w.done && w.ended_empty {
                for e in &real {
                    if !seen.contains_key(&e.name[..]) {
                        self.oracle.push(("C16:missing".into(), format!("walker {}: entry {} never delivered although the walk ended with an empty reply", i, hex(&e.name))));
                        break;
                    }
                }
            } else if w.overrun || (!w.done && w.steps > real.len() + 1) {
                self.oracle.push(("C16:no-empty-end".into(), format!("walker {}: no empty reply after {} steps ({} entries delivered, directory has {})", i, w.steps, w.got.len(), real.len())));
            }
        }
    }
}

fn next_need(dir: &DirInfo, off: u64, plus: bool) -> usize {
    // fuse size of the next real entry after `off` in host order
    let start = if off == 0 { 0 } else { dir.listing.iter().position(|e| e.off == off).map(|p| p + 1).unwrap_or(dir.listing.len()) };
    for e in &dir.listing[start..] {
        if !is_dot(&e.name) {
            return fuse_len(e.name.len(), plus);
        }
    }
    fuse_len(1, plus)
}

fn gen_and_run(c: &mut Case, be: &dyn Backend, dir_ino: u64, r: &mut Prng, budget: usize) -> Vec<Walker> {
    let n = c.dir.listing.len();
    let big = n > 1000;
    let pseudo = c.fsk == "pseudo";
    let nw = 1 + r.below(3) as usize;
    let mut walkers: Vec<Walker> = Vec::new();
    if !c.nod && !pseudo {
        let opens = 1 + r.below(3);
        for _ in 0..opens {
            c.exec(be, dir_ino, "o", &mut walkers);
        }
    } else if !pseudo && r.chance(1, 4) {
        c.exec(be, dir_ino, "o", &mut walkers); // ENOSYS in no_opendir mode
    }
    for _ in 0..nw {
        let hk = if c.open_now.is_empty() || pseudo { 0 } else { *r.pick(&c.open_now) };
        walkers.push(Walker { handle_k: hk, plus: r.chance(1, 2), off: 0, done: false, failed: false, got: vec![], steps: 0, ended_empty: false, overrun: false, exact: !big && r.chance(1, 4) });
    }
    let mut total_steps = 0usize;
    while walkers.iter().any(|w| !w.done) && total_steps < budget {
        total_steps += 1;
        let x = r.below(100);
        if x < 62 || big {
            // walker step (big directories: walkers only, plus rare noise below)
            let act: Vec<usize> = (0..walkers.len()).filter(|&i| !walkers[i].done).collect();
            let wi = *r.pick(&act);
            if walkers[wi].steps > n + 3 {
                walkers[wi].done = true;
                walkers[wi].overrun = true;
                continue;
            }
            // the walker may move to another open handle
            if !pseudo && !c.nod {
                if !c.open_now.contains(&walkers[wi].handle_k) || r.chance(1, 10) {
                    if c.open_now.is_empty() {
                        c.exec(be, dir_ino, "o", &mut walkers);
                    }
                    walkers[wi].handle_k = *r.pick(&c.open_now);
                }
            }
            if r.chance(1, 12) {
                walkers[wi].plus = !walkers[wi].plus;
            }
            let plus = walkers[wi].plus;
            if walkers[wi].off == 0 && c.dir.quirk && c.hq.get(&walkers[wi].handle_k).map(|x| x.1).unwrap_or(false) {
                // host defect (Host.eofQuirk): the first rewind of this descriptor lists nothing;
                // let a throw-away request absorb it so that the walk is judged on the code only
                let op = format!("rd:{}:4096:0", walkers[wi].handle_k);
                c.exec(be, dir_ino, &op, &mut walkers);
            }
            let need = next_need(c.dir, walkers[wi].off, plus);
            let size = if big {
                match r.below(20) { 0 => need, 1 => need + r.below(700) as usize, 2..=8 => 4096, 9..=12 => 8192, 13..=16 => 65536, _ => 300 + r.below(5000) as usize }
            } else {
                match r.below(10) { 0..=2 => need, 3 => need + r.below(8) as usize, 4 => need + r.below(64) as usize, 5..=7 => need + r.below(900) as usize, 8 => 4096, _ => *r.pick(&[65536usize, 1 << 20, 131072]) }
            };
            let size = if walkers[wi].exact { need } else { size.max(need) };
            let op = format!("{}:{}:{}:{}:w{}", if plus { "rp" } else { "rd" }, walkers[wi].handle_k, size, walkers[wi].off, wi);
            if !pseudo && !c.srv_mode && !c.nod && !big && walkers[wi].handle_k != 0 && r.chance(1, 8) {
                // a second client thread reads through the same handle while this walker's reply is
                // still being filled in
                let noff = if c.pool.is_empty() || r.chance(1, 3) { 0 } else { *r.pick(&c.pool) };
                let nsize = *r.pick(&[4096usize, 200, 65536]);
                let op = format!("pp~{}~rd:{}:{}:{}", op, walkers[wi].handle_k, nsize, noff);
                c.exec(be, dir_ino, &op, &mut walkers);
            } else {
                c.exec(be, dir_ino, &op, &mut walkers);
            }
            if big && r.chance(1, 30) {
                // a little noise on big directories too
                let off = if c.pool.is_empty() { 0 } else { *r.pick(&c.pool) };
                let hk = if c.open_now.is_empty() { 0 } else { *r.pick(&c.open_now) };
                let op = format!("rd:{}:{}:{}", hk, 4096, off);
                c.exec(be, dir_ino, &op, &mut walkers);
            }
        } else if x < 90 {
            // noise read: any handle, any previously returned offset, any size
            let hk = if c.open_now.is_empty() || r.chance(1, 20) { r.below(3) as usize } else { *r.pick(&c.open_now) };
            let plus = r.chance(1, 2);
            let off = match r.below(12) {
                0 => 0,
                1 if !pseudo => (1u64 << 63) + r.below(1000),
                2 if !pseudo && !c.dir.sk.is_empty() => r.pick(&c.dir.sk).0,
                3 if pseudo => *r.pick(&[u64::MAX, u64::MAX - 1, n as u64, n as u64 + 1, 1u64 << 40]),
                _ => if c.pool.is_empty() { 0 } else { *r.pick(&c.pool) },
            };
            let need = next_need(c.dir, off, plus);
            let size = match r.below(12) { 0 => 0, 1 => 1, 2 => 23, 3 => 24, 4 => 31, 5 => 32, 6 => 47, 7 => need.saturating_sub(1), 8 => need, 9 => need + r.below(300) as usize, 10 => 4096, _ => r.below(2000) as usize };
            let mut op = format!("{}:{}:{}:{}", if plus { "rp" } else { "rd" }, hk, size, off);
            if !c.srv_mode && r.chance(1, 6) {
                op.push_str(&format!(":e{}", r.below(4)));
            }
            c.exec(be, dir_ino, &op, &mut walkers);
        } else if x < 96 {
            if !pseudo {
                c.exec(be, dir_ino, "o", &mut walkers);
            }
        } else if !pseudo {
            let k = if c.opened.is_empty() { 0 } else { 1 + r.below(c.opened.len() as u64) as usize };
            c.exec(be, dir_ino, &format!("c:{}", k), &mut walkers);
        }
    }
    walkers
}

/// replay of a literal case: ops are executed as written; walker tags rebuild the walkers
fn replay_ops(c: &mut Case, be: &dyn Backend, dir_ino: u64, ops: &[String]) -> Vec<Walker> {
    let mut walkers: Vec<Walker> = Vec::new();
    for op in ops {
        let first = op.strip_prefix("pp~").and_then(|r| r.split('~').next()).unwrap_or(op);
        if let Some(rd) = parse_rd(first) {
            if let Some(w) = rd.walker {
                while walkers.len() <= w {
                    walkers.push(Walker { handle_k: rd.k, plus: rd.plus, off: 0, done: false, failed: false, got: vec![], steps: 0, ended_empty: false, overrun: false, exact: false });
                }
            }
        }
        c.exec(be, dir_ino, op, &mut walkers);
    }
    walkers
}

fn finish_case(c: &mut Case, be: &dyn Backend, base: u64, walkers: &[Walker]) -> (String, String) {
    // references alive now (model: host inodes with a reference), then drain and re-probe
    let n = c.dir.listing.len() as u64;
    let mut alive = 0;
    if c.fsk != "pseudo" {
        for i in 2..=(n + 6) {
            if be.alive(base | i) {
                alive += 1;
            }
        }
        let refs: Vec<(u64, u64)> = c.refs.iter().map(|(a, b)| (*a, *b)).collect();
        for (ino, cnt) in refs {
            be.forget(ino, cnt);
        }
        for i in 2..=(n + 6) {
            if be.alive(base | i) {
                c.oracle.push(("C16:plus-ref-mismatch".into(), format!("inode {} still referenced after forgetting every delivered entry", i)));
                break;
            }
        }
    }
    c.check_walkers(walkers);
    for w in walkers {
        c.wstats.push(format!("walk:{}{}", if w.failed { "failed" } else if w.done && w.ended_empty { "complete" } else { "incomplete" }, if w.exact { ":exact" } else { "" }));
    }
    let sk: Vec<String> = c.dir.sk.iter().map(|(o, e)| format!("{}:{}", o, e)).collect();
    let line = format!("fs={} nod={} mode={} dn={} q={} dir={} sk={} ops={}", c.fsk, if c.nod { 1 } else { 0 }, if c.srv_mode { "srv" } else { "api" },
        c.dir.path.rsplit('/').next().unwrap_or(""), if c.dir.quirk { 1 } else { 0 }, c.dir.dir_field, sk.join(","), c.ops.join(";"));
    let out = format!("{} alive={}", c.outs.join(";"), alive);
    (line, out)
}

struct Pseudo {
    info: DirInfo,
    vfs: Arc<Vfs>,
    ino: u64,
}

fn mk_pseudo(k: usize, tmp: &str, r: &mut Prng) -> Pseudo {
    let vfs = Vfs::new(VfsOptions::default());
    vfs.init(FsOptions::all()).unwrap();
    let mut used = HashSet::new();
    let mut names = Vec::new();
    let leaf = format!("{}/pleaf", tmp);
    std::fs::create_dir_all(&leaf).unwrap();
    for i in 0..k {
        let len = if k <= 17 { i * 15 + 1 } else { (i * 7 % 255) + 1 };
        let name = mk_name(len.min(255), i, &mut used, r, true);
        let fs = pt_new(&leaf, false, false);
        vfs.mount(Box::new(fs), &format!("/pd/{}", String::from_utf8(name.clone()).unwrap())).unwrap();
        names.push(name);
    }
    if k == 0 {
        // an empty pseudo directory cannot exist (a pseudo node is created by a mount below it):
        // use one whose only child was created... not possible either -> list a leaf-less root
    }
    let ctx = Context::default();
    let ino: u64 = if k == 0 {
        1
    } else {
        vfs.lookup(&ctx, 1u64.into(), &CString::new("pd").unwrap()).unwrap().inode
    };
    let listing: Vec<HEnt> = names.iter().enumerate().map(|(i, n)| HEnt { name: n.clone(), id: i as u64 + 1, off: i as u64 + 1, ty: 0, reclen: 0 }).collect();
    let info = DirInfo { quirk: false, by_name: listing.iter().enumerate().map(|(i, e)| (e.name.clone(), i)).collect(), path: format!("pseudo{}", k), dir_field: dir_field(&listing), listing, sk: vec![] };
    Pseudo { info, vfs: Arc::new(vfs), ino }
}

fn run_one(out: &mut Out, fsk: &str, nod: bool, srv_mode: bool, dir: &DirInfo, pseudo: Option<&Pseudo>, sock: (RawFd, RawFd),
           gen: Option<(&mut Prng, usize)>, ops: Option<&[String]>) {
    let mut c = Case { fsk, nod, srv_mode, dir, ops: vec![], outs: vec![], ids: HashMap::new(), opened: vec![], open_now: vec![], pool: vec![], refs: BTreeMap::new(), hq: HashMap::new(), wstats: vec![], oracle: vec![] };
    let ctx = Context::default();
    let (line, o) = match fsk {
        "pt" => {
            let fs = Arc::new(pt_new(&dir.path, nod, true));
            fs.init(capable(nod)).unwrap();
            let be = B { fs: fs.clone(), srv: Server::new(fs.clone()), sock };
            let w = match (gen, ops) {
                (Some((r, b)), _) => gen_and_run(&mut c, &be, 1, r, b),
                (_, Some(o)) => replay_ops(&mut c, &be, 1, o),
                _ => vec![],
            };
            finish_case(&mut c, &be, 0, &w)
        }
        "vfs" => {
            let vfs = Vfs::new(VfsOptions { no_opendir: nod, ..Default::default() });
            vfs.init(FsOptions::all()).unwrap();
            let fs = pt_new(&dir.path, nod, false);
            vfs.mount(Box::new(fs), "/m").unwrap();
            let vfs = Arc::new(vfs);
            let ino: u64 = vfs.lookup(&ctx, 1u64.into(), &CString::new("m").unwrap()).unwrap().inode;
            let be = B { fs: vfs.clone(), srv: Server::new(vfs.clone()), sock };
            let w = match (gen, ops) {
                (Some((r, b)), _) => gen_and_run(&mut c, &be, ino, r, b),
                (_, Some(o)) => replay_ops(&mut c, &be, ino, o),
                _ => vec![],
            };
            finish_case(&mut c, &be, ino & !((1u64 << 56) - 1), &w)
        }
        _ => {
            let p = pseudo.unwrap();
            let be = B { fs: p.vfs.clone(), srv: Server::new(p.vfs.clone()), sock };
            let w = match (gen, ops) {
                (Some((r, b)), _) => gen_and_run(&mut c, &be, p.ino, r, b),
                (_, Some(o)) => replay_ops(&mut c, &be, p.ino, o),
                _ => vec![],
            };
            finish_case(&mut c, &be, 0, &w)
        }
    };
    let mut seen = HashSet::new();
    for (key, what) in &c.oracle {
        if seen.insert(key.clone()) {
            let v = serde_json::json!({"prop": "C16", "key": key, "case": line, "what": what});
            use std::io::Write;
            writeln!(out.oracle, "{}", v).unwrap();
            out.n_oracle += 1;
        }
    }
    out.stat(&format!("fs:{}", fsk));
    out.stat(&format!("nod:{}", nod as u8));
    out.stat(&format!("mode:{}", if srv_mode { "srv" } else { "api" }));
    out.stat(&format!("dir:{}", dir.path.rsplit('/').next().unwrap_or("")));
    out.stat_n("ops", c.ops.len() as u64);
    for w in &c.wstats {
        out.stat(w);
    }
    for (op, o) in c.ops.iter().zip(c.outs.iter()) {
        let kind = op.split(':').next().unwrap_or("");
        let res = if o.starts_with("ok:#") { "ok-many" } else if o == "ok:" { "ok-empty" } else if o.starts_with("ok") { "ok" } else { o.as_str() };
        out.stat(&format!("op:{}:{}", kind, res));
        out.class(&format!("{}|{}|{}|{}|{}", fsk, nod, srv_mode, kind, res));
    }
    out.case(&line, &o);
}

/// Model-free probe for "on one handle or several ... in any way of resuming": several threads
/// resume READDIR on ONE handle, each from the offset of some previously returned entry, with no
/// scheduling imposed (the forced `pp~` interleaving parks a request inside its entry callback;
/// this one lets the requests race anywhere).  Every reply must begin with the successor of the
/// offset it resumed from and continue in directory order; an empty reply is only allowed at the
/// end.  Probabilistic: finding nothing proves nothing, finding something is a failing history.
fn race_probe(out: &mut Out, dir: &DirInfo, threads: usize, iters: usize, seed: u64) {
    let fs = Arc::new(pt_new(&dir.path, false, true));
    fs.init(capable(false)).unwrap();
    let ctx = Context::default();
    let h: u64 = match fs.opendir(&ctx, 1, libc::O_RDONLY as u32) {
        Ok((Some(h), _)) => h,
        _ => return,
    };
    let order: Arc<Vec<(Vec<u8>, u64)>> = Arc::new(dir.listing.iter().map(|e| (e.name.clone(), e.off)).collect());
    let needs: Arc<Vec<usize>> = Arc::new((0..=order.len()).map(|i| next_need(dir, if i == 0 { 0 } else { order[i - 1].1 }, false)).collect());
    let bad: Arc<Mutex<Vec<String>>> = Arc::new(Mutex::new(Vec::new()));
    let nbad = Arc::new(std::sync::atomic::AtomicU64::new(0));
    let mut joins = vec![];
    for t in 0..threads {
        let (fs, order, needs, bad, nbad) = (fs.clone(), order.clone(), needs.clone(), bad.clone(), nbad.clone());
        joins.push(std::thread::spawn(move || {
            let mut r = Prng::new(seed ^ (0x9e37 * (t as u64 + 1)));
            for _ in 0..iters {
                let i = r.below(order.len() as u64 + 1) as usize;
                let off = if i == 0 { 0 } else { order[i - 1].1 };
                let size = (needs[i] + *r.pick(&[0usize, 40, 200, 600])) as u32;
                let want: Vec<&(Vec<u8>, u64)> = order[i..].iter().filter(|e| !is_dot(&e.0)).collect();
                let what = match api_read(&*fs, 1, h, false, size, off, None) {
                    Rd::Ok(es, _) => {
                        if es.is_empty() && !want.is_empty() {
                            Some(format!("empty reply although {} entries follow", want.len()))
                        } else {
                            es.iter().zip(want.iter()).position(|(g, w)| g.name != w.0 || g.off != w.1).map(|k| {
                                format!("entry {} of the reply is {:?}@{} but the directory continues with {:?}@{}",
                                        k, String::from_utf8_lossy(&es[k].name), es[k].off, String::from_utf8_lossy(&want[k].0), want[k].1)
                            })
                        }
                    }
                    Rd::Err(e) => Some(format!("errno {}", e)),
                    Rd::Panic => Some("panic".into()),
                };
                if let Some(w) = what {
                    if nbad.fetch_add(1, std::sync::atomic::Ordering::Relaxed) < 3 {
                        bad.lock().unwrap().push(format!("READDIR(handle, size={}, offset={}): {}", size, off, w));
                    }
                }
            }
        }));
    }
    for j in joins {
        let _ = j.join();
    }
    let _ = fs.releasedir(&ctx, 1, 0, h);
    out.stat("probe:same-handle-race");
    let n = nbad.load(std::sync::atomic::Ordering::Relaxed);
    if n > 0 {
        let line = format!("race dn={} threads={} iters={} seed={}", dir.path.rsplit('/').next().unwrap_or(""), threads, iters, seed);
        let v = serde_json::json!({"prop": "C16", "key": "C16:concurrent-same-handle:wrong-successor", "case": line,
            "what": format!("{} of {} racing READDIRs on one handle answered wrongly (probabilistic replay); first: {}", n, threads * iters, bad.lock().unwrap().join(" | "))});
        use std::io::Write;
        writeln!(out.oracle, "{}", v).unwrap();
        out.n_oracle += 1;
    }
}

// ------------------------------------------------------------------ unit cases for the byte helpers

fn enc(name: &[u8], ino: u64, off: u64, ty: u8, reclen: u16) -> Vec<u8> {
    let mut v = Vec::new();
    v.extend_from_slice(&ino.to_le_bytes());
    v.extend_from_slice(&off.to_le_bytes());
    v.extend_from_slice(&reclen.to_le_bytes());
    v.push(ty);
    v.extend_from_slice(name);
    let want = reclen as usize;
    while v.len() < want {
        v.push(0);
    }
    v
}

/// a unit case for the byte-level helpers; for buffers built only from well-formed records the
/// expected answer is computed here, independently, from the record list (`exp=` token)
fn unit_case(r: &mut Prng) -> String {
    let n = r.below(6) as usize;
    let mut buf = Vec::new();
    let mut cookies = Vec::new();
    let mut recs: Vec<(Vec<u8>, u64, Vec<u8>)> = Vec::new(); // (name, off, bytes)
    let mut wellformed = true;
    for i in 0..n {
        let name: Vec<u8> = match r.below(6) { 0 => b".".to_vec(), 1 => b"..".to_vec(), _ => (0..1 + r.below(20)).map(|_| *r.pick(ASCII)).collect() };
        let good = ((19 + name.len() + 1 + 7) & !7) as u16;
        let reclen = match r.below(20) { 0 => 0, 1 => 18, 2 => 19, 3 => good + 8, 4 => 4000, 5 => good - 1, _ => good };
        if reclen != good {
            wellformed = false;
        }
        let off = match r.below(8) { 0 => 0, 1 => u64::MAX, 2 => (1u64 << 63) + i as u64, 3 if !cookies.is_empty() => *r.pick(&cookies), _ => r.below(50) + 1 };
        cookies.push(off);
        let bytes = enc(&name, i as u64 + 1, off, 8, reclen);
        buf.extend_from_slice(&bytes);
        recs.push((name, off, bytes));
    }
    if r.chance(1, 8) && !buf.is_empty() {
        let cut = r.below(buf.len() as u64) as usize;
        buf.truncate(cut);
        wellformed = false;
    }
    match r.below(3) {
        0 => {
            let off = if !cookies.is_empty() && r.chance(3, 4) { *r.pick(&cookies) } else { r.below(60) };
            let exp = if wellformed {
                match recs.iter().position(|x| x.1 == off) {
                    Some(p) => format!(" exp=found:{}", hex(&recs[p + 1..].iter().flat_map(|x| x.2.clone()).collect::<Vec<u8>>())),
                    None => " exp=notfound".to_string(),
                }
            } else {
                String::new()
            };
            format!("u=skip buf={} off={}{}", hex(&buf), off, exp)
        }
        1 => {
            let exp = if wellformed { match recs.last() { Some(x) => format!(" exp=some:{}", x.1), None => " exp=none".into() } } else { String::new() };
            format!("u=last buf={}{}", hex(&buf), exp)
        }
        _ => {
            let exp = if wellformed { format!(" exp={}", if recs.iter().all(|x| x.0 == b"." || x.0 == b"..") { "t" } else { "f" }) } else { String::new() };
            format!("u=dots buf={}{}", hex(&buf), exp)
        }
    }
}

fn unit_exec(line: &str) -> String {
    let kv: HashMap<&str, &str> = line.split(' ').filter_map(|t| t.split_once('=')).collect();
    let buf = unhex(kv.get("buf").copied().unwrap_or(""));
    match kv.get("u").copied().unwrap_or("") {
        "skip" => {
            let off: u64 = kv.get("off").and_then(|s| s.parse().ok()).unwrap_or(0);
            let mut b = buf.clone();
            match catch_unwind(AssertUnwindSafe(|| PassthroughFs::<()>::verif_skip_to_cookie(&mut b, off))) {
                Err(_) => "panic".into(),
                Ok(true) => format!("found:{}", hex(&b)),
                Ok(false) => "notfound".into(),
            }
        }
        "last" => match catch_unwind(AssertUnwindSafe(|| PassthroughFs::<()>::verif_last_cookie_in_buf(&buf))) {
            Err(_) => "panic".into(),
            Ok(None) => "none".into(),
            Ok(Some(c)) => format!("some:{}", c),
        },
        _ => match catch_unwind(AssertUnwindSafe(|| PassthroughFs::<()>::verif_only_dot_entries(&buf))) {
            Err(_) => "panic".into(),
            Ok(true) => "t".into(),
            Ok(false) => "f".into(),
        },
    }
}

/// direct oracle for the byte-level helpers on well-formed buffers
fn unit_oracle(out: &mut Out, line: &str, got: &str) {
    let kv: HashMap<&str, &str> = line.split(' ').filter_map(|t| t.split_once('=')).collect();
    if let Some(exp) = kv.get("exp") {
        if *exp != got {
            let which = match kv.get("u").copied().unwrap_or("") { "skip" => "skip_to_cookie", "last" => "last_cookie_in_buf", _ => "only_dot_entries" };
            let v = serde_json::json!({"prop": "C16", "key": format!("C16:{}", which), "case": line,
                "what": format!("{} on a well-formed getdents64 buffer answered {} instead of {}", which, got, exp)});
            use std::io::Write;
            writeln!(out.oracle, "{}", v).unwrap();
            out.n_oracle += 1;
        }
    }
}

// ------------------------------------------------------------------ main

fn main() {
    let a = args();
    let mut out = Out::new(a.get("out").map(|s| s.as_str()).unwrap_or("/verif/.work/ptdir/out"));
    if std::env::var("FBR_DEBUG").is_err() {
        std::panic::set_hook(Box::new(|_| {}));
    }
    unsafe {
        let lim = libc::rlimit { rlim_cur: 65536, rlim_max: 65536 };
        libc::setrlimit(libc::RLIMIT_NOFILE, &lim);
    }
    let seed: u64 = a.get("seed").and_then(|s| s.parse().ok()).unwrap_or(1);
    let thorough = a.get("tier").map(|s| s == "thorough").unwrap_or(false);
    let n: u64 = a.get("n").and_then(|s| s.parse().ok()).unwrap_or(if thorough { 4000 } else { 260 });
    let nbig: u64 = a.get("nbig").and_then(|s| s.parse().ok()).unwrap_or(if thorough { 60 } else { 5 });
    let nunit: u64 = a.get("nunit").and_then(|s| s.parse().ok()).unwrap_or(if thorough { 20000 } else { 1500 });
    let tmp = Tmp(format!("/verif/.work/ptdir-tmp/{}", std::process::id()));
    std::fs::create_dir_all(&tmp.0).unwrap();
    let sock = socketpair();
    let quirk = probe_eof_quirk(&tmp.0);
    // the directories are created from a fixed seed: they are part of the engine, the request
    // histories depend on --seed
    let mut rd = Prng::new(0xD1D1);
    let specs: &[(&str, usize, u32)] = &[("d0", 0, 0), ("d1", 1, 0), ("d2", 2, 0), ("d17", 17, 0), ("d300", 300, 1), ("d5000a", 5000, 2), ("d5000b", 5000, 3), ("d5000c", 5000, 2)];
    let mut dirs: Vec<DirInfo> = Vec::new();
    for (name, cnt, style) in specs {
        let p = format!("{}/{}", tmp.0, name);
        mk_dir(&p, *cnt, *style, &mut rd);
        let listing = raw_listing(&p);
        let cookies: HashSet<u64> = listing.iter().map(|e| e.off).collect();
        let sk = seek_probes(&p, &cookies);
        dirs.push(DirInfo { quirk, by_name: listing.iter().enumerate().map(|(i, e)| (e.name.clone(), i)).collect(), path: p, dir_field: dir_field(&listing), listing, sk });
    }
    let pseudos: Vec<Pseudo> = [0usize, 1, 2, 17, 200].iter().map(|k| mk_pseudo(*k, &tmp.0, &mut rd)).collect();

    if let Some(f) = a.get("cases") {
        for line in std::fs::read_to_string(f).unwrap().lines() {
            fbrh::util::crumb(line);
            if line.trim().is_empty() {
                continue;
            }
            if line.starts_with("race ") {
                let kv: HashMap<&str, &str> = line.split(' ').filter_map(|t| t.split_once('=')).collect();
                let g = |k: &str, d: u64| kv.get(k).and_then(|s| s.parse().ok()).unwrap_or(d);
                if let Some(d) = dirs.iter().find(|d| d.path.rsplit('/').next() == kv.get("dn").copied()) {
                    race_probe(&mut out, d, g("threads", 4) as usize, g("iters", 20000) as usize, g("seed", 1));
                }
                continue;
            }
            if line.starts_with("u=") {
                let o = unit_exec(line);
                unit_oracle(&mut out, line, &o);
                out.case(line, &o);
                continue;
            }
            let kv: HashMap<&str, &str> = line.split(' ').filter_map(|t| t.split_once('=')).collect();
            let fsk = kv.get("fs").copied().unwrap_or("pt");
            let nod = kv.get("nod").copied() == Some("1");
            let srv_mode = kv.get("mode").copied() == Some("srv");
            let dn = kv.get("dn").copied().unwrap_or("");
            let ops: Vec<String> = kv.get("ops").copied().unwrap_or("").split(';').filter(|s| !s.is_empty()).map(|s| s.to_string()).collect();
            if fsk == "pseudo" {
                if let Some(p) = pseudos.iter().find(|p| p.info.path == dn) {
                    run_one(&mut out, fsk, nod, srv_mode, &p.info, Some(p), sock, None, Some(&ops));
                }
            } else if let Some(d) = dirs.iter().find(|d| d.path.rsplit('/').next() == Some(dn)) {
                run_one(&mut out, fsk, nod, srv_mode, d, None, sock, None, Some(&ops));
            }
        }
        out.finish();
        return;
    }

    let mut r = Prng::new(seed ^ 0xC16);
    for i in 0..n {
        let x = r.below(10);
        let fsk = if x < 5 { "pt" } else if x < 8 { "vfs" } else { "pseudo" };
        let nod = r.chance(1, 3);
        let srv_mode = r.chance(1, 4);
        if fsk == "pseudo" {
            let p = &pseudos[(i as usize) % pseudos.len()];
            run_one(&mut out, fsk, nod, srv_mode, &p.info, Some(p), sock, Some((&mut r, 700)), None);
        } else {
            let d = &dirs[(i as usize) % 5]; // the small ones
            let budget = 6 * d.listing.len() + 300;
            run_one(&mut out, fsk, nod, srv_mode, d, None, sock, Some((&mut r, budget)), None);
        }
    }
    for i in 0..nbig {
        let fsk = if i % 3 == 2 { "vfs" } else { "pt" };
        let nod = i % 4 == 3;
        let srv_mode = i % 5 == 4;
        let d = &dirs[5 + (i as usize) % 3];
        run_one(&mut out, fsk, nod, srv_mode, d, None, sock, Some((&mut r, 12000)), None);
    }
    // racing READDIRs on one handle (model-free, probabilistic)
    let (rt, ri) = if thorough { (8usize, 60000usize) } else { (6, 8000) };
    race_probe(&mut out, &dirs[3], rt, ri, seed);
    race_probe(&mut out, &dirs[4], rt, ri, seed ^ 0x55);
    for _ in 0..nunit {
        let line = unit_case(&mut r);
        let o = unit_exec(&line);
        unit_oracle(&mut out, &line, &o);
        out.stat(&format!("unit:{}", &line[2..6]));
        out.class(&format!("unit|{}|{}", &line[2..6], o.split(':').next().unwrap_or("")));
        out.case(&line, &o);
    }
    out.finish();
}
