//! `AsyncFileSystem` for the scripted double: every async method logs and answers exactly like
//! its synchronous twin (same log text, same answer), so any difference between the two request
//! paths comes from the server, not from the double.
use std::ffi::CStr;
use std::io;
use std::time::Duration;

use async_trait::async_trait;
use fuse_backend_rs::abi::fuse_abi::{CreateIn, OpenOptions, SetattrValid};
use fuse_backend_rs::api::filesystem::{
    AsyncFileSystem, AsyncZeroCopyReader, AsyncZeroCopyWriter, Context, Entry, FileSystem,
};

use crate::scriptfs::{show_opt, show_stat, ScriptFs};
use crate::util::hex;

fn name(c: &CStr) -> String {
    format!("x{}", hex(c.to_bytes()))
}

#[async_trait]
impl AsyncFileSystem for ScriptFs {
    async fn async_lookup(&self, ctx: &Context, parent: u64, n: &CStr) -> io::Result<Entry> {
        self.lookup(ctx, parent, n)
    }

    async fn async_getattr(&self, ctx: &Context, inode: u64, handle: Option<u64>) -> io::Result<(libc::stat64, Duration)> {
        self.getattr(ctx, inode, handle)
    }

    async fn async_setattr(&self, ctx: &Context, inode: u64, attr: libc::stat64, handle: Option<u64>, valid: SetattrValid) -> io::Result<(libc::stat64, Duration)> {
        self.setattr(ctx, inode, attr, handle, valid)
    }

    async fn async_open(&self, ctx: &Context, inode: u64, flags: u32, fuse_flags: u32) -> io::Result<(Option<u64>, OpenOptions)> {
        self.open(ctx, inode, flags, fuse_flags).map(|(h, o, _)| (h, o))
    }

    async fn async_create(&self, ctx: &Context, parent: u64, n: &CStr, args: CreateIn) -> io::Result<(Entry, Option<u64>, OpenOptions)> {
        self.create(ctx, parent, n, args).map(|(e, h, o, _)| (e, h, o))
    }

    async fn async_read(&self, ctx: &Context, inode: u64, handle: u64, w: &mut (dyn AsyncZeroCopyWriter + Send), size: u32, offset: u64, lock_owner: Option<u64>, flags: u32) -> io::Result<usize> {
        self.record("read", ctx, &[inode.to_string(), handle.to_string(), size.to_string(), offset.to_string(), show_opt(lock_owner), flags.to_string()]);
        self.do_read(w)
    }

    async fn async_write(&self, ctx: &Context, inode: u64, handle: u64, r: &mut (dyn AsyncZeroCopyReader + Send), size: u32, offset: u64, lock_owner: Option<u64>, delayed_write: bool, flags: u32, fuse_flags: u32) -> io::Result<usize> {
        let payload = self.do_write_payload(r, size);
        self.record("write", ctx, &[inode.to_string(), handle.to_string(), format!("x{}", hex(&payload)), size.to_string(), offset.to_string(), show_opt(lock_owner), if delayed_write { "t".into() } else { "f".into() }, flags.to_string(), fuse_flags.to_string()]);
        match self.err() {
            Some(e) => Err(e),
            None => {
                if self.ans() == "count" {
                    Ok(crate::scriptfs::kn(&self.kv, "count") as usize)
                } else {
                    Err(io::Error::from_raw_os_error(libc::ENOSYS))
                }
            }
        }
    }

    async fn async_fsync(&self, ctx: &Context, inode: u64, datasync: bool, handle: u64) -> io::Result<()> {
        self.fsync(ctx, inode, datasync, handle)
    }

    async fn async_fallocate(&self, ctx: &Context, inode: u64, handle: u64, mode: u32, offset: u64, length: u64) -> io::Result<()> {
        self.fallocate(ctx, inode, handle, mode, offset, length)
    }

    async fn async_fsyncdir(&self, ctx: &Context, inode: u64, datasync: bool, handle: u64) -> io::Result<()> {
        self.fsyncdir(ctx, inode, datasync, handle)
    }
}

#[allow(dead_code)]
fn _unused(st: &libc::stat64, c: &CStr) -> (String, String) {
    (show_stat(st), name(c))
}

/// minimal executor: the futures of this harness never wait for anything external
pub fn block_on<F: std::future::Future>(f: F) -> F::Output {
    use std::task::{Context as TCtx, Poll, RawWaker, RawWakerVTable, Waker};
    fn noop(_: *const ()) {}
    fn clone(_: *const ()) -> RawWaker {
        RawWaker::new(std::ptr::null(), &VT)
    }
    static VT: RawWakerVTable = RawWakerVTable::new(clone, noop, noop, noop);
    let waker = unsafe { Waker::from_raw(RawWaker::new(std::ptr::null(), &VT)) };
    let mut cx = TCtx::from_waker(&waker);
    let mut f = Box::pin(f);
    for _ in 0..1_000_000 {
        if let Poll::Ready(v) = f.as_mut().poll(&mut cx) {
            return v;
        }
    }
    panic!("future never completed");
}
