//! Scripted, logging `FileSystem` double for the `srv` engine.  Its answers come from the case
//! line (tokens `ans=... remap=...`), every call is logged with all arguments in the canonical
//! form the Lean driver prints (`Fbr.SrvShow.showCall`).
use std::collections::BTreeMap;
use std::ffi::CStr;
use std::io;
use std::sync::Mutex;
use std::time::Duration;

use fuse_backend_rs::abi::fuse_abi::{CreateIn, FsOptions, OpenOptions, SetattrValid};
use fuse_backend_rs::abi::virtio_fs::RemovemappingOne;
use fuse_backend_rs::api::filesystem::{
    Context, DirEntry, Entry, FileLock, FileSystem, GetxattrReply, IoctlData, ListxattrReply,
    ZeroCopyReader, ZeroCopyWriter,
};
use fuse_backend_rs::transport::FsCacheReqHandler;

use crate::util::{hex, unhex};

pub type Kv = BTreeMap<String, String>;

pub fn parse_kv(line: &str) -> Kv {
    line.split(' ')
        .filter(|t| !t.is_empty())
        .map(|t| {
            let mut it = t.splitn(2, '=');
            (it.next().unwrap().to_string(), it.next().unwrap_or("").to_string())
        })
        .collect()
}

pub fn kn(m: &Kv, k: &str) -> u64 {
    m.get(k).and_then(|v| v.parse::<u64>().ok()).unwrap_or(0)
}

pub fn ks<'a>(m: &'a Kv, k: &str) -> &'a str {
    m.get(k).map(|s| s.as_str()).unwrap_or("")
}

fn opt_n(s: &str) -> Option<u64> {
    if s.is_empty() || s == "none" {
        None
    } else {
        s.parse().ok()
    }
}

thread_local! {
    /// every recorded call of the current thread (the `Server` owns the double, so the harness
    /// reads the log through this tap)
    pub static TAP: std::cell::RefCell<Vec<String>> = std::cell::RefCell::new(Vec::new());
    /// when set, calls are not recorded and `init` succeeds with no options (pre-INIT of a case)
    pub static QUIET: std::cell::Cell<bool> = std::cell::Cell::new(false);
    /// with QUIET: `init` refuses (a file system that does not accept a second INIT, like the Vfs)
    pub static REFUSE_INIT: std::cell::Cell<bool> = std::cell::Cell::new(false);
}

pub struct ScriptFs {
    pub kv: Kv,
    pub log: Mutex<Vec<String>>,
    /// owned storage for ioctl reply data (the trait returns a borrow of `self`)
    pub ioctl_data: Vec<u8>,
}

pub fn show_opt(o: Option<u64>) -> String {
    match o {
        None => "none".into(),
        Some(n) => format!("some:{}", n),
    }
}

pub fn show_stat(s: &libc::stat64) -> String {
    format!(
        "st[{},{},{},{},{},{},{},{},{},{},{},{},{},{},{}]",
        s.st_ino, s.st_size as u64, s.st_blocks as u64, s.st_atime as u64, s.st_mtime as u64,
        s.st_ctime as u64, s.st_atime_nsec as u64, s.st_mtime_nsec as u64, s.st_ctime_nsec as u64,
        s.st_mode, s.st_nlink, s.st_uid, s.st_gid, s.st_rdev, s.st_blksize as u64
    )
}

fn b(v: bool) -> &'static str {
    if v {
        "t"
    } else {
        "f"
    }
}

pub fn read_stat(m: &Kv) -> libc::stat64 {
    let mut st: libc::stat64 = unsafe { std::mem::zeroed() };
    st.st_ino = kn(m, "st_ino");
    st.st_size = kn(m, "st_size") as i64;
    st.st_blocks = kn(m, "st_blocks") as i64;
    st.st_atime = kn(m, "st_atime") as i64;
    st.st_mtime = kn(m, "st_mtime") as i64;
    st.st_ctime = kn(m, "st_ctime") as i64;
    st.st_atime_nsec = kn(m, "st_atimensec") as i64;
    st.st_mtime_nsec = kn(m, "st_mtimensec") as i64;
    st.st_ctime_nsec = kn(m, "st_ctimensec") as i64;
    st.st_mode = kn(m, "st_mode") as u32;
    st.st_nlink = kn(m, "st_nlink");
    st.st_uid = kn(m, "st_uid") as u32;
    st.st_gid = kn(m, "st_gid") as u32;
    st.st_rdev = kn(m, "st_rdev");
    st.st_blksize = kn(m, "st_blksize") as i64;
    st
}

pub fn read_entry(m: &Kv) -> Entry {
    Entry {
        inode: kn(m, "e_ino"),
        generation: kn(m, "e_gen"),
        attr: read_stat(m),
        attr_flags: kn(m, "e_flags") as u32,
        attr_timeout: Duration::new(kn(m, "e_asec"), kn(m, "e_ansec") as u32),
        entry_timeout: Duration::new(kn(m, "e_esec"), kn(m, "e_ensec") as u32),
    }
}

fn enosys() -> io::Error {
    io::Error::from_raw_os_error(libc::ENOSYS)
}

pub fn kind_of(name: &str) -> io::ErrorKind {
    use io::ErrorKind::*;
    match name {
        "PermissionDenied" => PermissionDenied,
        "NotFound" => NotFound,
        "Interrupted" => Interrupted,
        "AlreadyExists" => AlreadyExists,
        "WouldBlock" => WouldBlock,
        "InvalidInput" => InvalidInput,
        "InvalidData" => InvalidData,
        "TimedOut" => TimedOut,
        "UnexpectedEof" => UnexpectedEof,
        "WriteZero" => WriteZero,
        _ => Other,
    }
}

impl ScriptFs {
    pub fn new(kv: Kv) -> Self {
        let ioctl_data = match ks(&kv, "io_data") {
            "none" | "" => Vec::new(),
            h => unhex(h),
        };
        ScriptFs { kv, log: Mutex::new(Vec::new()), ioctl_data }
    }

    pub fn record(&self, method: &str, ctx: &Context, args: &[String]) {
        if QUIET.with(|q| q.get()) {
            return;
        }
        let mut s = format!("{}({},{},{}", method, ctx.uid, ctx.gid, ctx.pid as u32);
        for a in args {
            s.push('|');
            s.push_str(a);
        }
        s.push(')');
        TAP.with(|t| t.borrow_mut().push(s.clone()));
        self.log.lock().unwrap().push(s);
    }

    pub fn take_log(&self) -> String {
        self.log.lock().unwrap().join(";")
    }

    /// the scripted error, if the answer is an error
    pub fn err(&self) -> Option<io::Error> {
        match ks(&self.kv, "ans") {
            "err" => Some(io::Error::from_raw_os_error(kn(&self.kv, "errno") as u32 as i32)),
            "errkind" => Some(io::Error::new(kind_of(ks(&self.kv, "kind")), "scripted")),
            _ => None,
        }
    }

    pub fn ans(&self) -> &str {
        ks(&self.kv, "ans")
    }

    fn unit(&self) -> io::Result<()> {
        if let Some(e) = self.err() {
            return Err(e);
        }
        if self.ans() == "unit" {
            Ok(())
        } else {
            Err(enosys())
        }
    }

    fn entry(&self) -> io::Result<Entry> {
        if let Some(e) = self.err() {
            return Err(e);
        }
        if self.ans() == "entry" {
            Ok(read_entry(&self.kv))
        } else {
            Err(enosys())
        }
    }

    fn attr(&self) -> io::Result<(libc::stat64, Duration)> {
        if let Some(e) = self.err() {
            return Err(e);
        }
        if self.ans() == "attr" {
            Ok((read_stat(&self.kv), Duration::new(kn(&self.kv, "t_sec"), kn(&self.kv, "t_nsec") as u32)))
        } else {
            Err(enosys())
        }
    }

    fn count(&self) -> io::Result<u64> {
        if let Some(e) = self.err() {
            return Err(e);
        }
        if self.ans() == "count" {
            Ok(kn(&self.kv, "count"))
        } else {
            Err(enosys())
        }
    }

    pub fn dirents(&self) -> Vec<(Vec<u8>, u64, u64, u32)> {
        let s = ks(&self.kv, "ents");
        if s.is_empty() {
            return Vec::new();
        }
        s.split(',')
            .filter_map(|it| {
                let p: Vec<&str> = it.split(':').collect();
                if p.len() != 4 {
                    return None;
                }
                Some((unhex(p[0]), p[1].parse().ok()?, p[2].parse().ok()?, p[3].parse().ok()?))
            })
            .collect()
    }

    pub fn opened(&self) -> io::Result<(Option<u64>, OpenOptions, Option<u32>)> {
        if let Some(e) = self.err() {
            return Err(e);
        }
        if self.ans() == "opened" {
            Ok((
                opt_n(ks(&self.kv, "fh")),
                OpenOptions::from_bits_truncate(kn(&self.kv, "opts") as u32),
                opt_n(ks(&self.kv, "pt")).map(|x| x as u32),
            ))
        } else {
            Err(enosys())
        }
    }

    pub fn created(&self) -> io::Result<(Entry, Option<u64>, OpenOptions, Option<u32>)> {
        if let Some(e) = self.err() {
            return Err(e);
        }
        if self.ans() == "created" {
            Ok((
                read_entry(&self.kv),
                opt_n(ks(&self.kv, "fh")),
                OpenOptions::from_bits_truncate(kn(&self.kv, "opts") as u32),
                opt_n(ks(&self.kv, "pt")).map(|x| x as u32),
            ))
        } else {
            Err(enosys())
        }
    }

    /// the file double of the zero-copy probe: content `pat(seed, offset)`, scripted short answers
    pub fn zc_file(&self) -> crate::xscript::FullFile {
        let chunks: Vec<crate::xscript::Ans> = ks(&self.kv, "zc").split(',').filter_map(|x| x.parse::<usize>().ok()).map(crate::xscript::Ans::N).collect();
        crate::xscript::FullFile(crate::xscript::Core::new(&chunks, kn(&self.kv, "seed")))
    }

    pub fn do_read(&self, w: &mut dyn io::Write) -> io::Result<usize> {
        if let Some(e) = self.err() {
            return Err(e);
        }
        if self.ans() == "perr" {
            // fault probe: the file system has already stored part of the data when it fails
            let d = unhex(ks(&self.kv, "data"));
            let _ = w.write_all(&d);
            return Err(io::Error::from_raw_os_error(kn(&self.kv, "errno") as i32));
        }
        if self.ans() == "data" {
            let d = unhex(ks(&self.kv, "data"));
            w.write_all(&d)?;
            Ok(d.len())
        } else {
            Err(enosys())
        }
    }

    pub fn do_write_payload(&self, r: &mut dyn io::Read, size: u32) -> Vec<u8> {
        let want = std::cmp::min(size as usize, 4 << 20);
        let mut buf = vec![0u8; want];
        let mut got = 0;
        while got < want {
            match r.read(&mut buf[got..]) {
                Ok(0) => break,
                Ok(n) => got += n,
                Err(_) => break,
            }
        }
        buf.truncate(got);
        buf
    }
}

fn name(c: &CStr) -> String {
    format!("x{}", hex(c.to_bytes()))
}

#[allow(clippy::too_many_arguments)]
impl FileSystem for ScriptFs {
    type Inode = u64;
    type Handle = u64;

    fn init(&self, capable: FsOptions) -> io::Result<FsOptions> {
        if QUIET.with(|q| q.get()) {
            if REFUSE_INIT.with(|q| q.get()) {
                return Err(io::Error::from_raw_os_error(libc::EINVAL));
            }
            return Ok(FsOptions::empty());
        }
        self.record("init", &Context::default(), &[capable.bits().to_string()]);
        if let Some(e) = self.err() {
            return Err(e);
        }
        if self.ans() == "want" {
            Ok(FsOptions::from_bits_truncate(kn(&self.kv, "want")))
        } else {
            Err(enosys())
        }
    }

    fn destroy(&self) {
        self.record("destroy", &Context::default(), &[]);
    }

    fn id_remap_with_nodeid(&self, ctx: &mut Context, nodeid: u64) -> io::Result<()> {
        self.record("id_remap", ctx, &[nodeid.to_string()]);
        let r = ks(&self.kv, "remap").to_string();
        let p: Vec<&str> = r.split(':').collect();
        match p.as_slice() {
            ["err"] => Err(io::Error::from_raw_os_error(1)),
            ["set", u, g] => {
                ctx.uid = u.parse().unwrap_or(0);
                ctx.gid = g.parse().unwrap_or(0);
                Ok(())
            }
            _ => Ok(()),
        }
    }

    fn lookup(&self, ctx: &Context, parent: u64, n: &CStr) -> io::Result<Entry> {
        self.record("lookup", ctx, &[parent.to_string(), name(n)]);
        self.entry()
    }

    fn forget(&self, ctx: &Context, inode: u64, count: u64) {
        self.record("forget", ctx, &[inode.to_string(), count.to_string()]);
    }

    fn batch_forget(&self, ctx: &Context, requests: Vec<(u64, u64)>) {
        let l: Vec<String> = requests.iter().map(|(a, b)| format!("{}:{}", a, b)).collect();
        self.record("batch_forget", ctx, &[format!("p[{}]", l.join(","))]);
    }

    fn getattr(&self, ctx: &Context, inode: u64, handle: Option<u64>) -> io::Result<(libc::stat64, Duration)> {
        self.record("getattr", ctx, &[inode.to_string(), show_opt(handle)]);
        self.attr()
    }

    fn setattr(&self, ctx: &Context, inode: u64, attr: libc::stat64, handle: Option<u64>, valid: SetattrValid) -> io::Result<(libc::stat64, Duration)> {
        self.record("setattr", ctx, &[inode.to_string(), show_stat(&attr), show_opt(handle), valid.bits().to_string()]);
        self.attr()
    }

    fn readlink(&self, ctx: &Context, inode: u64) -> io::Result<Vec<u8>> {
        self.record("readlink", ctx, &[inode.to_string()]);
        if let Some(e) = self.err() {
            return Err(e);
        }
        if self.ans() == "data" {
            Ok(unhex(ks(&self.kv, "data")))
        } else {
            Err(enosys())
        }
    }

    fn symlink(&self, ctx: &Context, linkname: &CStr, parent: u64, n: &CStr) -> io::Result<Entry> {
        self.record("symlink", ctx, &[name(linkname), parent.to_string(), name(n)]);
        self.entry()
    }

    fn mknod(&self, ctx: &Context, inode: u64, n: &CStr, mode: u32, rdev: u32, umask: u32) -> io::Result<Entry> {
        self.record("mknod", ctx, &[inode.to_string(), name(n), mode.to_string(), rdev.to_string(), umask.to_string()]);
        self.entry()
    }

    fn mkdir(&self, ctx: &Context, parent: u64, n: &CStr, mode: u32, umask: u32) -> io::Result<Entry> {
        self.record("mkdir", ctx, &[parent.to_string(), name(n), mode.to_string(), umask.to_string()]);
        self.entry()
    }

    fn unlink(&self, ctx: &Context, parent: u64, n: &CStr) -> io::Result<()> {
        self.record("unlink", ctx, &[parent.to_string(), name(n)]);
        self.unit()
    }

    fn rmdir(&self, ctx: &Context, parent: u64, n: &CStr) -> io::Result<()> {
        self.record("rmdir", ctx, &[parent.to_string(), name(n)]);
        self.unit()
    }

    fn rename(&self, ctx: &Context, olddir: u64, oldname: &CStr, newdir: u64, newname: &CStr, flags: u32) -> io::Result<()> {
        self.record("rename", ctx, &[olddir.to_string(), name(oldname), newdir.to_string(), name(newname), flags.to_string()]);
        self.unit()
    }

    fn link(&self, ctx: &Context, inode: u64, newparent: u64, newname: &CStr) -> io::Result<Entry> {
        self.record("link", ctx, &[inode.to_string(), newparent.to_string(), name(newname)]);
        self.entry()
    }

    fn open(&self, ctx: &Context, inode: u64, flags: u32, fuse_flags: u32) -> io::Result<(Option<u64>, OpenOptions, Option<u32>)> {
        self.record("open", ctx, &[inode.to_string(), flags.to_string(), fuse_flags.to_string()]);
        self.opened()
    }

    fn create(&self, ctx: &Context, parent: u64, n: &CStr, args: CreateIn) -> io::Result<(Entry, Option<u64>, OpenOptions, Option<u32>)> {
        self.record("create", ctx, &[parent.to_string(), name(n), format!("cr[{},{},{},{}]", args.flags, args.mode, args.umask, args.fuse_flags)]);
        self.created()
    }

    fn read(&self, ctx: &Context, inode: u64, handle: u64, w: &mut dyn ZeroCopyWriter, size: u32, offset: u64, lock_owner: Option<u64>, flags: u32) -> io::Result<usize> {
        self.record("read", ctx, &[inode.to_string(), handle.to_string(), size.to_string(), offset.to_string(), show_opt(lock_owner), flags.to_string()]);
        if self.ans() == "zc" {
            // zero-copy probe: the data comes from a file that answers short (scripted chunk
            // sizes), through the trait's own `write_all_from`
            let mut f = self.zc_file();
            w.write_all_from(&mut f, size as usize, offset)?;
            return Ok(size as usize);
        }
        self.do_read(w)
    }

    fn write(&self, ctx: &Context, inode: u64, handle: u64, r: &mut dyn ZeroCopyReader, size: u32, offset: u64, lock_owner: Option<u64>, delayed_write: bool, flags: u32, fuse_flags: u32) -> io::Result<usize> {
        if self.ans() == "zc" {
            // zero-copy probe: the payload goes to a file that takes it in short pieces, through
            // the trait's own `read_exact_to`
            let mut f = self.zc_file();
            let res = r.read_exact_to(&mut f, size as usize, offset);
            let offs: Vec<String> = f.0.offs.iter().map(|o| o.map(|x| x.to_string()).unwrap_or_else(|| "-".into())).collect();
            TAP.with(|t| t.borrow_mut().push(format!("zc-write:{}:{}", hex(&f.0.got), offs.join(","))));
            res?;
            return Ok(size as usize);
        }
        let payload = self.do_write_payload(r, size);
        self.record("write", ctx, &[inode.to_string(), handle.to_string(), format!("x{}", hex(&payload)), size.to_string(), offset.to_string(), show_opt(lock_owner), b(delayed_write).into(), flags.to_string(), fuse_flags.to_string()]);
        self.count().map(|c| c as usize)
    }

    fn flush(&self, ctx: &Context, inode: u64, handle: u64, lock_owner: u64) -> io::Result<()> {
        self.record("flush", ctx, &[inode.to_string(), handle.to_string(), lock_owner.to_string()]);
        self.unit()
    }

    fn fsync(&self, ctx: &Context, inode: u64, datasync: bool, handle: u64) -> io::Result<()> {
        self.record("fsync", ctx, &[inode.to_string(), b(datasync).into(), handle.to_string()]);
        self.unit()
    }

    fn fallocate(&self, ctx: &Context, inode: u64, handle: u64, mode: u32, offset: u64, length: u64) -> io::Result<()> {
        self.record("fallocate", ctx, &[inode.to_string(), handle.to_string(), mode.to_string(), offset.to_string(), length.to_string()]);
        self.unit()
    }

    fn release(&self, ctx: &Context, inode: u64, flags: u32, handle: u64, flush: bool, flock_release: bool, lock_owner: Option<u64>) -> io::Result<()> {
        self.record("release", ctx, &[inode.to_string(), flags.to_string(), handle.to_string(), b(flush).into(), b(flock_release).into(), show_opt(lock_owner)]);
        self.unit()
    }

    fn statfs(&self, ctx: &Context, inode: u64) -> io::Result<libc::statvfs64> {
        self.record("statfs", ctx, &[inode.to_string()]);
        if let Some(e) = self.err() {
            return Err(e);
        }
        if self.ans() != "statfs" {
            return Err(enosys());
        }
        let mut st: libc::statvfs64 = unsafe { std::mem::zeroed() };
        st.f_blocks = kn(&self.kv, "sv_blocks");
        st.f_bfree = kn(&self.kv, "sv_bfree");
        st.f_bavail = kn(&self.kv, "sv_bavail");
        st.f_files = kn(&self.kv, "sv_files");
        st.f_ffree = kn(&self.kv, "sv_ffree");
        st.f_bsize = kn(&self.kv, "sv_bsize");
        st.f_namemax = kn(&self.kv, "sv_namemax");
        st.f_frsize = kn(&self.kv, "sv_frsize");
        Ok(st)
    }

    fn setxattr(&self, ctx: &Context, inode: u64, n: &CStr, value: &[u8], flags: u32) -> io::Result<()> {
        self.record("setxattr", ctx, &[inode.to_string(), name(n), format!("x{}", hex(value)), flags.to_string()]);
        self.unit()
    }

    fn getxattr(&self, ctx: &Context, inode: u64, n: &CStr, size: u32) -> io::Result<GetxattrReply> {
        self.record("getxattr", ctx, &[inode.to_string(), name(n), size.to_string()]);
        if let Some(e) = self.err() {
            return Err(e);
        }
        match self.ans() {
            "data" => Ok(GetxattrReply::Value(unhex(ks(&self.kv, "data")))),
            "count" => Ok(GetxattrReply::Count(kn(&self.kv, "count") as u32)),
            _ => Err(enosys()),
        }
    }

    fn listxattr(&self, ctx: &Context, inode: u64, size: u32) -> io::Result<ListxattrReply> {
        self.record("listxattr", ctx, &[inode.to_string(), size.to_string()]);
        if let Some(e) = self.err() {
            return Err(e);
        }
        match self.ans() {
            "data" => Ok(ListxattrReply::Names(unhex(ks(&self.kv, "data")))),
            "count" => Ok(ListxattrReply::Count(kn(&self.kv, "count") as u32)),
            _ => Err(enosys()),
        }
    }

    fn removexattr(&self, ctx: &Context, inode: u64, n: &CStr) -> io::Result<()> {
        self.record("removexattr", ctx, &[inode.to_string(), name(n)]);
        self.unit()
    }

    fn opendir(&self, ctx: &Context, inode: u64, flags: u32) -> io::Result<(Option<u64>, OpenOptions)> {
        self.record("opendir", ctx, &[inode.to_string(), flags.to_string()]);
        self.opened().map(|(h, o, _)| (h, o))
    }

    fn readdir(&self, ctx: &Context, inode: u64, handle: u64, size: u32, offset: u64, add_entry: &mut dyn FnMut(DirEntry) -> io::Result<usize>) -> io::Result<()> {
        self.record("readdir", ctx, &[inode.to_string(), handle.to_string(), size.to_string(), offset.to_string()]);
        if let Some(e) = self.err() {
            return Err(e);
        }
        if self.ans() == "perr" {
            // fault probe: the file system fails after some entries have been accepted
            for (nm, ino, off, ty) in self.dirents() {
                match add_entry(DirEntry { ino, offset: off, type_: ty, name: &nm }) {
                    Ok(0) | Err(_) => break,
                    Ok(_) => {}
                }
            }
            return Err(io::Error::from_raw_os_error(kn(&self.kv, "errno") as i32));
        }
        if self.ans() != "dirents" {
            return Err(enosys());
        }
        let prop = kn(&self.kv, "prop") == 1;
        for (nm, ino, off, ty) in self.dirents() {
            match add_entry(DirEntry { ino, offset: off, type_: ty, name: &nm }) {
                Ok(0) => break,
                Ok(_) => {}
                Err(e) => {
                    if prop {
                        return Err(e);
                    }
                    break;
                }
            }
        }
        Ok(())
    }

    fn readdirplus(&self, ctx: &Context, inode: u64, handle: u64, size: u32, offset: u64, add_entry: &mut dyn FnMut(DirEntry, Entry) -> io::Result<usize>) -> io::Result<()> {
        self.record("readdirplus", ctx, &[inode.to_string(), handle.to_string(), size.to_string(), offset.to_string()]);
        if let Some(e) = self.err() {
            return Err(e);
        }
        if self.ans() == "perr" {
            for (nm, ino, off, ty) in self.dirents() {
                let mut e = read_entry(&self.kv);
                e.inode = ino;
                e.attr.st_ino = ino;
                match add_entry(DirEntry { ino, offset: off, type_: ty, name: &nm }, e) {
                    Ok(0) | Err(_) => break,
                    Ok(_) => {}
                }
            }
            return Err(io::Error::from_raw_os_error(kn(&self.kv, "errno") as i32));
        }
        if self.ans() != "dirents" {
            return Err(enosys());
        }
        let prop = kn(&self.kv, "prop") == 1;
        for (nm, ino, off, ty) in self.dirents() {
            let mut e = read_entry(&self.kv);
            e.inode = ino;
            e.attr.st_ino = ino;
            match add_entry(DirEntry { ino, offset: off, type_: ty, name: &nm }, e) {
                Ok(0) => break,
                Ok(_) => {}
                Err(e) => {
                    if prop {
                        return Err(e);
                    }
                    break;
                }
            }
        }
        Ok(())
    }

    fn fsyncdir(&self, ctx: &Context, inode: u64, datasync: bool, handle: u64) -> io::Result<()> {
        self.record("fsyncdir", ctx, &[inode.to_string(), b(datasync).into(), handle.to_string()]);
        self.unit()
    }

    fn releasedir(&self, ctx: &Context, inode: u64, flags: u32, handle: u64) -> io::Result<()> {
        self.record("releasedir", ctx, &[inode.to_string(), flags.to_string(), handle.to_string()]);
        self.unit()
    }

    fn setupmapping(&self, ctx: &Context, inode: u64, handle: u64, foffset: u64, len: u64, flags: u64, moffset: u64, _vu_req: &mut dyn FsCacheReqHandler) -> io::Result<()> {
        self.record("setupmapping", ctx, &[inode.to_string(), handle.to_string(), foffset.to_string(), len.to_string(), flags.to_string(), moffset.to_string()]);
        self.unit()
    }

    fn removemapping(&self, ctx: &Context, inode: u64, requests: Vec<RemovemappingOne>, _vu_req: &mut dyn FsCacheReqHandler) -> io::Result<()> {
        let l: Vec<String> = requests.iter().map(|r| format!("{}:{}", r.moffset, r.len)).collect();
        self.record("removemapping", ctx, &[inode.to_string(), format!("p[{}]", l.join(","))]);
        self.unit()
    }

    fn access(&self, ctx: &Context, inode: u64, mask: u32) -> io::Result<()> {
        self.record("access", ctx, &[inode.to_string(), mask.to_string()]);
        self.unit()
    }

    fn lseek(&self, ctx: &Context, inode: u64, handle: u64, offset: u64, whence: u32) -> io::Result<u64> {
        self.record("lseek", ctx, &[inode.to_string(), handle.to_string(), offset.to_string(), whence.to_string()]);
        self.count()
    }

    fn getlk(&self, ctx: &Context, inode: u64, handle: u64, owner: u64, lock: FileLock, flags: u32) -> io::Result<FileLock> {
        self.record("getlk", ctx, &[inode.to_string(), handle.to_string(), owner.to_string(), format!("lk[{},{},{},{}]", lock.start, lock.end, lock.lock_type, lock.pid), flags.to_string()]);
        if let Some(e) = self.err() {
            return Err(e);
        }
        if self.ans() != "lock" {
            return Err(enosys());
        }
        Ok(FileLock {
            start: kn(&self.kv, "lk_start"),
            end: kn(&self.kv, "lk_end"),
            lock_type: kn(&self.kv, "lk_type") as u32,
            pid: kn(&self.kv, "lk_pid") as u32,
        })
    }

    fn setlk(&self, ctx: &Context, inode: u64, handle: u64, owner: u64, lock: FileLock, flags: u32) -> io::Result<()> {
        self.record("setlk", ctx, &[inode.to_string(), handle.to_string(), owner.to_string(), format!("lk[{},{},{},{}]", lock.start, lock.end, lock.lock_type, lock.pid), flags.to_string()]);
        self.unit()
    }

    fn setlkw(&self, ctx: &Context, inode: u64, handle: u64, owner: u64, lock: FileLock, flags: u32) -> io::Result<()> {
        self.record("setlkw", ctx, &[inode.to_string(), handle.to_string(), owner.to_string(), format!("lk[{},{},{},{}]", lock.start, lock.end, lock.lock_type, lock.pid), flags.to_string()]);
        self.unit()
    }

    fn ioctl(&self, ctx: &Context, inode: u64, handle: u64, flags: u32, cmd: u32, data: IoctlData, out_size: u32) -> io::Result<IoctlData<'_>> {
        self.record("ioctl", ctx, &[inode.to_string(), handle.to_string(), flags.to_string(), cmd.to_string(),
            if data.data.is_some() { "some:1".into() } else { "none".into() },
            format!("x{}", hex(data.data.unwrap_or(&[]))), out_size.to_string()]);
        if let Some(e) = self.err() {
            return Err(e);
        }
        if self.ans() != "ioctl" {
            return Err(enosys());
        }
        Ok(IoctlData {
            result: kn(&self.kv, "io_res") as u32 as i32,
            data: if ks(&self.kv, "io_data") == "none" { None } else { Some(&self.ioctl_data) },
        })
    }

    fn bmap(&self, ctx: &Context, inode: u64, block: u64, blocksize: u32) -> io::Result<u64> {
        self.record("bmap", ctx, &[inode.to_string(), block.to_string(), blocksize.to_string()]);
        self.count()
    }

    fn poll(&self, ctx: &Context, inode: u64, handle: u64, khandle: u64, flags: u32, events: u32) -> io::Result<u32> {
        self.record("poll", ctx, &[inode.to_string(), handle.to_string(), khandle.to_string(), flags.to_string(), events.to_string()]);
        self.count().map(|c| c as u32)
    }

    fn notify_reply(&self) -> io::Result<()> {
        self.record("notify_reply", &Context::default(), &[]);
        if let Some(e) = self.err() {
            return Err(e);
        }
        Ok(())
    }
}
