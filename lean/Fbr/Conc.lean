/-
  Fbr.Conc — small-step model of concurrent `lookup` / `forget` on the passthrough inode store
  (`do_lookup`, `forget_one` of src/passthrough/mod.rs; `forget` of sync_io.rs).  Serves C09.

  A step is the code between two scheduler yield points (hook H1) — i.e. between lock
  acquisitions and atomic operations:

    lookup(f):  LS  resolve the name (takes the read lock on the map)       L_START
                L0  probe `get_alt` under the read lock                       L_PROBE
                L1  (hit) load the count of the `Arc<InodeData>` found        L_HIT
                L2  compare_exchange(curr, curr+1); retry from L0 on failure  L_LOADED
                L3  (miss) write lock; re-probe; fetch_add | allocate+insert; unlock   L_PRELOCK
    forget(i,n) F0  take the write lock                                       F_PRELOCK
                F1  root check; `inodes.get`; load the count                  FO_ENTER
                F2  compare_exchange(curr, curr.saturating_sub(n)) (loop)     FO_LOADED
                F3  (count reached 0) remove the entry; unlock                FO_ZERO

  `InodeData` objects have identity (`ObjId`): a thread that found an object keeps its `Arc`
  even after the object was removed from the store.  The model is sequentially consistent.
  Ghost fields count the increments / decrements committed per host file.  The root entry is
  not part of this model (it is never removed: C08 `root_never_forgotten`); `use_host_ino`
  is the `keep = false` configuration, where the number is a function `pack` of the host id.
-/
namespace Fbr.Conc

abbrev Tid := Nat
abbrev HostId := Nat
abbrev Ino := Nat
abbrev ObjId := Nat

def ROOT_ID : Ino := 1

structure Cfg where
  /-- `keep_mapping` = `!use_host_ino`: by_id survives forget and numbers come from `next_inode` -/
  keep : Bool
  /-- `use_host_ino`: the number derived from the host identity (`UniqueInodeGenerator`) -/
  pack : HostId → Ino

structure Store where
  /-- `InodeStore.data` (which `InodeData` object is stored under a number) -/
  data : Ino → Option ObjId
  /-- `InodeStore.by_id` -/
  byId : HostId → Option Ino
  /-- `next_inode` -/
  next : Nat
  /-- the `refcount` cell of every `InodeData` ever created (kept alive by `Arc`) -/
  cells : ObjId → Nat
  objIno : ObjId → Ino
  objHost : ObjId → HostId
  /-- number of objects created so far -/
  nobj : Nat

inductive Lock where
  | free
  | w (t : Tid)
  deriving DecidableEq, Repr

inductive Op where
  | lookup (f : HostId)
  /-- forget by number -/
  | forget (ino : Ino) (n : Nat)
  /-- forget the number the client learnt for file `f` (resolved when the request starts) -/
  | forgetFile (f : HostId) (n : Nat)
  deriving Repr

inductive PC where
  | LS (f : HostId)
  | L0 (f : HostId)
  | L1 (f : HostId) (o : ObjId)
  | L2 (f : HostId) (o : ObjId) (curr : Nat)
  | L3 (f : HostId)
  | F0 (ino : Ino) (n : Nat)
  /-- forget of "the number learnt for file f": resolved when the step runs -/
  | F0f (f : HostId) (n : Nat)
  | F1 (ino : Ino) (n : Nat)
  | F2 (ino : Ino) (n : Nat) (o : ObjId) (curr : Nat)
  | F3 (ino : Ino) (n : Nat) (o : ObjId)
  | done
  deriving DecidableEq, Repr

structure Thread where
  pc : PC
  prog : List Op
  /-- results of the completed requests, newest first: `(file, number)` for a lookup -/
  results : List (HostId × Ino)

structure Sys where
  store : Store
  lock : Lock
  threads : Tid → Thread
  /-- what the client has learnt: the number returned for a file by a completed lookup -/
  known : HostId → Option Ino
  /-- ghost: number of completed lookups per host file (a lookup returns right after committing
      its increment: CAS success, fetch_add, or insert with count 1) -/
  incs : HostId → Nat
  /-- ghost: amount subtracted per host file by committed forget CASes -/
  decs : HostId → Nat

def upd {α : Type} (m : Nat → α) (k : Nat) (v : α) : Nat → α := fun x => if x = k then v else m x

def Store.empty : Store :=
  { data := fun _ => none, byId := fun _ => none, next := ROOT_ID + 1, cells := fun _ => 0,
    objIno := fun _ => 0, objHost := fun _ => 0, nobj := 0 }

/-- first program counter of a request -/
def startPc : Op → PC
  | .lookup f => .LS f
  | .forget i n => .F0 i n
  | .forgetFile f n => .F0f f n

/-- the thread goes on to its next request (there is no yield point between two requests) -/
def advance (t : Thread) : Thread :=
  match t.prog with
  | [] => { t with pc := .done }
  | op :: r => { t with pc := startPc op, prog := r }

def Sys.init (progs : Tid → List Op) : Sys :=
  { store := Store.empty, lock := .free,
    threads := fun t => advance { pc := .done, prog := progs t, results := [] },
    known := fun _ => none, incs := fun _ => 0, decs := fun _ => 0 }

/-- `InodeMap::get_alt` (by id; see `Fbr.PtRefs.getAlt` for the handle variant) -/
def probe (st : Store) (f : HostId) : Option ObjId :=
  match st.byId f with
  | none => none
  | some i => st.data i

/-- a thread is blocked iff its next step needs the map lock while another thread holds it
    (all read-locked sections are inside single steps, so only the write lock matters) -/
def enabled (s : Sys) (t : Tid) : Bool :=
  match (s.threads t).pc with
  | .done => false
  | .LS _ | .L0 _ | .L3 _ | .F0 _ _ | .F0f _ _ => decide (s.lock = .free)
  | _ => true

def setThread (s : Sys) (t : Tid) (th : Thread) : Sys := { s with threads := upd s.threads t th }

/-- record the result of a completed request -/
def pushRes (th : Thread) : Option (HostId × Ino) → Thread
  | some r => { th with results := r :: th.results }
  | none => th

/-- the client learns the number a completed lookup returned -/
def learn (known : HostId → Option Ino) : Option (HostId × Ino) → (HostId → Option Ino)
  | some (f, i) => upd known f (some i)
  | none => known

/-- ghost: one more completed lookup of the file -/
def bump (incs : HostId → Nat) : Option (HostId × Ino) → (HostId → Nat)
  | some (f, _) => upd incs f (incs f + 1)
  | none => incs

/-- the request of thread `t` returns: record the result and fetch the next request -/
def finish (s : Sys) (t : Tid) (res : Option (HostId × Ino)) : Sys :=
  { s with known := learn s.known res, incs := bump s.incs res,
           threads := upd s.threads t (advance (pushRes (s.threads t) res)) }

def setPc (s : Sys) (t : Tid) (pc : PC) : Sys :=
  setThread s t { s.threads t with pc := pc }

/-- `allocate_inode` under the write lock -/
def allocate (c : Cfg) (st : Store) (f : HostId) : Store × Ino :=
  if c.keep then
    match st.byId f with
    | some i => (st, i)
    | none => ({ st with next := st.next + 1 }, st.next)
  else (st, c.pack f)

/-- one step of thread `t` (no-op when the thread is finished or blocked) -/
def step (c : Cfg) (s : Sys) (t : Tid) : Sys :=
  if !enabled s t then s
  else
    let st := s.store
    match (s.threads t).pc with
    | .done => s
    | .LS f => setPc s t (.L0 f)
    | .L0 f =>
      match probe st f with
      | none => setPc s t (.L3 f)
      | some o => setPc s t (.L1 f o)
    | .L1 f o =>
      let curr := st.cells o
      if curr = 0 then setPc s t (.L0 f) else setPc s t (.L2 f o curr)
    | .L2 f o curr =>
      if st.cells o = curr then
        finish { s with store := { st with cells := upd st.cells o (curr + 1) } }
          t (some (f, st.objIno o))
      else setPc s t (.L0 f)
    | .L3 f =>
      -- write lock taken and released inside the step
      match probe st f with
      | some o =>
        finish { s with store := { st with cells := upd st.cells o (st.cells o + 1) } }
          t (some (f, st.objIno o))
      | none =>
        match allocate c st f with
        | (st, ino) =>
          let o := st.nobj
          finish { s with
              store := { st with data := upd st.data ino (some o), byId := upd st.byId f (some ino),
                                 cells := upd st.cells o 1, objIno := upd st.objIno o ino,
                                 objHost := upd st.objHost o f, nobj := o + 1 } }
            t (some (f, ino))
    | .F0 ino n => setPc { s with lock := .w t } t (.F1 ino n)
    | .F0f f n => setPc { s with lock := .w t } t (.F1 ((s.known f).getD 0) n)
    | .F1 ino n =>
      if ino = ROOT_ID then finish { s with lock := .free } t none
      else
        match st.data ino with
        | none => finish { s with lock := .free } t none
        | some o => setPc s t (.F2 ino n o (st.cells o))
    | .F2 ino n o curr =>
      if st.cells o = curr then
        let new := curr - n
        let s := { s with store := { st with cells := upd st.cells o new },
                          decs := upd s.decs (st.objHost o) (s.decs (st.objHost o) + (curr - new)) }
        if new = 0 then setPc s t (.F3 ino n o) else finish { s with lock := .free } t none
      else setPc s t (.F2 ino n o (st.cells o))
    | .F3 ino _ o =>
      let st := { st with data := upd st.data ino none,
                          byId := if c.keep then st.byId else upd st.byId (st.objHost o) none }
      finish { s with store := st, lock := .free } t none

/-- run a schedule -/
def run (c : Cfg) (s : Sys) (sched : List Tid) : Sys := sched.foldl (step c) s

/-- the count the store currently holds for host file `f` (0 when it has no entry) -/
def liveCount (st : Store) (f : HostId) : Nat :=
  match probe st f with
  | some o => st.cells o
  | none => 0

/-- deterministic completion used by the driver and the harness after the schedule is exhausted:
    repeatedly step the lowest-numbered enabled thread among `0..n` -/
def drain (c : Cfg) (n : Nat) : Nat → Sys → List Tid → Sys × List Tid
  | 0, s, acc => (s, acc.reverse)
  | fuel + 1, s, acc =>
    match (List.range n).find? (enabled s) with
    | none => (s, acc.reverse)
    | some t => drain c n fuel (step c s t) (t :: acc)

end Fbr.Conc
