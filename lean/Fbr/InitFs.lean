/-
  Fbr.InitFs — the option algebra of `FileSystem::init` in the three file-system layers:
  `Vfs::init` (src/api/vfs/sync_io.rs), `PassthroughFs::init` (src/passthrough/sync_io.rs) and
  `OverlayFs::init` (src/overlayfs/sync_io.rs).  Pure functions over 64-bit option sets
  (`capable` = what the server offers the layer, result = what the layer wants + its toggles).
-/
namespace Fbr.InitFs

def WRITEBACK_CACHE : Nat := 0x10000
def ZERO_MESSAGE_OPEN : Nat := 0x20000
def ZERO_MESSAGE_OPENDIR : Nat := 0x1000000
def HANDLE_KILLPRIV_V2 : Nat := 0x10000000
def ATOMIC_O_TRUNC : Nat := 0x8
def DO_READDIRPLUS : Nat := 0x2000
def READDIRPLUS_AUTO : Nat := 0x4000
def PERFILE_DAX : Nat := 0x200000000
def ALL64 : Nat := 2 ^ 64 - 1

def has (s b : Nat) : Bool := s &&& b != 0
def without (s b : Nat) : Nat := s &&& (ALL64 - b)

/-! ### VFS -/

structure VfsOpts where
  noOpen : Bool
  noOpendir : Bool
  noWriteback : Bool
  killprivV2 : Bool
  outOpts : Nat
  inOpts : Nat := 0
  deriving Repr, DecidableEq, Inhabited

structure VfsState where
  opts : VfsOpts
  initialized : Bool := false
  deriving Repr, DecidableEq, Inhabited

/-- the options computed by `Vfs::init(capable)` -/
def vfsNegotiate (o : VfsOpts) (capable : Nat) : VfsOpts :=
  let out0 := o.outOpts
  -- no_open stays on only when the client offers zero-message open AND the reply will carry it
  let noOpen := o.noOpen && has (capable &&& out0) ZERO_MESSAGE_OPEN
  let out1 := if o.noOpen then without out0 ATOMIC_O_TRUNC else without out0 ZERO_MESSAGE_OPEN
  let noOpendir := o.noOpendir && has (capable &&& out1) ZERO_MESSAGE_OPENDIR
  let out2 := if o.noOpendir then out1 else without out1 ZERO_MESSAGE_OPENDIR
  let out3 := if o.noWriteback then without out2 WRITEBACK_CACHE else out2
  let out4 := if !o.killprivV2 then without out3 HANDLE_KILLPRIV_V2 else out3
  { o with noOpen := noOpen, noOpendir := noOpendir, outOpts := out4 &&& capable, inOpts := capable }

/-- `Vfs::init`: refused when already initialised; otherwise stores the negotiated options and
    returns `out_opts` (no backends mounted in this model: their `init` cannot fail) -/
def vfsInit (s : VfsState) (capable : Nat) : VfsState × Option Nat :=
  if s.initialized then (s, none)
  else
    let o := vfsNegotiate s.opts capable
    ({ opts := o, initialized := true }, some o.outOpts)

/-- `Vfs::destroy` -/
def vfsDestroy (s : VfsState) : VfsState := { s with initialized := false }

/-! ### passthrough / overlay (same shape) -/

structure LayerCfg where
  doImport : Bool        -- true = standalone file system, false = under a VFS
  writeback : Bool
  noOpen : Bool
  noOpendir : Bool
  killprivV2 : Bool
  perfileDax : Bool := true   -- overlay only: config switch; passthrough ignores it
  deriving Repr, DecidableEq, Inhabited

structure Toggles where
  writeback : Bool := false
  noOpen : Bool := false
  noOpendir : Bool := false
  killprivV2 : Bool := false
  perfileDax : Bool := false
  deriving Repr, DecidableEq, Inhabited

def gate (c : LayerCfg) (sw : Bool) (capable bit : Nat) : Bool := (!c.doImport || sw) && has capable bit

/-- the option word `PassthroughFs::init` builds from its five decisions -/
def ptOpts (wb no nod kp dax : Bool) : Nat :=
  let o0 := DO_READDIRPLUS ||| READDIRPLUS_AUTO
  let o1 := if wb then o0 ||| WRITEBACK_CACHE else o0
  let o2 := if no then without (o1 ||| ZERO_MESSAGE_OPEN) ATOMIC_O_TRUNC else o1
  let o3 := if nod then o2 ||| ZERO_MESSAGE_OPENDIR else o2
  let o4 := if kp then o3 ||| HANDLE_KILLPRIV_V2 else o3
  if dax then o4 ||| PERFILE_DAX else o4

/-- `PassthroughFs::init(capable)` = (wanted options, toggles) -/
def ptInit (c : LayerCfg) (capable : Nat) : Nat × Toggles :=
  let wb := gate c c.writeback capable WRITEBACK_CACHE
  let no := gate c c.noOpen capable ZERO_MESSAGE_OPEN
  let nod := gate c c.noOpendir capable ZERO_MESSAGE_OPENDIR
  let kp := gate c c.killprivV2 capable HANDLE_KILLPRIV_V2
  let dax := has capable PERFILE_DAX
  (ptOpts wb no nod kp dax, { writeback := wb, noOpen := no, noOpendir := nod, killprivV2 := kp, perfileDax := dax })

/-- `PassthroughFs::new` normalises the configuration first: no_open only works with
    cache=always, writeback conflicts with cache=never (`cache`: 0 never, 1 auto, 2 always) -/
def ptNormalize (c : LayerCfg) (cache : Nat) : LayerCfg :=
  { c with noOpen := c.noOpen && cache == 2, writeback := c.writeback && cache != 0 }

/-- `OverlayFs::init(capable)`: as passthrough, but per-file DAX also needs the config switch -/
def ovlInit (c : LayerCfg) (capable : Nat) : Nat × Toggles :=
  let (o, t) := ptInit c capable
  let dax := c.perfileDax && has capable PERFILE_DAX
  ((if dax then o ||| PERFILE_DAX else without o PERFILE_DAX), { t with perfileDax := dax })

end Fbr.InitFs
