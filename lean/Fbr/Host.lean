/-
  Fbr.Host — the host kernel as the passthrough file system sees it.

  * `HCall` / `HAns`: the system calls `src/passthrough/{mod,sync_io,util,statx,file_handle}.rs`
    issue, at descriptor level (descriptors `Fd` are names of open file descriptions, `Obj` are
    host inodes), and their results (errno or value).
  * `Prog`: a program that interacts with the host: a tree of calls whose continuation receives
    the host's answer.  The passthrough model (`Fbr.PtHost`) is written in this monad, so it *is*
    a transducer request ↦ sequence of host calls ↦ reply, and it can be run
      - against an explicit answer script (`Prog.runScript`; correspondence (a): the harness records
        the real kernel's answers and puts them into the case line), or
      - against any host `H : HostOps σ` (`Prog.run`), in particular the reference FS below.
  * `HostOps` / `HostLaws`: the abstract host and the laws the theorems of C05/C06 need
    ("externals are parameters, never axioms", DESIGN §3).
  * `Ref`: the reference host FS — a finite map of inodes (dir | reg | symlink | fifo | device |
    socket), hard links as shared inode ids, an export directory inside a larger sentinel tree,
    per-thread credentials — with every call as a total function.  `Fbr.Lemmas.HostRef` proves it
    satisfies `HostLaws`; the driver executes it next to the recorded answers.
-/
namespace Fbr.Host

abbrev Name := List UInt8
abbrev Obj := Nat
abbrev Fd := Nat

/-! ### errno / flag constants (x86_64 Linux) -/
def EPERM := 1
def ENOENT := 2
def EIO := 5
def EBADF := 9
def EACCES := 13
def EEXIST := 17
def EXDEV := 18
def ENOTDIR := 20
def EISDIR := 21
def EINVAL := 22
def ENOSYS := 38
def ENOTEMPTY := 39
def ELOOP := 40
def ENODATA := 61
def EOVERFLOW := 75
def EOPNOTSUPP := 95
def ERANGE := 34
def ENAMETOOLONG := 36
/-- `io::Error::new(PermissionDenied, ..)` has no OS code; the harness prints 10000 + the code
    `encode_io_error_kind` would send -/
def E_KIND_PERM := 10013
def E_KIND_INVALID_DATA := 10022

def O_RDONLY := 0
def O_WRONLY := 1
def O_RDWR := 2
def O_ACCMODE := 3
def O_CREAT := 64
def O_EXCL := 128
def O_TRUNC := 512
def O_APPEND := 1024
def O_NONBLOCK := 2048
def O_DIRECT := 16384
def O_DIRECTORY := 65536
def O_NOFOLLOW := 131072
def O_NOATIME := 262144
def O_CLOEXEC := 524288
def O_PATH := 2097152
def AT_SYMLINK_NOFOLLOW := 256
def AT_REMOVEDIR := 512
def AT_EMPTY_PATH := 4096
def S_IFMT := 61440
def S_IFIFO := 4096
def S_IFCHR := 8192
def S_IFDIR := 16384
def S_IFBLK := 24576
def S_IFREG := 32768
def S_IFLNK := 40960
def S_IFSOCK := 49152
def UTIME_NOW := 1073741823
def UTIME_OMIT := 1073741822
def PATH_MAX := 4096
def STATX_FLAGS := 4352        -- AT_EMPTY_PATH | AT_SYMLINK_NOFOLLOW
def STATX_MASK := 6143         -- STATX_BASIC_STATS | STATX_MNT_ID
def RENAME_NOREPLACE := 1
def RENAME_EXCHANGE := 2
def CAP_FSETID_BIT := 4

/-- `x & !m` on machine words -/
def clr (x m : Nat) : Nat := x ^^^ (x &&& m)

def has (x bit : Nat) : Bool := x &&& bit != 0

/-! ### calls and answers -/

structure Stat where
  obj : Obj
  mode : Nat
  uid : Nat
  gid : Nat
  size : Nat
  nlink : Nat
  rdev : Nat
  /-- explicit time (set by a request) or `none` = some "now" -/
  atime : Option Nat
  mtime : Option Nat
  deriving Repr, DecidableEq, Inhabited

/-- directory descriptor argument: a descriptor, or the `/proc/self/fd` directory -/
inductive HCall where
  | openat (dir : Fd) (name : Name) (flags mode : Nat)
  /-- `openat(proc_self_fd, "<fd>", flags)`.  `mode` is a ghost argument (not part of the system
      call): the file type and mode the caller has on record for the object behind `fd`. -/
  | reopen (fd : Fd) (flags : Nat) (mode : Nat)
  /-- `open_by_handle_at(mount_fd, handle, flags)`; `h` names the file handle (bytes); `mode` is
      the same ghost argument as for `reopen` -/
  | openByHandle (h : Nat) (flags : Nat) (mode : Nat)
  /-- `name_to_handle_at(fd, "", handle, .., flags)`; `size` = `handle_bytes` offered (0 = probe) -/
  | nameToHandle (fd : Fd) (flags : Nat) (size : Nat)
  | statx (fd : Fd) (name : Name) (flags mask : Nat)
  | fstatat (fd : Fd) (name : Name) (flags : Nat)
  | mkdirat (dir : Fd) (name : Name) (mode : Nat)
  | mknodat (dir : Fd) (name : Name) (mode rdev : Nat)
  | symlinkat (target : Name) (dir : Fd) (name : Name)
  | linkat (fd : Fd) (oname : Name) (newdir : Fd) (name : Name) (flags : Nat)
  | unlinkat (dir : Fd) (name : Name) (flags : Nat)
  | renameat2 (odir : Fd) (oname : Name) (ndir : Fd) (nname : Name) (flags : Nat)
  | readlinkat (fd : Fd) (name : Name) (bufsz : Nat)
  | fchmod (fd : Fd) (mode : Nat)
  /-- `fchmodat(proc_self_fd, "<fd>", mode, flags)` -/
  | fchmodatProc (fd : Fd) (mode flags : Nat)
  | fchownat (fd : Fd) (name : Name) (uid gid flags : Nat)
  | ftruncate (fd : Fd) (size : Nat)
  | futimens (fd : Fd) (asec ansec msec mnsec : Nat)
  /-- `utimensat(proc_self_fd, "<fd>", times, flags)` -/
  | utimensatProc (fd : Fd) (asec ansec msec mnsec flags : Nat)
  | fallocate (fd : Fd) (mode off len : Nat)
  | lseek (fd : Fd) (off whence : Nat)
  | preadv (fd : Fd) (len off : Nat)
  | pwritev (fd : Fd) (data : List UInt8) (off : Nat)
  | fstatvfs (fd : Fd)
  /-- xattr calls on `/proc/self/fd/<fd>` -/
  | setxattr (fd : Fd) (name value : List UInt8) (flags : Nat)
  | getxattr (fd : Fd) (name : List UInt8) (size : Nat)
  | listxattr (fd : Fd) (size : Nat)
  | removexattr (fd : Fd) (name : List UInt8)
  | fsync (fd : Fd)
  | fdatasync (fd : Fd)
  | setfl (fd : Fd) (flags : Nat)
  /-- `setresgid(-1, g, -1)` / `setresuid(-1, u, -1)`: effective id only -/
  | setresgid (g : Nat)
  | setresuid (u : Nat)
  | capget
  /-- capset with CAP_FSETID in the effective set = the argument -/
  | capset (fsetid : Bool)
  deriving Repr, DecidableEq, Inhabited

inductive HAns where
  | err (e : Nat)
  | ok
  | fd (f : Fd) (obj : Obj)
  | st (s : Stat)
  | n (v : Nat)
  | bytes (b : List UInt8)
  | caps (fsetid : Bool)
  /-- a file handle (named by first occurrence of its bytes) -/
  | handle (h : Nat)
  | vfs (namemax bsize : Nat)
  deriving Repr, DecidableEq, Inhabited

/-- credential-changing calls -/
def HCall.isCred : HCall → Bool
  | .setresgid _ | .setresuid _ | .capset _ => true
  | _ => false

/-- calls that cannot change any file-system object -/
def HCall.readOnly : HCall → Bool
  | .openat _ _ flags _ => !(has flags O_CREAT) && !(has flags O_TRUNC)
  | .reopen _ flags _ | .openByHandle _ flags _ => !(has flags O_TRUNC)
  | .nameToHandle .. | .statx .. | .fstatat .. | .readlinkat .. | .lseek .. | .preadv .. | .fstatvfs ..
  | .getxattr .. | .listxattr .. | .fsync .. | .fdatasync .. | .setfl .. | .capget
  | .setresgid .. | .setresuid .. | .capset .. => true
  | _ => false

/-! ### programs -/

inductive Prog (α : Type) where
  | pure : α → Prog α
  | call : HCall → (HAns → Prog α) → Prog α

namespace Prog

def bind : Prog α → (α → Prog β) → Prog β
  | .pure a, f => f a
  | .call c k, f => .call c (fun a => (k a).bind f)

instance : Monad Prog where
  pure := Prog.pure
  bind := Prog.bind

/-- one system call -/
def sys (c : HCall) : Prog HAns := .call c .pure

/-- run against an explicit list of answers; returns the value, the calls made (in order) and
    the unused answers.  A missing answer reads as `err 9999`. -/
def runScript : Prog α → List HAns → α × List HCall × List HAns
  | .pure a, as => (a, [], as)
  | .call c k, [] =>
    let (v, cs, r) := runScript (k (.err 9999)) []
    (v, c :: cs, r)
  | .call c k, a :: as =>
    let (v, cs, r) := runScript (k a) as
    (v, c :: cs, r)

/-- run against an answer function (the same answer for the same call); value and calls -/
def runFn (ans : HCall → HAns) : Prog α → α × List HCall
  | .pure a => (a, [])
  | .call c k =>
    let r := runFn ans (k (ans c))
    (r.1, c :: r.2)

/-- every call the program can ever make, whatever the host answers, satisfies `P` -/
def OnlyCalls (P : HCall → Prop) : Prog α → Prop
  | .pure _ => True
  | .call c k => P c ∧ ∀ a, OnlyCalls P (k a)

end Prog

/-! ### inodes (what a host stores about an object) -/

inductive Kind where
  | dir | reg | lnk | fifo | chr | blk | sock
  deriving Repr, DecidableEq, Inhabited

def Kind.ifmt : Kind → Nat
  | .dir => S_IFDIR | .reg => S_IFREG | .lnk => S_IFLNK | .fifo => S_IFIFO
  | .chr => S_IFCHR | .blk => S_IFBLK | .sock => S_IFSOCK

def kindOfMode (m : Nat) : Option Kind :=
  let t := m &&& S_IFMT
  if t == S_IFREG || t == 0 then some .reg
  else if t == S_IFIFO then some .fifo
  else if t == S_IFCHR then some .chr
  else if t == S_IFBLK then some .blk
  else if t == S_IFSOCK then some .sock
  else none

structure Node where
  kind : Kind
  perm : Nat
  uid : Nat
  gid : Nat
  /-- file content, or the target of a symbolic link -/
  data : List UInt8 := []
  entries : List (Name × Obj) := []
  /-- ".." of a directory -/
  parent : Obj := 0
  nlink : Nat := 1
  rdev : Nat := 0
  xattrs : List (List UInt8 × List UInt8) := []
  atime : Option Nat := none
  mtime : Option Nat := none
  deriving Repr, DecidableEq, Inhabited

/-! ### the abstract host -/

structure Creds where
  euid : Nat
  egid : Nat
  /-- CAP_FSETID in the effective / permitted set of the thread -/
  effFsetid : Bool
  permFsetid : Bool
  deriving Repr, DecidableEq, Inhabited

/-- the serving thread as the library expects it: root, effective = permitted -/
def Creds.Root (c : Creds) : Prop := c.euid = 0 ∧ c.egid = 0 ∧ c.effFsetid = c.permFsetid

structure HostOps (σ : Type) where
  step : σ → HCall → HAns × σ
  creds : σ → Creds
  /-- the object an open descriptor denotes -/
  fdObj : σ → Fd → Option Obj
  /-- everything stored about an object (type, mode, owner, content, entries, ...) -/
  view : σ → Obj → Option Node
  /-- the objects outside the exported directory when the file system was imported -/
  sentinel : Obj → Bool
  exportRoot : Obj

/-- credentials after a successful `setresuid(-1, u, -1)` (real and saved uid stay 0): leaving
    euid 0 clears the effective capability set, returning to euid 0 copies permitted to effective -/
def Creds.afterSetuid (c : Creds) (u : Nat) : Creds :=
  { c with euid := u,
           effFsetid := if u = 0 then (if c.euid = 0 then c.effFsetid else c.permFsetid) else false }

/-- The laws of the host the theorems rely on.  `Fbr.Lemmas.HostRef` proves them for the reference
    FS; the correspondence run checks the reference FS's answers against the real kernel's. -/
class HostLaws {σ : Type} (H : HostOps σ) : Prop where
  /-- only setresuid / setresgid / capset change the thread's credentials -/
  creds_other : ∀ s c, c.isCred = false → H.creds (H.step s c).2 = H.creds s
  /-- `setresgid(-1, g, -1)` either fails and changes nothing or sets the effective gid -/
  setresgid_spec : ∀ s g,
    ((H.step s (.setresgid g)).1 = .ok ∧ H.creds (H.step s (.setresgid g)).2 = { H.creds s with egid := g }) ∨
    ((∃ e, (H.step s (.setresgid g)).1 = .err e) ∧ H.creds (H.step s (.setresgid g)).2 = H.creds s)
  /-- the real gid is 0, so going back to gid 0 is always permitted -/
  setresgid_zero : ∀ s, (H.step s (.setresgid 0)).1 = .ok
  setresuid_spec : ∀ s u,
    ((H.step s (.setresuid u)).1 = .ok ∧ H.creds (H.step s (.setresuid u)).2 = (H.creds s).afterSetuid u) ∨
    ((∃ e, (H.step s (.setresuid u)).1 = .err e) ∧ H.creds (H.step s (.setresuid u)).2 = H.creds s)
  /-- the real uid is 0, so going back to uid 0 is always permitted -/
  setresuid_zero : ∀ s, (H.step s (.setresuid 0)).1 = .ok
  capset_spec : ∀ s b,
    ((H.step s (.capset b)).1 = .ok ∧ H.creds (H.step s (.capset b)).2 = { H.creds s with effFsetid := b }) ∨
    ((∃ e, (H.step s (.capset b)).1 = .err e) ∧ H.creds (H.step s (.capset b)).2 = H.creds s)
  /-- raising a capability that is in the permitted set succeeds (as root) -/
  capset_raise : ∀ s, (H.creds s).permFsetid = true → (H.creds s).euid = 0 → (H.step s (.capset true)).1 = .ok
  /-- capget (on the calling thread, valid header) reports the effective set -/
  capget_spec : ∀ s, (H.step s .capget).1 = .caps (H.creds s).effFsetid
  /-- lookups with O_PATH, stat, readlink, read, non-truncating (re-)opens, lseek, fsync, F_SETFL,
      xattr reads and credential switches do not change any file-system object -/
  view_readOnly : ∀ s c, c.readOnly = true → ∀ o, H.view (H.step s c).2 o = H.view s o

namespace Prog

/-- run against a host: value, final host state, trace -/
def run (H : HostOps σ) : Prog α → σ → α × σ × List (HCall × HAns)
  | .pure a, s => (a, s, [])
  | .call c k, s =>
    let (a, s') := H.step s c
    let (v, s'', t) := run H (k a) s'
    (v, s'', (c, a) :: t)

end Prog

end Fbr.Host
