/-
  Fbr.Proto — line-protocol helpers shared by every driver (no Mathlib, so drivers link).
  A case line is a sequence of space-separated `key=value` tokens; bytes are lowercase hex.
-/
namespace Fbr.Proto

def tokens (line : String) : List (String × String) :=
  (line.trimAscii.toString.splitOn " ").filterMap fun t =>
    if t.isEmpty then none else
    match t.splitOn "=" with
    | [k] => some (k, "")
    | k :: rest => some (k, "=".intercalate rest)
    | [] => none

def get (kv : List (String × String)) (k : String) : Option String := kv.lookup k

def getD (kv : List (String × String)) (k : String) (d : String := "") : String := (kv.lookup k).getD d

def getNat (kv : List (String × String)) (k : String) : Option Nat := (kv.lookup k).bind String.toNat?

def getNatD (kv : List (String × String)) (k : String) (d : Nat := 0) : Nat := (getNat kv k).getD d

def hexDigit (c : Char) : Option Nat :=
  if '0' ≤ c ∧ c ≤ '9' then some (c.toNat - '0'.toNat)
  else if 'a' ≤ c ∧ c ≤ 'f' then some (c.toNat - 'a'.toNat + 10)
  else if 'A' ≤ c ∧ c ≤ 'F' then some (c.toNat - 'A'.toNat + 10)
  else none

def unhexAux : List Char → List UInt8 → Option (List UInt8)
  | [], acc => some acc.reverse
  | [_], _ => none
  | a :: b :: rest, acc =>
    match hexDigit a, hexDigit b with
    | some x, some y => unhexAux rest (UInt8.ofNat (x * 16 + y) :: acc)
    | _, _ => none

def unhex (s : String) : Option (List UInt8) := unhexAux s.toList []

def hexChar (n : Nat) : Char := if n < 10 then Char.ofNat (n + 48) else Char.ofNat (n + 87)

def hex (bs : List UInt8) : String :=
  String.ofList (bs.foldr (fun b acc => hexChar (b.toNat / 16) :: hexChar (b.toNat % 16) :: acc) [])

/-- comma-separated naturals; empty string = empty list -/
def natList (s : String) : List Nat :=
  if s.isEmpty then [] else (s.splitOn ",").filterMap String.toNat?

def showNatList (l : List Nat) : String := ",".intercalate (l.map toString)

/-- run `step` over all stdin lines -/
partial def loop (h : IO.FS.Stream) (step : String → String) : IO Unit := do
  let line ← h.getLine
  if line.isEmpty then return ()
  let out := step (line.dropEndWhile (· == '\n')).toString
  IO.println out
  loop h step

partial def loopS {σ : Type} (h : IO.FS.Stream) (st : σ) (step : σ → String → σ × String) : IO Unit := do
  let line ← h.getLine
  if line.isEmpty then return ()
  let (st', out) := step st (line.dropEndWhile (· == '\n')).toString
  IO.println out
  loopS h st' step

end Fbr.Proto
