/-
  Fbr.Ovl — executable model of `src/overlayfs/{mod,sync_io}.rs` over layers that behave like
  `PassthroughFs` on an ordinary directory (`src/api/filesystem/overlay.rs` for the whiteout /
  opaque helpers).  Engine `ovl`, properties C10 and C11.

  Representation.
  * A name is one of five letters a..e (`Fin 5`; `names` is the universe a directory listing
    enumerates).  A path is the list of its names, LEAF FIRST, so the
    child `n` of `p` is `n :: p` and the root is `[]`.
  * A layer (a tree: directories with children and an opaque marker, files, symlinks, whiteouts,
    other nodes) is represented by its path function `Layer := Path → Node`, `Node.absent`
    where nothing exists.  Regular files carry an inode id so that hard links created through the
    overlay alias (a write through one name is seen through the other).  File content is a list
    of chunk ids, never bytes.
  * `Disk = {upper : Option Layer, lowers : List Layer}`; layer index 0 is the upper layer,
    `i+1` is `lowers[i]` (topmost lower first).
  * `merge : Disk → View` (section SPEC) is the specification of the union: topmost entry wins,
    directories merge, a whiteout hides, an opaque directory cuts.
  * `Mem` is the in-memory `OverlayInode` forest as the code keeps it, keyed by overlay path:
    per node the `RealInode`s (layer, in_upper_layer, path in that layer, whiteout, opaque),
    the `whiteout` and `loaded` flags and the names in the `childrens` map.
  * Every call of a *mutating* method on a layer is logged as `(layerIdx, method)`.

  The functions are written function-by-function in the shape of the Rust code (names in
  comments).  The model follows the code as it is now, i.e. after the three `fix:` commits of
  this engine (mkdir over a whiteout is always opaque; unlink/rmdir of an upper entry that
  shadows a lower one leaves a whiteout; copy-up of a special file recreates the node).
  Known deviation kept in the model: copy-up does not copy extended attributes.
-/
namespace Fbr.Ovl

/-- the five names a..e; a finite universe, so that "every name a directory can hold" is a list -/
abbrev Name := Fin 5
abbrev Path := List Name

/-- the name universe a directory listing enumerates (a..e) -/
def names : List Name := [0, 1, 2, 3, 4]

theorem mem_names : ∀ n : Name, n ∈ names := by decide

/-! ## errno values -/
def EPERM : Nat := 1
def ENOENT : Nat := 2
def ENXIO : Nat := 6
def EBADF : Nat := 9
def EEXIST : Nat := 17
def ENOTDIR : Nat := 20
def EISDIR : Nat := 21
def EINVAL : Nat := 22
def EROFS : Nat := 30
def ENOTEMPTY : Nat := 39
def ELOOP : Nat := 40
def ENODATA : Nat := 61
def EOPNOTSUPP : Nat := 95
/-- `io::Error::other(..)` ("no parent?", "BUG: ..."): an error without an errno -/
def EOTHER : Nat := 999

/-! ## layers -/

inductive Node where
  | absent
  | whiteout
  | file (id mode : Nat) (content : List Nat) (x : Nat)
  | symlink (target : Nat)
  | other (id mode : Nat)
  /-- `opaque`: 0 = no, 1 = user.fuseoverlayfs.opaque, 2 = trusted.overlay.opaque,
      3 = user.overlay.opaque; `x` = value id of the `user.x` xattr (0 = not set) -/
  | dir (mode : Nat) (opq : Nat) (x : Nat)
  deriving DecidableEq, Repr, Inhabited

def Node.isDir : Node → Bool
  | .dir .. => true
  | _ => false

def Node.isOpaqueDir : Node → Bool
  | .dir _ o _ => o != 0
  | _ => false

def Node.isWhiteout : Node → Bool
  | .whiteout => true
  | _ => false

def Node.isAbsent : Node → Bool
  | .absent => true
  | _ => false

abbrev Layer := Path → Node

def Layer.set (L : Layer) (p : Path) (n : Node) : Layer := fun q => if q = p then n else L q

def Layer.hasKids (L : Layer) (p : Path) : Bool := names.any fun m => !(L (m :: p)).isAbsent

/-- apply `f` to every name of the regular file with inode id `id` (hard links alias) -/
def Layer.updFile (L : Layer) (id : Nat) (f : Node → Node) : Layer := fun q =>
  match L q with
  | .file i m c x => if i = id then f (.file i m c x) else .file i m c x
  | .other i m => if i = id then f (.other i m) else .other i m
  | n => n

/-- `pwrite(2)` on chunk lists: holes read as chunk 0 -/
def pwrite (old : List Nat) (off : Nat) (data : List Nat) : List Nat :=
  (old.take off ++ List.replicate (off - old.length) 0) ++ data ++ old.drop (off + data.length)

/-- `ftruncate(2)` on chunk lists -/
def resize (old : List Nat) (n : Nat) : List Nat := old.take n ++ List.replicate (n - old.length) 0

/-- parent directory check shared by the creating host calls -/
def hParent (L : Layer) (pp : Path) (n : Name) : Except Nat Unit :=
  match L pp with
  | .dir .. => if (L (n :: pp)).isAbsent then .ok () else .error EEXIST
  | .absent => .error ENOENT
  | _ => .error ENOTDIR

/-- mkdirat / mknodat / symlinkat / open(O_CREAT|O_EXCL): create `node` as `pp/n` -/
def hMk (L : Layer) (pp : Path) (n : Name) (node : Node) : Except Nat Layer :=
  match hParent L pp n with
  | .ok () => .ok (L.set (n :: pp) node)
  | .error e => .error e

def hLink (L : Layer) (src : Path) (pp : Path) (n : Name) : Except Nat Layer :=
  match L src with
  | .absent => .error ENOENT
  | .dir .. => .error EPERM
  | node => hMk L pp n node

def hUnlink (L : Layer) (pp : Path) (n : Name) : Except Nat Layer :=
  match L (n :: pp) with
  | .absent => .error ENOENT
  | .dir .. => .error EISDIR
  | _ => .ok (L.set (n :: pp) .absent)

def hRmdir (L : Layer) (pp : Path) (n : Name) : Except Nat Layer :=
  match L (n :: pp) with
  | .absent => .error ENOENT
  | .dir .. => if L.hasKids (n :: pp) then .error ENOTEMPTY else .ok (L.set (n :: pp) .absent)
  | _ => .error ENOTDIR

def hChmod (L : Layer) (p : Path) (mode : Nat) : Except Nat Layer :=
  match L p with
  | .absent => .error ENOENT
  | .file id _ _ _ => .ok (L.updFile id fun | .file i _ c x => .file i mode c x | n => n)
  | .dir _ o x => .ok (L.set p (.dir mode o x))
  | .other id _ => .ok (L.updFile id fun | .other i _ => .other i mode | n => n)
  | .symlink _ => .error EOPNOTSUPP
  | .whiteout => .ok L

def hTruncate (L : Layer) (p : Path) (n : Nat) : Except Nat Layer :=
  match L p with
  | .absent => .error ENOENT
  | .file id _ _ _ => .ok (L.updFile id fun | .file i m c x => .file i m (resize c n) x | nd => nd)
  | .dir .. => .error EISDIR
  | _ => .error EINVAL

/-- open(flags) of a regular file; only O_TRUNC changes anything -/
def hOpen (L : Layer) (p : Path) (trunc : Bool) : Except Nat Layer :=
  match L p with
  | .absent => .error ENOENT
  | .file id _ _ _ => if trunc then .ok (L.updFile id fun | .file i m _ x => .file i m [] x | nd => nd) else .ok L
  | .dir .. => .ok L
  | .symlink _ => .error ELOOP
  | _ => .error EBADF

def hWrite (L : Layer) (p : Path) (off : Nat) (data : List Nat) : Except Nat Layer :=
  match L p with
  | .file id _ _ _ => .ok (L.updFile id fun | .file i m c x => .file i m (pwrite c off data) x | nd => nd)
  | _ => .error EBADF

def hSetX (L : Layer) (p : Path) (v : Nat) : Except Nat Layer :=
  match L p with
  | .absent => .error ENOENT
  | .file id _ _ _ => .ok (L.updFile id fun | .file i m c _ => .file i m c v | nd => nd)
  | .dir m o _ => .ok (L.set p (.dir m o v))
  | _ => .error EPERM

def Node.xattr : Node → Nat
  | .file _ _ _ x => x
  | .dir _ _ x => x
  | _ => 0

def hRmX (L : Layer) (p : Path) : Except Nat Layer :=
  match L p with
  | .absent => .error ENOENT
  | nd => if nd.xattr = 0 then .error ENODATA else hSetX L p 0

/-- `Layer::create_whiteout` (default body over lookup + mknod) -/
def hCreateWhiteout (L : Layer) (pp : Path) (n : Name) : Except Nat Layer :=
  match L (n :: pp) with
  | .whiteout => .ok L
  | .absent => hMk L pp n .whiteout
  | _ => .error EEXIST

/-- `Layer::delete_whiteout` -/
def hDeleteWhiteout (L : Layer) (pp : Path) (n : Name) : Except Nat Layer :=
  match L (n :: pp) with
  | .whiteout => hUnlink L pp n
  | .absent => .ok L
  | _ => .error EINVAL

/-- `Layer::set_opaque`: setxattr user.fuseoverlayfs.opaque = "y" -/
def hSetOpaque (L : Layer) (p : Path) : Except Nat Layer :=
  match L p with
  | .dir m _ x => .ok (L.set p (.dir m 1 x))
  | .absent => .error ENOENT
  | _ => .error ENOTDIR

structure Disk where
  upper : Option Layer
  lowers : List Layer

def Disk.layer (d : Disk) (i : Nat) : Option Layer :=
  match i with
  | 0 => d.upper
  | i + 1 => d.lowers[i]?

def Disk.setLayer (d : Disk) (i : Nat) (L : Layer) : Disk :=
  match i with
  | 0 => { d with upper := some L }
  | i + 1 => { d with lowers := d.lowers.set i L }

/-- the node at path `p` of layer `i` (absent when the layer does not exist) -/
def Disk.nodeAt (d : Disk) (i : Nat) (p : Path) : Node :=
  match d.layer i with
  | some L => L p
  | none => .absent

/-- layer indices, topmost first -/
def Disk.indices (d : Disk) : List Nat :=
  (match d.upper with | some _ => [0] | none => []) ++ (List.range d.lowers.length).map (· + 1)

/-! ## SPEC: the overlayfs union -/

/-- what a client sees at a path -/
inductive VNode where
  | none
  | file (mode : Nat) (content : List Nat) (x : Nat)
  | symlink (target : Nat)
  | other (mode : Nat)
  | dir (mode : Nat) (x : Nat)
  deriving DecidableEq, Repr, Inhabited

def Node.view : Node → VNode
  | .file _ m c x => .file m c x
  | .symlink t => .symlink t
  | .other _ m => .other m
  | .dir m _ x => .dir m x
  | .absent => .none
  | .whiteout => .none

abbrev View := Path → VNode

/-- Cut a stack of same-named entries (topmost first; layers that lack the name already
    dropped) to the part that is visible: a whiteout hides everything (empty stack), a
    non-directory on top is alone, directories merge downwards until a non-directory or a
    whiteout (excluded) or an opaque directory (included). -/
def cutDirs : List Node → List Node
  | [] => []
  | n :: rest =>
    match n with
    | .dir _ o _ => if o != 0 then [n] else n :: cutDirs rest
    | _ => []

def cut : List Node → List Node
  | [] => []
  | n :: rest =>
    match n with
    | .whiteout => []
    | .absent => []
    | .dir _ o _ => if o != 0 then [n] else n :: cutDirs rest
    | _ => [n]

/-- The layers (as indices, topmost first) whose directory at `p` takes part in the merged
    directory `p`, together with the visible stack: defined by recursion on the path from the
    root.  `stackIdx d p` lists the layer indices, `stackAt` the nodes. -/
def cutIdx (d : Disk) (p : Path) : List Nat → List Nat
  | [] => []
  | i :: rest =>
    match d.nodeAt i p with
    | .whiteout => []
    | .absent => []
    | .dir _ o _ => if o != 0 then [i] else i :: cutDirsIdx rest
    | _ => [i]
where
  cutDirsIdx : List Nat → List Nat
    | [] => []
    | j :: rest =>
      match d.nodeAt j p with
      | .dir _ o _ => if o != 0 then [j] else j :: cutDirsIdx rest
      | _ => []

def stackIdx (d : Disk) : Path → List Nat
  | [] => cutIdx d [] d.indices
  | n :: pp =>
    -- only layers that take part in the parent directory can contribute; a layer that lacks the
    -- name is skipped
    cutIdx d (n :: pp) ((stackIdx d pp).filter fun i => (d.nodeAt i pp).isDir && !(d.nodeAt i (n :: pp)).isAbsent)

/-- SPEC. The union of the layers: the topmost visible entry at each path. -/
def merge (d : Disk) : View := fun p =>
  match stackIdx d p with
  | [] => .none
  | i :: _ => (d.nodeAt i p).view

/-! ## the in-memory forest -/

structure Real where
  layer : Nat
  inUpper : Bool
  path : Path
  whiteout : Bool
  opq : Bool
  deriving DecidableEq, Repr

structure MNode where
  reals : List Real
  whiteout : Bool
  loaded : Bool
  kids : List Name
  deriving DecidableEq, Repr

abbrev Mem := Path → Option MNode

inductive Method where
  | mkdir | create | mknod | symlink | link | unlink | rmdir | setattr | setxattr | removexattr
  | write | openW | createWhiteout | deleteWhiteout | setOpaque
  deriving DecidableEq, Repr

structure Call where
  layer : Nat
  method : Method
  deriving DecidableEq, Repr

structure St where
  disk : Disk
  mem : Mem
  log : List Call
  nextId : Nat

/-! ## state-and-error monad (errors keep the state: failed operations may leave effects) -/

inductive Res (α : Type) where
  | ok (a : α) (s : St)
  | err (e : Nat) (s : St)

def Res.st {α} : Res α → St
  | .ok _ s => s
  | .err _ s => s

abbrev M (α : Type) := St → Res α

def M.pure {α} (a : α) : M α := fun s => .ok a s

def M.bind {α β} (f : M α) (g : α → M β) : M β := fun s =>
  match f s with
  | .ok a s' => g a s'
  | .err e s' => .err e s'

instance : Monad M where
  pure := M.pure
  bind := M.bind

def fail {α} (e : Nat) : M α := fun s => .err e s
def getSt : M St := fun s => .ok s s
def modifySt (f : St → St) : M Unit := fun s => .ok () (f s)

/-- `let _ = f(...)`: the result is dropped, effects stay -/
def ignoreErr (f : M Unit) : M Unit := fun s =>
  match f s with
  | .ok _ s' => .ok () s'
  | .err _ s' => .ok () s'

/-- `lookup_node_ignore_enoent` -/
def catchEnoent {α} (f : M α) : M (Option α) := fun s =>
  match f s with
  | .ok a s' => .ok (some a) s'
  | .err e s' => if e = ENOENT then .ok none s' else .err e s'

def getNode (p : Path) : M MNode := fun s =>
  match s.mem p with
  | some m => .ok m s
  | none => .err ENOENT s

def Mem.set (mem : Mem) (p : Path) (m : Option MNode) : Mem := fun q => if q = p then m else mem q

def setNode (p : Path) (m : MNode) : M Unit := modifySt fun s => { s with mem := s.mem.set p (some m) }

/-- one call of a mutating layer method: logged, then applied to that layer -/
def layerCall (i : Nat) (m : Method) (f : Layer → Except Nat Layer) : M Unit := fun s =>
  let s1 := { s with log := s.log ++ [⟨i, m⟩] }
  match s1.disk.layer i with
  | none => .err ENOENT s1
  | some L =>
    match f L with
    | .error e => .err e s1
    | .ok L' => .ok () { s1 with disk := s1.disk.setLayer i L' }

def freshId : M Nat := fun s => .ok s.nextId { s with nextId := s.nextId + 1 }

/-! ## RealInode -/

def Disk.statReal (d : Disk) (r : Real) : Node := d.nodeAt r.layer r.path

/-- `RealInode::lookup_child` -/
def lookupChild (d : Disk) (r : Real) (n : Name) : Option Real :=
  if r.whiteout then none else
  match d.nodeAt r.layer (n :: r.path) with
  | .absent => none
  | c => some { layer := r.layer, inUpper := r.inUpper, path := n :: r.path,
                whiteout := c.isWhiteout, opq := c.isOpaqueDir }

def childReal (r : Real) (n : Name) : Real :=
  { layer := r.layer, inUpper := true, path := n :: r.path, whiteout := false, opq := false }

/-- `RealInode::{mkdir, create, mknod, symlink}`: refuse a non-upper layer, create, wrap -/
def Real.mkNode (r : Real) (m : Method) (n : Name) (node : Node) : M Real :=
  if !r.inUpper then fail EROFS else do
    layerCall r.layer m (hMk · r.path n node)
    pure (childReal r n)

/-- `RealInode::link` -/
def Real.link (r : Real) (src : Path) (n : Name) : M Real :=
  if !r.inUpper then fail EROFS else do
    layerCall r.layer .link (hLink · src r.path n)
    pure (childReal r n)

/-- `RealInode::create_whiteout` -/
def Real.createWhiteout (r : Real) (n : Name) : M Real :=
  if !r.inUpper then fail EROFS else do
    layerCall r.layer .createWhiteout (hCreateWhiteout · r.path n)
    pure { childReal r n with whiteout := true }

/-! ## OverlayInode -/

/-- `OverlayInode::stat64`: the first real inode that still exists -/
def statReals (d : Disk) : List Real → Option Node
  | [] => none
  | r :: rs => if (d.statReal r).isAbsent then statReals d rs else some (d.statReal r)

def nodeStat (m : MNode) : M Node := fun s =>
  match statReals s.disk m.reals with
  | some n => .ok n s
  | none => .err ENOENT s

def MNode.inUpper (m : MNode) : Bool :=
  match m.reals with
  | r :: _ => r.inUpper
  | [] => false

def MNode.upperLayerOnly (m : MNode) : Bool :=
  match m.reals with
  | [r] => r.inUpper
  | _ => false

/-- the real inodes `scan_childrens` reads / `new_from_real_inodes` keeps below the first one:
    stop before a whiteout or a non-directory, stop after an opaque directory -/
def takeDirs (d : Disk) : List Real → List Real
  | [] => []
  | r :: rs =>
    if r.whiteout then [] else
    if !(d.statReal r).isDir then [] else
    if r.opq then [r] else r :: takeDirs d rs

/-- `OverlayInode::new_from_real_inodes` -/
def newFromReals (d : Disk) : List Real → Option MNode
  | [] => none
  | r :: rs =>
    if r.whiteout || !(d.statReal r).isDir || r.opq then
      some { reals := [r], whiteout := r.whiteout, loaded := false, kids := [] }
    else
      some { reals := r :: takeDirs d rs, whiteout := false, loaded := false, kids := [] }

/-- `OverlayInode::scan_childrens` (per name; the HashMap order is immaterial) -/
def scanKids (d : Disk) (m : MNode) : List (Name × MNode) :=
  names.filterMap fun n =>
    (newFromReals d ((takeDirs d m.reals).filterMap (lookupChild d · n))).map fun k => (n, k)

def insertKids (mem : Mem) (p : Path) (kids : List (Name × MNode)) : Mem := fun q =>
  match q with
  | [] => mem q
  | n :: q' => if q' = p then (match kids.lookup n with | some k => some k | none => mem q) else mem q

def addNames (old new : List Name) : List Name := old.filter (fun n => !new.contains n) ++ new

/-- `if c { f }` as one statement -/
def whenM (c : Bool) (f : M Unit) : M Unit := if c then f else pure ()

/-- `OverlayFs::load_directory` -/
def loadDirectory (p : Path) : M Unit := do
  let m ← getNode p
  if m.loaded then pure () else do
    let st ← nodeStat m
    if !st.isDir then fail ENOTDIR else do
      let s ← getSt
      let kids := scanKids s.disk m
      modifySt fun s => { s with mem := insertKids s.mem p kids }
      setNode p { m with loaded := true, kids := addNames m.kids (kids.map (·.1)) }

/-- `OverlayFs::lookup_node(parent, "")` -/
def lookupSelf (p : Path) : M MNode := do
  let m ← getNode p
  if m.whiteout then fail ENOENT else do
    let st ← nodeStat m
    whenM (st.isDir && !m.loaded) (loadDirectory p)
    getNode p

/-- `OverlayFs::lookup_node(parent, name)` -/
def lookupNode (pp : Path) (n : Name) : M MNode := do
  let pm ← lookupSelf pp
  if pm.kids.contains n then getNode (n :: pp) else fail ENOENT

/-- `OverlayFs::do_lookup`: the attributes the entry reply carries -/
def doLookup (pp : Path) (n : Name) : M Node := do
  let m ← lookupNode pp n
  if m.whiteout then fail ENOENT else do
    let st ← nodeStat m
    whenM (st.isDir && !m.loaded) (loadDirectory (n :: pp))
    pure st

/-- first real inode when it is in the upper layer (`handle_upper_inode_locked` with `Some`) -/
def MNode.upperReal (m : MNode) : Option Real :=
  match m.reals with
  | r :: _ => if r.inUpper then some r else none
  | [] => none

/-- the parent's upper real inode, `EINVAL` ("BUG: parent has no upper inode") otherwise -/
def getUpperReal (p : Path) : M Real := do
  let m ← getNode p
  match m.upperReal with
  | some r => pure r
  | none => fail EINVAL

/-- `OverlayInode::add_upper_inode` -/
def addUpperInode (p : Path) (ri : Real) (clearLowers : Bool) : M Unit := do
  let m ← getNode p
  setNode p { m with whiteout := ri.whiteout, reals := if clearLowers then [ri] else ri :: m.reals }

def Node.mode : Node → Nat
  | .file _ m _ _ => m
  | .dir m _ _ => m
  | .other _ m => m
  | _ => 0o777

/-- `OverlayInode::create_upper_dir(None)`: by recursion on the path towards the root -/
def createUpperDir : Path → M Unit
  | [] => do
    let m ← getNode []
    let st ← nodeStat m
    if !st.isDir then fail ENOTDIR else
    if m.inUpper then pure () else fail EOTHER   -- "no parent?"
  | n :: pp => do
    let m ← getNode (n :: pp)
    let st ← nodeStat m
    if !st.isDir then fail ENOTDIR else
    if m.inUpper then pure () else do
      let pm ← getNode pp
      whenM (!pm.inUpper) (createUpperDir pp)
      let pr ← getUpperReal pp
      let ri ← pr.mkNode .mkdir n (.dir st.mode 0 0)
      addUpperInode (n :: pp) ri false

/-- parent part shared by the three non-directory copy-ups -/
def parentUpperReal (pp : Path) : M Real := do
  let pm ← getNode pp
  whenM (!pm.inUpper) (createUpperDir pp)
  getUpperReal pp

/-- what copy-up creates in the upper layer for a lower non-directory with attributes `st`:
    `copy_symlink_up` a symlink with the same target, `copy_regfile_up` an empty regular file
    with the same mode (content follows, xattrs do not), `copy_special_up` a node with the same
    mode -/
def upperCopy (st : Node) (id : Nat) : Node :=
  match st with
  | .symlink t => .symlink t
  | .file _ mode _ _ => .file id mode [] 0
  | nd => .other id nd.mode

def copyMethod : Node → Method
  | .symlink _ => .symlink
  | .file .. => .create
  | _ => .mknod

/-- `copy_regfile_up`: read the lower file, write it into the new upper file -/
def copyContent (st : Node) (ri : Real) : M Unit :=
  match st with
  | .file _ _ c _ => layerCall ri.layer .write (hWrite · ri.path 0 c)
  | _ => pure ()

/-- `copy_symlink_up` / `copy_special_up` / `copy_regfile_up` for the node `pp/n` with
    attributes `st` -/
def copyFileUp (st : Node) (pp : Path) (n : Name) : M Unit := do
  let pr ← parentUpperReal pp
  let id ← freshId
  let ri ← pr.mkNode (copyMethod st) n (upperCopy st id)
  copyContent st ri
  addUpperInode (n :: pp) ri true

/-- `OverlayFs::copy_node_up` -/
def copyNodeUp (p : Path) : M Unit := do
  let m ← getNode p
  if m.inUpper then pure () else do
    let st ← nodeStat m
    if st.isDir then createUpperDir p else
    match p with
    | [] => fail EOTHER
    | n :: pp => copyFileUp st pp n

def removeSubtree (mem : Mem) (p : Path) : Mem := fun q => if p.isSuffixOf q then none else mem q

def insertChild (pp : Path) (n : Name) (m : MNode) : M Unit := do
  let pm ← getNode pp
  modifySt fun s => { s with mem := (removeSubtree s.mem (n :: pp)).set (n :: pp) (some m) }
  setNode pp { pm with kids := addNames pm.kids [n] }

def removeChild (pp : Path) (n : Name) : M Unit := do
  let pm ← getNode pp
  modifySt fun s => { s with mem := removeSubtree s.mem (n :: pp) }
  setNode pp { pm with kids := pm.kids.filter (· != n) }

def hasUpper : M Bool := fun s => .ok s.disk.upper.isSome s

def newNode (ri : Real) : MNode := { reals := [ri], whiteout := ri.whiteout, loaded := false, kids := [] }

/-- "Node with same name exists, let's check if it's whiteout" -/
def checkOld (old : Option MNode) : M Unit :=
  match old with
  | some o => if !o.whiteout then fail EEXIST else pure ()
  | none => pure ()

def oldInUpper (old : Option MNode) : Bool :=
  match old with
  | some o => o.inUpper
  | none => false

/-- `let _ = layer.delete_whiteout(parent, name)` -/
def tryDeleteWhiteout (pr : Real) (n : Name) : M Unit :=
  ignoreErr (layerCall pr.layer .deleteWhiteout (hDeleteWhiteout · pr.path n))

/-- how the new real inode enters the forest: do_mkdir always makes a new node (and
    `set_opaque` when a whiteout is replaced); the others re-use the whiteout node object -/
def installChild (pp : Path) (n : Name) (isMkdir : Bool) (old : Option MNode) (pr ri : Real) : M Unit :=
  match old with
  | some _ =>
    if isMkdir then do
      layerCall pr.layer .setOpaque (hSetOpaque · ri.path)
      insertChild pp n (newNode ri)
    else addUpperInode (n :: pp) ri true
  | none => insertChild pp n (newNode ri)

/-- common body of do_mkdir / do_mknod / do_create / do_symlink: `mkChild pr` creates the real
    inode under the parent's upper real inode. -/
def doCreateLike (pp : Path) (n : Name) (isMkdir : Bool) (mkChild : Real → M Real) : M Unit := do
  let up ← hasUpper
  if !up then fail EROFS else do
  let pm ← getNode pp
  if pm.whiteout then fail ENOENT else do
  let old ← catchEnoent (lookupNode pp n)
  checkOld old
  copyNodeUp pp
  let pr ← getUpperReal pp
  whenM (oldInUpper old) (tryDeleteWhiteout pr n)
  let ri ← mkChild pr
  installChild pp n isMkdir old pr ri

/-- `OverlayFs::do_link` -/
def doLink (src : Path) (pp : Path) (n : Name) : M Unit := do
  let up ← hasUpper
  if !up then fail EROFS else do
  let sm ← getNode src
  let pm ← getNode pp
  if sm.whiteout || pm.whiteout then fail ENOENT else do
  let st ← nodeStat sm
  if st.isDir then fail EPERM else do
  copyNodeUp src
  copyNodeUp pp
  let sm ← getNode src
  match sm.reals with
  | [] => fail EOTHER
  | sr :: _ => do
    let old ← catchEnoent (lookupNode pp n)
    checkOld old
    let pr ← getUpperReal pp
    whenM (oldInUpper old) (tryDeleteWhiteout pr n)
    let ri ← pr.link sr.path n
    installChild pp n false old pr ri

/-- `count_entries_and_whiteout` -/
def countKids (p : Path) : M (Nat × Nat) := fun s =>
  match s.mem p with
  | none => .err ENOENT s
  | some m =>
    let ks := m.kids.filterMap fun n => s.mem (n :: p)
    .ok ((ks.filter (!·.whiteout)).length, (ks.filter (·.whiteout)).length) s

/-- one child in `empty_node_directory` -/
def emptyOne (p : Path) (r : Real) (n : Name) : M Unit := do
  let s ← getSt
  match s.mem (n :: p) with
  | none => pure ()
  | some c =>
    if c.inUpper then do
      (if c.whiteout then layerCall r.layer .deleteWhiteout (hDeleteWhiteout · r.path n)
       else do
        let cs ← nodeStat c
        if cs.isDir then layerCall r.layer .rmdir (hRmdir · r.path n)
        else layerCall r.layer .unlink (hUnlink · r.path n))
      removeChild p n
    else pure ()

def forNames (f : Name → M Unit) : List Name → M Unit
  | [] => pure ()
  | n :: rest => do
    f n
    forNames f rest

/-- `empty_node_directory` as reached from `do_rm` (every child is a whiteout there; a
    non-whiteout upper child is removed without the recursive descent of the Rust code, which
    `do_rm` never reaches because it returns ENOTEMPTY first) -/
def emptyNodeDirectory (p : Path) : M Unit := do
  let m ← getNode p
  let st ← nodeStat m
  if !st.isDir then fail ENOTDIR else
  match m.upperReal with
  | none => pure ()
  | some r => forNames (emptyOne p r) m.kids

/-- `OverlayFs::lower_entry_exists` -/
def lowerEntryExists (d : Disk) (pm : MNode) (n : Name) : Bool :=
  match (pm.reals.filter (!·.inUpper)).filterMap (lookupChild d · n) with
  | c :: _ => !c.whiteout
  | [] => false

/-- the `if dir { ... }` part of `do_rm` -/
def rmDirPrep (p : Path) : M Unit := do
  loadDirectory p
  let node ← getNode p
  let st ← nodeStat node
  if !st.isDir then fail ENOTDIR else do
  let cw ← countKids p
  if cw.1 > 0 then fail ENOTEMPTY else
  whenM (cw.2 > 0 && node.inUpper) (emptyNodeDirectory p)

/-- the tail of `do_rm` once the parent is copied up -/
def rmFinish (pp : Path) (n : Name) (dir : Bool) (node pm : MNode) (needWhiteout0 : Bool) : M Unit :=
  match pm.upperReal with
  | none => if node.inUpper || needWhiteout0 then fail EINVAL else removeChild pp n
  | some pr => do
    whenM node.inUpper
      (if dir then layerCall pr.layer .rmdir (hRmdir · pr.path n)
       else layerCall pr.layer .unlink (hUnlink · pr.path n))
    removeChild pp n
    if (if node.inUpper && pr.opq then false else needWhiteout0) then do
      let ri ← pr.createWhiteout n
      insertChild pp n (newNode ri)
    else pure ()

/-- `OverlayFs::do_rm` -/
def doRm (pp : Path) (n : Name) (dir : Bool) : M Unit := do
  let up ← hasUpper
  if !up then fail EROFS else do
  let _ ← lookupSelf pp
  let node ← lookupNode pp n
  if node.whiteout then fail ENOENT else do
  whenM dir (rmDirPrep (n :: pp))
  copyNodeUp pp
  let node ← getNode (n :: pp)
  let pm ← getNode pp
  let s ← getSt
  rmFinish pp n dir node pm (!(node.upperLayerOnly && !lowerEntryExists s.disk pm n))

/-- first real inode (`first_layer_inode`) -/
def firstReal (p : Path) : M Real := do
  let m ← getNode p
  match m.reals with
  | r :: _ => pure r
  | [] => fail EOTHER

/-- `open(flags)` + `release`: `write` = any of O_WRONLY/O_RDWR/O_APPEND/O_TRUNC/O_CREAT -/
def doOpen (p : Path) (write trunc : Bool) : M Real := do
  let m ← lookupSelf p
  if m.whiteout then fail ENOENT else do
  whenM write (copyNodeUp p)
  let r ← firstReal p
  whenM write (layerCall r.layer .openW (hOpen · r.path trunc))
  pure r

def appendOff (d : Disk) (r : Real) (append : Bool) (off : Nat) : Nat :=
  if append then (match d.statReal r with | .file _ _ c _ => c.length | _ => 0) else off

/-- OPEN + WRITE + RELEASE on the same handle -/
def doWrite (p : Path) (trunc append : Bool) (off : Nat) (data : List Nat) : M Unit := do
  let r ← doOpen p true trunc
  let s ← getSt
  layerCall r.layer .write (hWrite · r.path (appendOff s.disk r append off) data)

/-- `setattr` (no handle): MODE or SIZE -/
def doSetattr (p : Path) (f : Path → Layer → Except Nat Layer) : M Unit := do
  let up ← hasUpper
  if !up then fail EROFS else do
  let m ← lookupSelf p
  whenM (!m.inUpper) (copyNodeUp p)
  let r ← firstReal p
  layerCall r.layer .setattr (f r.path)

/-- `setxattr` / `removexattr` -/
def doXattr (p : Path) (meth : Method) (f : Path → Layer → Except Nat Layer) : M Unit := do
  let m ← lookupSelf p
  if m.whiteout then fail ENOENT else do
  whenM (!m.inUpper) (copyNodeUp p)
  let r ← firstReal p
  layerCall r.layer meth (f r.path)

/-! ## the client: the kernel VFS walking paths and pre-checking types -/

inductive Kind where | d | f | l | o
  deriving DecidableEq, Repr

def Node.kind : Node → Kind
  | .dir .. => .d
  | .file .. => .f
  | .symlink _ => .l
  | _ => .o

/-- `OverlayFs::import`: root node over every layer root, then load it -/
def rootReal (d : Disk) (i : Nat) : Real :=
  { layer := i, inUpper := i == 0, path := [], whiteout := false, opq := (d.nodeAt i []).isOpaqueDir }

def importFs (d : Disk) : St :=
  let root : MNode := { reals := d.indices.map (rootReal d), whiteout := false, loaded := false, kids := [] }
  let s : St := { disk := d, mem := fun q => if q = [] then some root else none, log := [], nextId := 1000000 }
  (loadDirectory [] s).st

/-- GETATTR of the root -/
def rootStat : M Node := do
  let m ← lookupSelf []
  nodeStat m

/-- component-wise LOOKUP from the root (path given ROOT FIRST); ENOTDIR for a non-directory in
    the middle is the VFS's own answer.  Returns the leaf-first path and the attributes. -/
def resolveFrom : Path → Node → List Name → M (Path × Node)
  | cur, st, [] => pure (cur, st)
  | cur, st, n :: rest =>
    if !st.isDir then fail ENOTDIR else do
      let st' ← doLookup cur n
      resolveFrom (n :: cur) st' rest

def resolve (rootFirst : List Name) : M (Path × Node) := do
  let st ← rootStat
  resolveFrom [] st rootFirst

/-- `rt` = O_RDONLY|O_TRUNC and `ra` = O_RDONLY|O_APPEND: read access mode, yet not read-only opens -/
inductive OFlag where | r | w | rw | wt | wa | rt | ra
  deriving DecidableEq, Repr

def OFlag.isWrite : OFlag → Bool
  | .r => false
  | _ => true

def OFlag.isTrunc : OFlag → Bool
  | .wt => true
  | .rt => true
  | _ => false

inductive Op where
  | lookup (p : List Name)
  | readdir (p : List Name)
  | create (p : List Name) (mode : Nat)
  | mkdir (p : List Name) (mode : Nat)
  | mknod (p : List Name) (mode : Nat)
  | symlink (p : List Name) (target : Nat)
  | link (src dst : List Name)
  | unlink (p : List Name)
  | rmdir (p : List Name)
  | open (p : List Name) (fl : OFlag)
  | write (p : List Name) (fl : OFlag) (off : Nat) (data : List Nat)
  | read (p : List Name)
  | readlink (p : List Name)
  | chmod (p : List Name) (mode : Nat)
  | truncate (p : List Name) (n : Nat)
  | setx (p : List Name) (v : Nat)
  | rmx (p : List Name)
  | getx (p : List Name)
  | walk
  deriving Repr

inductive Reply where
  | done
  | attr (k : Kind) (mode : Nat)
  | names (l : List Name)
  | content (c : List Nat)
  | target (t : Nat)
  | xval (x : Nat)
  | tree (l : List (List Name × VNode))
  deriving Repr

def splitLast : List Name → Option (List Name × Name)
  | [] => none
  | [n] => some ([], n)
  | a :: rest => (splitLast rest).map fun (pp, n) => (a :: pp, n)

/-- resolve the parent directory of a path whose last component is to be created / removed -/
def resolveParent (p : List Name) : M (Path × Name) :=
  match splitLast p with
  | none => fail EINVAL
  | some (pp, n) => do
    let (ppath, pst) ← resolve pp
    if !pst.isDir then fail ENOTDIR else pure (ppath, n)

/-- the visible names of a loaded directory (`do_readdir` without "." and "..") -/
def listDir (p : Path) : M (List Name) := do
  let m ← lookupSelf p            -- opendir: lookup_node(inode, ".")
  if m.whiteout then fail ENOENT else do
  let st ← nodeStat m
  if !st.isDir then fail ENOTDIR else do
  let s ← getSt
  pure (names.filter fun n => m.kids.contains n &&
    (match s.mem (n :: p) with | some c => !c.whiteout | none => false))

/-- the node a client sees at an already looked-up path: attributes, content, target, xattr
    all come from the first real inode -/
def viewOf (p : Path) : M VNode := do
  let r ← firstReal p
  let s ← getSt
  pure (s.disk.statReal r).view

def mapNames {α} (f : Name → M α) : List Name → M (List α)
  | [] => pure []
  | n :: rest => do
    let a ← f n
    let as ← mapNames f rest
    pure (a :: as)

/-- `ls -lR` + `cat` through the overlay: READDIR, then LOOKUP of every listed name -/
def walkFrom : Nat → Path → M (List (List Name × VNode))
  | 0, p => do
    let v ← viewOf p
    pure [(p.reverse, v)]
  | fuel + 1, p => do
    let v ← viewOf p
    match v with
    | .dir .. => do
      let ns ← listDir p
      let subs ← mapNames (fun n => do
        let _ ← doLookup p n
        walkFrom fuel (n :: p)) ns
      pure ((p.reverse, v) :: subs.flatten)
    | _ => pure [(p.reverse, v)]

def walkDepth : Nat := 10

def mkChildOf (m : Method) (n : Name) (node : Node) : Real → M Real := fun pr => pr.mkNode m n node

/-- one client operation -/
def runOp : Op → M Reply
  | .lookup p => do
    let (_, st) ← resolve p
    pure (.attr st.kind (if st.kind == .l then 0 else st.mode))
  | .readdir p => do
    let (path, st) ← resolve p
    if !st.isDir then fail ENOTDIR else do
    let ns ← listDir path
    pure (.names ns)
  | .create p mode => do
    let (pp, n) ← resolveParent p
    let _ ← lookupSelf pp
    let id ← freshId
    doCreateLike pp n false (mkChildOf .create n (.file id mode [] 0))
    let _ ← doLookup pp n
    pure .done
  | .mkdir p mode => do
    let (pp, n) ← resolveParent p
    let _ ← lookupSelf pp
    doCreateLike pp n true (mkChildOf .mkdir n (.dir mode 0 0))
    let _ ← doLookup pp n
    pure .done
  | .mknod p mode => do
    let (pp, n) ← resolveParent p
    let _ ← lookupSelf pp
    let id ← freshId
    doCreateLike pp n false (mkChildOf .mknod n (.other id mode))
    let _ ← doLookup pp n
    pure .done
  | .symlink p t => do
    let (pp, n) ← resolveParent p
    let _ ← lookupSelf pp
    doCreateLike pp n false (mkChildOf .symlink n (.symlink t))
    let _ ← doLookup pp n
    pure .done
  | .link src dst => do
    let (sp, st) ← resolve src
    if st.isDir then fail EPERM else do
    let (pp, n) ← resolveParent dst
    let sm ← lookupSelf sp
    if sm.whiteout then fail ENOENT else do
    let pm ← lookupSelf pp
    if pm.whiteout then fail ENOENT else do
    doLink sp pp n
    let _ ← doLookup pp n
    pure .done
  | .unlink p => do
    let (pp, n) ← resolveParent p
    let st ← doLookup pp n
    if st.isDir then fail EISDIR else do
    doRm pp n false
    pure .done
  | .rmdir p => do
    let (pp, n) ← resolveParent p
    let st ← doLookup pp n
    if !st.isDir then fail ENOTDIR else do
    doRm pp n true
    pure .done
  | .open p fl => do
    let (path, st) ← resolve p
    match st.kind with
    | .d => fail EISDIR
    | .l => fail ELOOP
    | .o => fail ENXIO
    | .f => do
      let _ ← doOpen path fl.isWrite fl.isTrunc
      pure .done
  | .write p fl off data => do
    let (path, st) ← resolve p
    match st.kind with
    | .d => fail EISDIR
    | .l => fail ELOOP
    | .o => fail ENXIO
    | .f => do
      doWrite path fl.isTrunc (fl == .wa) off data
      pure .done
  | .read p => do
    let (path, st) ← resolve p
    match st.kind with
    | .d => fail EISDIR
    | .l => fail ELOOP
    | .o => fail ENXIO
    | .f => do
      let r ← doOpen path false false
      let s ← getSt
      match s.disk.statReal r with
      | .file _ _ c _ => pure (.content c)
      | _ => fail EBADF
  | .readlink p => do
    let (path, st) ← resolve p
    if st.kind != .l then fail EINVAL else do
    let m ← lookupSelf path
    if m.whiteout then fail ENOENT else do
    let r ← firstReal path
    let s ← getSt
    match s.disk.statReal r with
    | .symlink t => pure (.target t)
    | _ => fail EINVAL
  | .chmod p mode => do
    let (path, st) ← resolve p
    if st.kind == .l then fail EOPNOTSUPP else do
    doSetattr path (fun rp L => hChmod L rp mode)
    pure .done
  | .truncate p n => do
    let (path, st) ← resolve p
    match st.kind with
    | .d => fail EISDIR
    | .l => fail ELOOP
    | .o => fail EINVAL
    | .f => do
      doSetattr path (fun rp L => hTruncate L rp n)
      pure .done
  | .setx p v => do
    let (path, st) ← resolve p
    if st.kind == .l || st.kind == .o then fail EPERM else do
    doXattr path .setxattr (fun rp L => hSetX L rp v)
    pure .done
  | .rmx p => do
    let (path, st) ← resolve p
    if st.kind == .l || st.kind == .o then fail EPERM else do
    doXattr path .removexattr (fun rp L => hRmX L rp)
    pure .done
  | .getx p => do
    let (path, st) ← resolve p
    if st.kind == .l || st.kind == .o then fail ENODATA else do
    let m ← lookupSelf path
    if m.whiteout then fail ENOENT else do
    let r ← firstReal path
    let s ← getSt
    pure (.xval (s.disk.statReal r).xattr)
  | .walk => do
    let _ ← rootStat
    let t ← walkFrom walkDepth []
    pure (.tree t)

def Op.isModifying : Op → Bool
  | .create .. | .mkdir .. | .mknod .. | .symlink .. | .link .. | .unlink .. | .rmdir ..
  | .write .. | .chmod .. | .truncate .. | .setx .. | .rmx .. => true
  | .open _ fl => fl.isWrite
  | _ => false

/-- run one operation with an empty call log -/
def step (s : St) (op : Op) : Res Reply := runOp op { s with log := [] }

/-- run a history, keeping every call that was ever logged -/
def run (s : St) : List Op → St
  | [] => s
  | op :: rest => run (runOp op s).st rest

/-- the live view at a (root-first) path: what LOOKUP along the path answers, then the node -/
def liveView (s : St) (p : List Name) : VNode :=
  match (do let (path, _) ← resolve p; viewOf path : M VNode) s with
  | .ok v _ => v
  | .err _ _ => .none

end Fbr.Ovl
