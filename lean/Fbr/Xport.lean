/-
  Fbr.Xport — executable model of the transport cursor machines, function by function in the
  shape of the Rust code:

    src/transport/mod.rs            IoBuffers (allocate_file_volatile_slice, mark_dirty, mark_used,
                                    consume, split_at), Reader (read, read_exact/read_obj, read_to(_at),
                                    read_exact_to, split_at)
    src/transport/virtiofs/mod.rs   Reader::from_descriptor_chain, VirtioFsWriter (new, write,
                                    write_vectored, write_from(_at), write_all_from, split_at, commit)
    src/transport/fusedev/mod.rs    FuseDevWriter (new, split_at, commit, write, write_vectored,
                                    write_from(_at), write_all_from, check_available_space)
    src/common/file_traits.rs       the *default* vectored methods of FileReadWriteVolatile
    src/common/file_buf.rs          `Bytes<usize> for FileVolatileSlice`  (section Adapter)

  Memory is `region id → List UInt8` (`Mem`); a buffer is a `Seg = (region, off, len)`; the dirty log
  (vm-memory `AtomicBitmap` behind `BaseSlice`) is the list of `(region, page index)` pairs that
  were set, for page size `p`.  Every raw copy appends the `(region, off, len)` it touches to
  `World.log`, which is what the in-bounds and dirty-tracking theorems speak about.

  Externals are parameters: the file behind `read_to`/`write_from` is a `Script` (which vectored
  methods it overrides + the answer — short count / error / EINTR — of each call, taken from the
  case line).  Panics are outcomes (`IoErr.panic`).  No Mathlib here: the driver links this file.
-/
namespace Fbr.Xport

abbrev Bytes := List UInt8
/-- guest memory / the borrowed buffers: region id → content (an association list, newest
    binding first; `Mem.get`/`Mem.set` are the whole interface) -/
structure Mem where
  ents : List (Nat × Bytes)

def Mem.get (m : Mem) (r : Nat) : Bytes := (m.ents.lookup r).getD []

/-- `usize::MAX + 1` on the 64-bit targets the crate supports -/
def USIZE : Nat := 2 ^ 64

structure Seg where
  region : Nat
  off : Nat
  len : Nat
  deriving Repr, DecidableEq, Inhabited

/-- one raw memory access performed by a copy loop or handed to a file -/
structure Access where
  region : Nat
  off : Nat
  len : Nat
  write : Bool
  deriving Repr, DecidableEq, Inhabited

abbrev Dirty := List (Nat × Nat)

structure World where
  p : Nat              -- page size of the dirty bitmap
  mem : Mem
  dirty : Dirty
  log : List Access
  fd : List Bytes      -- records written to the /dev/fuse descriptor (one per write/writev)

inductive IoErr where
  | invalidData        -- io::ErrorKind::InvalidData
  | unexpectedEof
  | writeZero
  | interrupted
  | other              -- any other io::Error (the scripted EIO)
  | splitOutOfBounds   -- transport::Error::SplitOutOfBounds
  | chainOverflow      -- transport::Error::DescriptorChainOverflow
  | findRegion         -- transport::Error::FindMemoryRegion
  | guestMemory        -- transport::Error::GuestMemoryError
  | panic (site : String)
  | fuel               -- model artefact: loop bound exhausted (proved unreachable)
  deriving Repr, DecidableEq, Inhabited

/-! ### memory primitives -/

def Mem.set (m : Mem) (r : Nat) (bs : Bytes) : Mem := ⟨(r, bs) :: m.ents.filter (fun e => e.1 != r)⟩

def readSeg (m : Mem) (s : Seg) : Bytes := ((m.get s.region).drop s.off).take s.len

def writeAt (bs : Bytes) (off : Nat) (d : Bytes) : Bytes := bs.take off ++ d ++ bs.drop (off + d.length)

def Mem.write (m : Mem) (r off : Nat) (d : Bytes) : Mem := m.set r (writeAt (m.get r) off d)

/-- concatenated content of a list of buffers -/
def flat (m : Mem) : List Seg → Bytes
  | [] => []
  | s :: rest => readSeg m s ++ flat m rest

def total : List Seg → Nat
  | [] => 0
  | s :: rest => s.len + total rest

/-! ### dirty bitmap: `BaseSlice::mark_dirty` → `AtomicBitmap::set_addr_range` -/

/-- pages `first_bit ..= last_bit` of the range `(off, len)` of region `r`; nothing for `len = 0` -/
def pagesOf (p : Nat) (s : Seg) : Dirty :=
  if s.len = 0 then []
  else (List.range' (s.off / p) ((s.off + s.len - 1) / p - s.off / p + 1)).map fun pg => (s.region, pg)

def markRange (p : Nat) (d : Dirty) (s : Seg) : Dirty := d ++ pagesOf p s

/-! ### IoBuffers -/

structure IoBufs where
  segs : List Seg
  consumed : Nat
  deriving Repr, DecidableEq, Inhabited

/-- `available_bytes`: fold of the lengths -/
def IoBufs.available (b : IoBufs) : Nat := b.segs.foldl (fun c s => c + s.len) 0

/-- `allocate_file_volatile_slice(count)`: the leading buffers, the last one truncated, stopping
    when `rem == 0` (zero-length buffers in front are kept) -/
def allocate : List Seg → Nat → List Seg
  | [], _ => []
  | s :: rest, rem =>
    if rem = 0 then []
    else
      let l : Seg := if s.len > rem then { s with len := rem } else s
      l :: allocate rest (rem - l.len)

/-- the sub-slices `mark_dirty(count)` marks (same loop as `allocate`, written separately in the
    code, so written separately here) -/
def dirtyRanges : List Seg → Nat → List Seg
  | [], _ => []
  | s :: rest, rem =>
    if rem = 0 then []
    else
      let l : Seg := if s.len > rem then { s with len := rem } else s
      l :: dirtyRanges rest (rem - l.len)

def markDirty (w : World) (segs : List Seg) (count : Nat) : World :=
  { w with dirty := (dirtyRanges segs count).foldl (markRange w.p) w.dirty }

/-- the `while let Some(buf) = pop_front()` loop of `mark_used` -/
def markUsedSegs : List Seg → Nat → List Seg
  | [], _ => []
  | s :: rest, rem =>
    if rem < s.len then { s with off := s.off + rem, len := s.len - rem } :: rest
    else markUsedSegs rest (rem - s.len)

def IoBufs.markUsed (b : IoBufs) (n : Nat) : Except IoErr IoBufs :=
  if b.consumed + n ≥ USIZE then .error .invalidData   -- checked_add → DescriptorChainOverflow
  else .ok { segs := markUsedSegs b.segs n, consumed := b.consumed + n }

/-- result of an operation on one cursor: the `Result`, an auxiliary value (bytes obtained, state
    of the scripted file), the cursor and the world afterwards -/
structure Out (α β : Type) where
  res : Except IoErr α
  aux : β
  b : IoBufs
  w : World

/-- `consume(mark_dirty, count, f)`.  `f` gets the world and the offered buffers and answers with
    `Ok(n)` + new world + auxiliary value, or an error (then nothing is consumed). -/
def consume {β : Type} (b : IoBufs) (w : World) (markD : Bool) (count : Nat) (aux0 : β)
    (f : World → List Seg → Except IoErr Nat × World × β) : Out Nat β :=
  let bufs := allocate b.segs count
  if bufs.isEmpty then { res := .ok 0, aux := aux0, b := b, w := w }
  else
    match f w bufs with
    | (.error e, w1, a) => { res := .error e, aux := a, b := b, w := w1 }
    | (.ok n, w1, a) =>
      let w2 := if markD then markDirty w1 b.segs n else w1
      match b.markUsed n with
      | .error e => { res := .error e, aux := a, b := b, w := w2 }
      | .ok b' => { res := .ok n, aux := a, b := b', w := w2 }

/-- `IoBuffers::split_at`: `position` + `split_off` + re-slicing of the border buffer.
    Returns (what stays in `self`, `other`). -/
def splitSegs : List Seg → Nat → Option (List Seg × List Seg)
  | [], rem => if rem = 0 then some ([], []) else none
  | s :: rest, rem =>
    if rem < s.len then
      if rem > 0 then
        some ([{ s with len := rem }], { s with off := s.off + rem, len := s.len - rem } :: rest)
      else some ([], s :: rest)
    else
      match splitSegs rest (rem - s.len) with
      | some (a, o) => some (s :: a, o)
      | none => none

def IoBufs.splitAt (b : IoBufs) (offset : Nat) : Except IoErr (IoBufs × IoBufs) :=
  match splitSegs b.segs offset with
  | some (a, o) => .ok ({ b with segs := a }, { segs := o, consumed := 0 })
  | none => .error .splitOutOfBounds

/-! ### descriptor chain → buffers (`Reader::from_descriptor_chain`, `VirtioFsWriter::new`) -/

structure Desc where
  writable : Bool
  addr : Nat
  len : Nat
  deriving Repr, DecidableEq, Inhabited

/-- guest memory layout: `(region id, guest base, size)` -/
abbrev Layout := List (Nat × Nat × Nat)

def findRegion (lay : Layout) (addr : Nat) : Option (Nat × Nat × Nat) :=
  lay.find? fun (_, base, size) => base ≤ addr ∧ addr < base + size

def fromChainAux (lay : Layout) : List Desc → Nat → List Seg → Except IoErr (List Seg)
  | [], _, acc => .ok acc.reverse
  | d :: rest, tot, acc =>
    if tot + d.len ≥ USIZE then .error .chainOverflow
    else match findRegion lay d.addr with
      | none => .error .findRegion
      | some (r, base, size) =>
        let off := d.addr - base
        -- region.get_slice(offset, len): bounds check of the region
        if off + d.len > size then .error .guestMemory
        else fromChainAux lay rest (tot + d.len) ({ region := r, off := off, len := d.len } :: acc)

/-- `writable = false`: the Reader's constructor; `true`: the writer's -/
def fromChain (lay : Layout) (chain : List Desc) (writable : Bool) : Except IoErr IoBufs :=
  match fromChainAux lay (chain.filter (·.writable == writable)) 0 [] with
  | .ok segs => .ok { segs := segs, consumed := 0 }
  | .error e => .error e

/-! ### the scripted file behind `read_to` / `write_from` -/

inductive Ans where
  | n (k : Nat)   -- transfers at most k bytes
  | err           -- Err(EIO)
  | intr          -- Err(Interrupted)
  deriving Repr, DecidableEq, Inhabited

/-- `full`: overrides the vectored methods (like `File`: readv/writev/preadv/pwritev);
    `dflt`: implements only the four required methods, the trait defaults do the rest -/
inductive Kind where
  | full | dflt
  deriving Repr, DecidableEq, Inhabited

structure Script where
  kind : Kind
  answers : List Ans    -- one per call of an implemented method; exhausted = no limit
  seed : Nat            -- content generator of a source
  pos : Nat             -- cursor of a source (non-`at` calls advance it)
  got : Bytes           -- what a sink has received so far
  offered : List (List Seg)   -- buffers handed to the implemented methods, per call
  deriving Repr, Inhabited

def pat (seed i : Nat) : UInt8 := UInt8.ofNat (((seed * 13 + i * 7 + 1) % 256) ||| 1)

def patBytes (seed start n : Nat) : Bytes := (List.range n).map fun i => pat seed (start + i)

/-- pop the answer for one call -/
def Script.pop (s : Script) : Option Ans × Script :=
  match s.answers with
  | [] => (none, s)
  | a :: rest => (some a, { s with answers := rest })

/-- reading memory: the copy loop `for buf in bufs { copy_len = min(rem.len, buf.len); … }`
    used by `Reader::read` and by a sink that takes `k` bytes -/
def copyOut (w : World) : List Seg → Nat → World × Bytes × Nat
  | [], _ => (w, [], 0)
  | s :: rest, rem =>
    let c := min rem s.len
    let piece := readSeg w.mem { s with len := c }
    let w1 := { w with log := w.log ++ [{ region := s.region, off := s.off, len := c, write := false }] }
    let (w2, bs, t) := copyOut w1 rest (rem - c)
    (w2, piece ++ bs, c + t)

/-- writing memory: `for buf in bufs { copy_len = min(rem.len, buf.len); copy; rem = rem[copy_len..] }` -/
def copyIn (w : World) : List Seg → Bytes → World × Nat
  | [], _ => (w, 0)
  | s :: rest, rem =>
    let c := min rem.length s.len
    let w1 := { w with mem := w.mem.write s.region s.off (rem.take c),
                       log := w.log ++ [{ region := s.region, off := s.off, len := c, write := true }] }
    let (w2, t) := copyIn w1 rest (rem.drop c)
    (w2, c + t)

/-- the implemented sink method on the buffers it is handed (`write_volatile` gets one buffer,
    the overridden vectored methods get all) -/
def Script.sinkCall (s : Script) (w : World) (bufs : List Seg) : Except IoErr Nat × World × Script :=
  let (a, s1) := s.pop
  let s2 := { s1 with offered := s1.offered ++ [bufs] }
  match a with
  | some .err => (.error .other, w, s2)
  | some .intr => (.error .interrupted, w, s2)
  | a =>
    let k := match a with | some (.n k) => min k (total bufs) | _ => total bufs
    let (w1, bs, t) := copyOut w bufs k
    (.ok t, w1, { s2 with got := s2.got ++ bs })

/-- the implemented source method -/
def Script.sourceCall (s : Script) (w : World) (bufs : List Seg) (at_ : Option Nat) :
    Except IoErr Nat × World × Script :=
  let (a, s1) := s.pop
  let s2 := { s1 with offered := s1.offered ++ [bufs] }
  match a with
  | some .err => (.error .other, w, s2)
  | some .intr => (.error .interrupted, w, s2)
  | a =>
    let k := match a with | some (.n k) => min k (total bufs) | _ => total bufs
    let start := match at_ with | some o => o | none => s2.pos
    let (w1, t) := copyIn w bufs (patBytes s2.seed start k)
    (.ok t, w1, { s2 with pos := match at_ with | some _ => s2.pos | none => s2.pos + t })

/-- `write_vectored_volatile` (non-`at`) / `write_vectored_at_volatile` as seen by `read_to(_at)`:
    overridden, or the trait default (first *non-empty* buffer for the plain call, `bufs.first()`
    for the `at` call — DESIGN §7-S5) -/
def Script.writeVectored (s : Script) (w : World) (bufs : List Seg) (at_ : Bool) :
    Except IoErr Nat × World × Script :=
  match s.kind with
  | .full => s.sinkCall w bufs
  | .dflt =>
    if at_ then
      match bufs with
      | [] => (.ok 0, w, s)
      | b :: _ => s.sinkCall w [b]
    else
      match bufs.find? (fun b => b.len ≠ 0) with
      | none => (.ok 0, w, s)
      | some b => s.sinkCall w [b]

def Script.readVectored (s : Script) (w : World) (bufs : List Seg) (at_ : Option Nat) :
    Except IoErr Nat × World × Script :=
  match s.kind with
  | .full => s.sourceCall w bufs at_
  | .dflt =>
    match at_ with
    | some _ =>
      match bufs with
      | [] => (.ok 0, w, s)
      | b :: _ => s.sourceCall w [b] at_
    | none =>
      match bufs.find? (fun b => b.len ≠ 0) with
      | none => (.ok 0, w, s)
      | some b => s.sourceCall w [b] at_

/-! ### Reader -/

/-- `impl io::Read for Reader`: `read(buf)` with `buf.len() = n`; aux = the bytes copied -/
def Reader.read (b : IoBufs) (w : World) (n : Nat) : Out Nat Bytes :=
  consume b w false n [] fun w bufs =>
    let (w1, bs, t) := copyOut w bufs n
    (.ok t, w1, bs)

/-- `std::io::default_read_exact` over `Reader::read` (what `read_obj` calls) -/
def Reader.readExact : Nat → IoBufs → World → Nat → Bytes → Out Unit Bytes
  | 0, b, w, _, acc => { res := .error .fuel, aux := acc, b := b, w := w }
  | fuel + 1, b, w, n, acc =>
    if n = 0 then { res := .ok (), aux := acc, b := b, w := w }
    else
      let o := Reader.read b w n
      match o.res with
      | .ok 0 => { res := .error .unexpectedEof, aux := acc, b := o.b, w := o.w }
      | .ok k => Reader.readExact fuel o.b o.w (n - k) (acc ++ o.aux)
      | .error .interrupted => Reader.readExact fuel o.b o.w n acc
      | .error e => { res := .error e, aux := acc, b := o.b, w := o.w }

/-- `read_obj::<T>()` with `size_of::<T>() = n` -/
def Reader.readObj (b : IoBufs) (w : World) (n : Nat) : Out Unit Bytes :=
  Reader.readExact (n + 1) b w n []

/-- `read_to(dst, count)` / `read_to_at(dst, count, off)` -/
def Reader.readTo (b : IoBufs) (w : World) (dst : Script) (count : Nat) (at_ : Bool) : Out Nat Script :=
  consume b w false count dst fun w bufs => dst.writeVectored w bufs at_

/-- `read_exact_to(dst, count)` -/
def Reader.readExactTo : Nat → IoBufs → World → Script → Nat → Out Unit Script
  | 0, b, w, dst, _ => { res := .error .fuel, aux := dst, b := b, w := w }
  | fuel + 1, b, w, dst, count =>
    if count = 0 then { res := .ok (), aux := dst, b := b, w := w }
    else
      let o := Reader.readTo b w dst count false
      match o.res with
      | .ok 0 => { res := .error .unexpectedEof, aux := o.aux, b := o.b, w := o.w }
      | .ok n => Reader.readExactTo fuel o.b o.w o.aux (count - n)
      | .error .interrupted => Reader.readExactTo fuel o.b o.w o.aux count
      | .error e => { res := .error e, aux := o.aux, b := o.b, w := o.w }

/-! ### VirtioFsWriter -/

/-- `check_available_space(len1, len2, len3)` -/
def VirtioW.checkAvail (b : IoBufs) (l1 l2 l3 : Nat) : Except IoErr Unit :=
  if l1 + l2 ≥ USIZE then .error .invalidData
  else if l1 + l2 + l3 ≥ USIZE then .error .invalidData
  else if l1 + l2 + l3 > b.available then .error .invalidData
  else .ok ()

/-- `impl io::Write for VirtioFsWriter`: `write(buf)` -/
def VirtioW.write (b : IoBufs) (w : World) (data : Bytes) : Out Nat Unit :=
  match VirtioW.checkAvail b data.length 0 0 with
  | .error e => { res := .error e, aux := (), b := b, w := w }
  | .ok () =>
    consume b w true data.length () fun w bufs =>
      let (w1, t) := copyIn w bufs data
      (.ok t, w1, ())

/-- the loop of `write_vectored`: `for buf in bufs.filter(!is_empty) { count += self.write(buf)? }` -/
def VirtioW.writeEach (b : IoBufs) (w : World) : List Bytes → Nat → Out Nat Unit
  | [], count => { res := .ok count, aux := (), b := b, w := w }
  | d :: rest, count =>
    if d.isEmpty then VirtioW.writeEach b w rest count
    else
      let o := VirtioW.write b w d
      match o.res with
      | .error e => { res := .error e, aux := (), b := o.b, w := o.w }
      | .ok n => VirtioW.writeEach o.b o.w rest (count + n)

def VirtioW.writeVectored (b : IoBufs) (w : World) (bufs : List Bytes) : Out Nat Unit :=
  match VirtioW.checkAvail b (bufs.foldl (fun acc x => acc + x.length) 0) 0 0 with
  | .error e => { res := .error e, aux := (), b := b, w := w }
  | .ok () => VirtioW.writeEach b w bufs 0

/-- `write_from(src, count)` (`at_ = none`) / `write_from_at(src, count, off)` -/
def VirtioW.writeFrom (b : IoBufs) (w : World) (src : Script) (count : Nat) (at_ : Option Nat) : Out Nat Script :=
  match VirtioW.checkAvail b count 0 0 with
  | .error e => { res := .error e, aux := src, b := b, w := w }
  | .ok () => consume b w true count src fun w bufs => src.readVectored w bufs at_

/-- `write_all_from(src, count)` -/
def VirtioW.writeAllLoop : Nat → IoBufs → World → Script → Nat → Out Unit Script
  | 0, b, w, src, _ => { res := .error .fuel, aux := src, b := b, w := w }
  | fuel + 1, b, w, src, count =>
    if count = 0 then { res := .ok (), aux := src, b := b, w := w }
    else
      let o := VirtioW.writeFrom b w src count none
      match o.res with
      | .ok 0 => { res := .error .writeZero, aux := o.aux, b := o.b, w := o.w }
      | .ok n => VirtioW.writeAllLoop fuel o.b o.w o.aux (count - n)
      | .error .interrupted => VirtioW.writeAllLoop fuel o.b o.w o.aux count
      | .error e => { res := .error e, aux := o.aux, b := o.b, w := o.w }

def VirtioW.writeAllFrom (b : IoBufs) (w : World) (src : Script) (count : Nat) : Out Unit Script :=
  match VirtioW.checkAvail b count 0 0 with
  | .error e => { res := .error e, aux := src, b := b, w := w }
  | .ok () => VirtioW.writeAllLoop (count + src.answers.length + 1) b w src count

/-- `commit(other)`: nothing to do on virtio-fs -/
def VirtioW.commit (_b : IoBufs) (_other : Option IoBufs) : Except IoErr Nat := .ok 0

/-! ### FuseDevWriter: a `Vec<u8>` of length `len` and capacity `cap` laid over the borrowed
    buffer at `(region, base)` -/

structure FuseW where
  region : Nat
  base : Nat
  len : Nat
  cap : Nat
  buffered : Bool
  deriving Repr, DecidableEq, Inhabited

structure FOut (α β : Type) where
  res : Except IoErr α
  aux : β
  f : FuseW
  w : World

/-- `write(fd, r)`: one record on the descriptor — also when `r` is empty (the harness's descriptor is
    a SOCK_SEQPACKET socket, which queues a zero-length record for `write`) -/
def World.fdWrite (w : World) (r : Bytes) : World := { w with fd := w.fd ++ [r] }

/-- `writev(fd, bufs)`: one record, except that the kernel returns 0 at once and queues nothing
    when the total length is zero -/
def World.fdWritev (w : World) (r : Bytes) : World :=
  if r.isEmpty then w else { w with fd := w.fd ++ [r] }

def FuseW.new (region base cap : Nat) : FuseW :=
  { region := region, base := base, len := 0, cap := cap, buffered := false }

def FuseW.bytesWritten (f : FuseW) : Nat := f.len
/-- `capacity() - len()`: panics on underflow in a build with overflow checks -/
def FuseW.availableBytes (f : FuseW) : Nat := f.cap - f.len

/-- `self.buf.as_slice()` -/
def FuseW.slice (f : FuseW) (m : Mem) : Bytes := readSeg m { region := f.region, off := f.base, len := f.len }

def FuseW.splitAt (f : FuseW) (offset : Nat) : Except IoErr (FuseW × FuseW) :=
  if f.cap < offset then .error .splitOutOfBounds
  else
    let (len1, len2) := if f.len > offset then (offset, f.len - offset) else (f.len, 0)
    .ok ({ f with len := len1, cap := offset, buffered := true },
         { region := f.region, base := f.base + offset, len := len2, cap := f.cap - offset, buffered := true })

/-- `check_available_space(sz)` -/
def FuseW.checkAvail (f : FuseW) (sz : Nat) : Except IoErr Unit :=
  if ¬ (f.buffered ∨ f.len = 0) then .error (.panic "assert buffered || buf.is_empty()")
  else if f.len > f.cap then .error (.panic "capacity - len underflow")
  else if sz > f.availableBytes then .error .invalidData
  else .ok ()

/-- `extend_from_slice(data)`; the Vec would reallocate (and leave the borrowed buffer) if the
    data did not fit — an explicit outcome, proved unreachable -/
def FuseW.extend (f : FuseW) (w : World) (data : Bytes) : Except IoErr (FuseW × World) :=
  if f.len + data.length > f.cap then .error (.panic "realloc of borrowed buffer")
  else .ok ({ f with len := f.len + data.length },
            { w with mem := w.mem.write f.region (f.base + f.len) data,
                     log := w.log ++ [{ region := f.region, off := f.base + f.len, len := data.length, write := true }] })

/-- `impl Write for FuseDevWriter`: `write(data)` -/
def FuseW.write (f : FuseW) (w : World) (data : Bytes) : FOut Nat Unit :=
  match f.checkAvail data.length with
  | .error e => { res := .error e, aux := (), f := f, w := w }
  | .ok () =>
    if f.buffered then
      match f.extend w data with
      | .error e => { res := .error e, aux := (), f := f, w := w }
      | .ok (f1, w1) => { res := .ok data.length, aux := (), f := f1, w := w1 }
    else
      -- do_write(fd, data) then account_written(x): the length grows, the buffer is not filled
      { res := .ok data.length, aux := (), f := { f with len := f.len + data.length },
        w := w.fdWrite data }

def FuseW.extendAll (f : FuseW) (w : World) : List Bytes → Nat → Except IoErr (FuseW × World × Nat)
  | [], count => .ok (f, w, count)
  | d :: rest, count =>
    if d.isEmpty then FuseW.extendAll f w rest count
    else match f.extend w d with
      | .error e => .error e
      | .ok (f1, w1) => FuseW.extendAll f1 w1 rest (count + d.length)

def FuseW.writeVectored (f : FuseW) (w : World) (bufs : List Bytes) : FOut Nat Unit :=
  match f.checkAvail (bufs.foldl (fun acc x => acc + x.length) 0) with
  | .error e => { res := .error e, aux := (), f := f, w := w }
  | .ok () =>
    if f.buffered then
      match FuseW.extendAll f w bufs 0 with
      | .error e => { res := .error e, aux := (), f := f, w := w }
      | .ok (f1, w1, count) => { res := .ok count, aux := (), f := f1, w := w1 }
    else if bufs.isEmpty then { res := .ok 0, aux := (), f := f, w := w }
    else
      let rec_ := bufs.foldl (· ++ ·) []
      { res := .ok rec_.length, aux := (), f := { f with len := f.len + rec_.length },
        w := w.fdWritev rec_ }

/-- `write_from` / `write_from_at`: one buffer `[buf.ptr + len, count)` handed to the source -/
def FuseW.writeFrom (f : FuseW) (w : World) (src : Script) (count : Nat) (at_ : Option Nat) : FOut Nat Script :=
  match f.checkAvail count with
  | .error e => { res := .error e, aux := src, f := f, w := w }
  | .ok () =>
    match src.readVectored w [{ region := f.region, off := f.base + f.len, len := count }] at_ with
    | (.error e, w1, s1) => { res := .error e, aux := s1, f := f, w := w1 }
    | (.ok cnt, w1, s1) =>
      let f1 := { f with len := f.len + cnt }       -- account_written
      if f.buffered then { res := .ok cnt, aux := s1, f := f1, w := w1 }
      else
        -- do_write(fd, &self.buf[..cnt])
        let rec_ := readSeg w1.mem { region := f.region, off := f.base, len := cnt }
        { res := .ok cnt, aux := s1, f := f1, w := w1.fdWrite rec_ }

def FuseW.writeAllLoop : Nat → FuseW → World → Script → Nat → FOut Unit Script
  | 0, f, w, src, _ => { res := .error .fuel, aux := src, f := f, w := w }
  | fuel + 1, f, w, src, count =>
    if count = 0 then { res := .ok (), aux := src, f := f, w := w }
    else
      let o := FuseW.writeFrom f w src count none
      match o.res with
      | .ok 0 => { res := .error .writeZero, aux := o.aux, f := o.f, w := o.w }
      | .ok n => FuseW.writeAllLoop fuel o.f o.w o.aux (count - n)
      | .error .interrupted => FuseW.writeAllLoop fuel o.f o.w o.aux count
      | .error e => { res := .error e, aux := o.aux, f := o.f, w := o.w }

def FuseW.writeAllFrom (f : FuseW) (w : World) (src : Script) (count : Nat) : FOut Unit Script :=
  match f.checkAvail count with
  | .error e => { res := .error e, aux := src, f := f, w := w }
  | .ok () => FuseW.writeAllLoop (count + src.answers.length + 1) f w src count

/-- `commit(other)`: one `write`/`writev` of `self.buf ++ other.buf` -/
def FuseW.commit (f : FuseW) (w : World) (other : Option FuseW) : Except IoErr Nat × World :=
  if ¬ f.buffered then (.ok 0, w)
  else
    let o : Bytes := match other with | some g => g.slice w.mem | none => []
    let s := f.slice w.mem
    match s.length, o.length with
    | 0, 0 => (.ok 0, w)
    | 0, _ => (.ok o.length, w.fdWrite o)
    | _, 0 => (.ok s.length, w.fdWrite s)
    | _, _ => (.ok (s.length + o.length), w.fdWritev (s ++ o))

/-! ### Adapter: `Bytes<usize> for FileVolatileSlice` over a plain byte list of length `len`
    (delegating to `VolatileSlice`, vm-memory 0.17) -/

inductive VErr where
  | outOfBounds (addr : Nat)
  | partialBuffer (expected completed : Nat)
  | misaligned
  deriving Repr, DecidableEq, Inhabited

namespace Adapter

/-- `write(buf, addr)`: copies `min(buf.len, len - addr)` bytes; returns the new slice and count -/
def write (sl : Bytes) (buf : Bytes) (addr : Nat) : Except VErr (Bytes × Nat) :=
  if buf.isEmpty then .ok (sl, 0)
  else if addr ≥ sl.length then .error (.outOfBounds addr)
  else
    let c := min buf.length (sl.length - addr)
    .ok (writeAt sl addr (buf.take c), c)

/-- `read(buf, addr)` with `buf.len() = n`: the bytes obtained -/
def read (sl : Bytes) (n : Nat) (addr : Nat) : Except VErr Bytes :=
  if n = 0 then .ok []
  else if addr ≥ sl.length then .error (.outOfBounds addr)
  else .ok ((sl.drop addr).take n)

def writeSlice (sl : Bytes) (buf : Bytes) (addr : Nat) : Except VErr Bytes × Bytes :=
  match write sl buf addr with
  | .error e => (.error e, sl)
  | .ok (sl', c) => if c ≠ buf.length then (.error (.partialBuffer buf.length c), sl') else (.ok [], sl')

/-- `read_slice`: the caller's buffer (length `n`, old content `old`) afterwards -/
def readSlice (sl : Bytes) (old : Bytes) (addr : Nat) : Except VErr Unit × Bytes :=
  match read sl old.length addr with
  | .error e => (.error e, old)
  | .ok bs =>
    let buf' := bs ++ old.drop bs.length
    if bs.length ≠ old.length then (.error (.partialBuffer old.length bs.length), buf') else (.ok (), buf')

/-- `load::<T>(addr)` / `store::<T>(val, addr)` for an integer of `width` bytes, the slice
    starting at an address that is `0 mod width`-aligned plus `basealign` -/
def load (sl : Bytes) (width addr basealign : Nat) : Except VErr Bytes :=
  if addr + width > sl.length then .error (.outOfBounds (addr + width))
  else if (basealign + addr) % width ≠ 0 then .error .misaligned
  else .ok ((sl.drop addr).take width)

def store (sl : Bytes) (val : Bytes) (addr basealign : Nat) : Except VErr Unit × Bytes :=
  if addr + val.length > sl.length then (.error (.outOfBounds (addr + val.length)), sl)
  else if (basealign + addr) % val.length ≠ 0 then (.error .misaligned, sl)
  else (.ok (), writeAt sl addr val)

end Adapter

end Fbr.Xport
