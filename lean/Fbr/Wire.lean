/-
  Fbr.Wire — little-endian codecs over `List UInt8` (no Mathlib; used by model and drivers).
-/
namespace Fbr.Wire

abbrev Bytes := List UInt8

/-- `n` little-endian bytes of `v` (the low `8n` bits) -/
def le : Nat → Nat → Bytes
  | 0, _ => []
  | n + 1, v => UInt8.ofNat (v % 256) :: le n (v / 256)

def le16 (v : Nat) : Bytes := le 2 v
def le32 (v : Nat) : Bytes := le 4 v
def le64 (v : Nat) : Bytes := le 8 v

/-- value of a little-endian byte string -/
def de : Bytes → Nat
  | [] => 0
  | b :: rest => b.toNat + 256 * de rest

/-- `w`-byte little-endian field at offset `off`; missing bytes read as absent (shorter list) -/
def fld (bs : Bytes) (off w : Nat) : Nat := de ((bs.drop off).take w)

def u32At (bs : Bytes) (off : Nat) : Nat := fld bs off 4
def u64At (bs : Bytes) (off : Nat) : Nat := fld bs off 8
def u16At (bs : Bytes) (off : Nat) : Nat := fld bs off 2

def zeros (n : Nat) : Bytes := List.replicate n 0

@[simp] theorem le_length (n v : Nat) : (le n v).length = n := by
  induction n generalizing v with
  | zero => rfl
  | succ n ih => simp [le, ih]

theorem de_le (n v : Nat) : de (le n v) = v % 256 ^ n := by
  induction n generalizing v with
  | zero => simp [le, de, Nat.mod_one]
  | succ n ih =>
    simp only [le, de, ih]
    have h : (UInt8.ofNat (v % 256)).toNat = v % 256 := by
      simp [UInt8.toNat_ofNat']
    rw [h, Nat.pow_succ, Nat.mul_comm (256 ^ n) 256]
    rw [Nat.mod_mul]

theorem de_le_of_lt (n v : Nat) (h : v < 256 ^ n) : de (le n v) = v := by
  rw [de_le, Nat.mod_eq_of_lt h]

theorem de_append_le (n v : Nat) (rest : Bytes) : de ((le n v ++ rest).take n) = v % 256 ^ n := by
  have : (le n v ++ rest).take n = le n v := by
    rw [List.take_append_of_le_length (by simp)]
    simp [List.take_of_length_le]
  rw [this, de_le]

theorem de_lt (bs : Bytes) : de bs < 256 ^ bs.length := by
  induction bs with
  | nil => simp [de]
  | cons b rest ih =>
    simp only [de, List.length_cons, Nat.pow_succ]
    have hb : b.toNat < 256 := b.toNat_lt
    omega

theorem fld_lt (bs : Bytes) (off w : Nat) : fld bs off w < 256 ^ w := by
  unfold fld
  have h := de_lt ((bs.drop off).take w)
  have hl : ((bs.drop off).take w).length ≤ w := by simp [List.length_take]; omega
  exact Nat.lt_of_lt_of_le h (Nat.pow_le_pow_right (by decide) hl)

end Fbr.Wire
