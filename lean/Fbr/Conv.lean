/-
  Fbr.Conv — model of the conversions between host data and wire attributes
  (`Attr::with_flags`, `From<Attr> for stat64`, `From<SetattrIn> for stat64`,
  `From<statvfs64> for Kstatfs`, `From<Entry> for EntryOut`, `Context::from(&InHeader)`).

  Numbers: every integer is the `Nat` image of its bit pattern (signed host fields such as
  `st_size : i64` are carried as their two's-complement `u64` image), so `x as u64`/`as i64`
  between 64-bit types are the identity, `u32 → i64`/`u64` are zero extensions (identity on the
  image) and `as u32` from a 64-bit field is `% 2^32`.  x86_64 field widths: `st_nlink : u64`,
  `st_rdev : u64`, `st_blksize : i64`, `st_mode : u32`, `*_nsec : i64`.
-/
namespace Fbr.Conv

def u32 : Nat := 2 ^ 32
def u64 : Nat := 2 ^ 64

/-- the fields of `libc::stat64` the wire format can carry -/
structure Stat where
  ino : Nat
  size : Nat
  blocks : Nat
  atime : Nat
  mtime : Nat
  ctime : Nat
  atimeNsec : Nat
  mtimeNsec : Nat
  ctimeNsec : Nat
  mode : Nat
  nlink : Nat
  uid : Nat
  gid : Nat
  rdev : Nat
  blksize : Nat
  deriving Repr, DecidableEq, Inhabited

/-- wire `fuse_attr` -/
structure Attr where
  ino : Nat
  size : Nat
  blocks : Nat
  atime : Nat
  mtime : Nat
  ctime : Nat
  atimensec : Nat
  mtimensec : Nat
  ctimensec : Nat
  mode : Nat
  nlink : Nat
  uid : Nat
  gid : Nat
  rdev : Nat
  blksize : Nat
  flags : Nat
  deriving Repr, DecidableEq, Inhabited

/-- `Attr::with_flags(st, flags)` -/
def attrWithFlags (st : Stat) (flags : Nat) : Attr :=
  { ino := st.ino, size := st.size, blocks := st.blocks,
    atime := st.atime, mtime := st.mtime, ctime := st.ctime,
    atimensec := st.atimeNsec % u32, mtimensec := st.mtimeNsec % u32, ctimensec := st.ctimeNsec % u32,
    mode := st.mode, nlink := st.nlink % u32, uid := st.uid, gid := st.gid,
    rdev := st.rdev % u32, blksize := st.blksize % u32, flags := flags }

/-- `impl From<stat64> for Attr` -/
def attrOfStat (st : Stat) : Attr := attrWithFlags st 0

/-- `impl From<Attr> for stat64` (all other host fields are zero) -/
def statOfAttr (a : Attr) : Stat :=
  { ino := a.ino, size := a.size, blocks := a.blocks, atime := a.atime, mtime := a.mtime,
    ctime := a.ctime, atimeNsec := a.atimensec, mtimeNsec := a.mtimensec, ctimeNsec := a.ctimensec,
    mode := a.mode, nlink := a.nlink, uid := a.uid, gid := a.gid, rdev := a.rdev,
    blksize := a.blksize }

/-- wire `fuse_setattr_in`, the fields `From<SetattrIn> for stat64` reads -/
structure SetattrIn where
  valid : Nat
  fh : Nat
  size : Nat
  lockOwner : Nat
  atime : Nat
  mtime : Nat
  ctime : Nat
  atimensec : Nat
  mtimensec : Nat
  ctimensec : Nat
  mode : Nat
  uid : Nat
  gid : Nat
  deriving Repr, DecidableEq, Inhabited

/-- `impl From<SetattrIn> for stat64` -/
def statOfSetattr (s : SetattrIn) : Stat :=
  { ino := 0, size := s.size, blocks := 0, atime := s.atime, mtime := s.mtime, ctime := s.ctime,
    atimeNsec := s.atimensec, mtimeNsec := s.mtimensec, ctimeNsec := s.ctimensec,
    mode := s.mode, nlink := 0, uid := s.uid, gid := s.gid, rdev := 0, blksize := 0 }

structure Statvfs where
  blocks : Nat
  bfree : Nat
  bavail : Nat
  files : Nat
  ffree : Nat
  bsize : Nat
  namemax : Nat
  frsize : Nat
  deriving Repr, DecidableEq, Inhabited

structure Kstatfs where
  blocks : Nat
  bfree : Nat
  bavail : Nat
  files : Nat
  ffree : Nat
  bsize : Nat
  namelen : Nat
  frsize : Nat
  deriving Repr, DecidableEq, Inhabited

/-- `impl From<statvfs64> for Kstatfs` (padding and spare are zero) -/
def kstatfsOfStatvfs (s : Statvfs) : Kstatfs :=
  { blocks := s.blocks, bfree := s.bfree, bavail := s.bavail, files := s.files, ffree := s.ffree,
    bsize := s.bsize % u32, namelen := s.namemax % u32, frsize := s.frsize % u32 }

/-- `api::filesystem::Entry`; a `Duration` is (secs, subsec nanos) -/
structure Entry where
  inode : Nat
  generation : Nat
  attr : Stat
  attrFlags : Nat
  attrSecs : Nat
  attrNanos : Nat
  entrySecs : Nat
  entryNanos : Nat
  deriving Repr, DecidableEq, Inhabited

structure EntryOut where
  nodeid : Nat
  generation : Nat
  entryValid : Nat
  attrValid : Nat
  entryValidNsec : Nat
  attrValidNsec : Nat
  attr : Attr
  deriving Repr, DecidableEq, Inhabited

/-- `impl From<Entry> for EntryOut` -/
def entryOutOfEntry (e : Entry) : EntryOut :=
  { nodeid := e.inode, generation := e.generation, entryValid := e.entrySecs,
    attrValid := e.attrSecs, entryValidNsec := e.entryNanos, attrValidNsec := e.attrNanos,
    attr := attrWithFlags e.attr e.attrFlags }

/-- The source text of the conversion functions this model was written from, in the
    translator's normal form (spaces removed).  `Thm.C13.convs_as_modelled` proves the table
    regenerated from today's source equals this one. -/
def expectedConvs : List (String × String × String × List (String × String)) := [
  ("Attr", "From<stat64>", "from", []),
  ("Attr", "", "with_flags", [("ino", "st.st_ino"), ("size", "st.st_sizeasu64"), ("blocks", "st.st_blocksasu64"), ("atime", "st.st_atimeasu64"), ("mtime", "st.st_mtimeasu64"), ("ctime", "st.st_ctimeasu64"), ("atimensec", "st.st_atime_nsecasu32"), ("mtimensec", "st.st_mtime_nsecasu32"), ("ctimensec", "st.st_ctime_nsecasu32"), ("mode", "st.st_mode"), ("nlink", "st.st_nlinkasu32"), ("uid", "st.st_uid"), ("gid", "st.st_gid"), ("rdev", "st.st_rdevasu32"), ("blksize", "st.st_blksizeasu32"), ("flags", "flags")]),
  ("stat64", "From<Attr>", "from", [("out.st_ino", "attr.ino"), ("out.st_size", "attr.sizeasi64"), ("out.st_blocks", "attr.blocksasi64"), ("out.st_atime", "attr.atimeasi64"), ("out.st_mtime", "attr.mtimeasi64"), ("out.st_ctime", "attr.ctimeasi64"), ("out.st_atime_nsec", "attr.atimensecasi64"), ("out.st_mtime_nsec", "attr.mtimensecasi64"), ("out.st_ctime_nsec", "attr.ctimensecasi64"), ("out.st_mode", "attr.modeasmode_t"), ("out.st_nlink", "attr.nlinkasnlink_t"), ("out.st_uid", "attr.uid"), ("out.st_gid", "attr.gid"), ("out.st_rdev", "attr.rdevasdev_t"), ("out.st_blksize", "attr.blksizeasblksize_t")]),
  ("Kstatfs", "From<statvfs64>", "from", [("blocks", "st.f_blocks"), ("bfree", "st.f_bfree"), ("bavail", "st.f_bavail"), ("files", "st.f_files"), ("ffree", "st.f_ffree"), ("bsize", "st.f_bsizeasu32"), ("namelen", "st.f_namemaxasu32"), ("frsize", "st.f_frsizeasu32"), ("..", "Default::default()")]),
  ("stat64", "From<SetattrIn>", "from", [("out.st_mode", "setattr.modeasmode_t"), ("out.st_uid", "setattr.uid"), ("out.st_gid", "setattr.gid"), ("out.st_size", "setattr.sizeasi64"), ("out.st_atime", "setattr.atimeasi64"), ("out.st_mtime", "setattr.mtimeasi64"), ("out.st_ctime", "setattr.ctimeasi64"), ("out.st_atime_nsec", "i64::from(setattr.atimensec)"), ("out.st_mtime_nsec", "i64::from(setattr.mtimensec)"), ("out.st_ctime_nsec", "i64::from(setattr.ctimensec)")]),
  ("fuse :: EntryOut", "From<Entry>", "from", [("nodeid", "entry.inode"), ("generation", "entry.generation"), ("entry_valid", "entry.entry_timeout.as_secs()"), ("attr_valid", "entry.attr_timeout.as_secs()"), ("entry_valid_nsec", "entry.entry_timeout.subsec_nanos()"), ("attr_valid_nsec", "entry.attr_timeout.subsec_nanos()"), ("attr", "fuse::Attr::with_flags(entry.attr,entry.attr_flags)")]),
  ("FileLock", "From<fuse::FileLock>", "from", [("start", "l.start"), ("end", "l.end"), ("lock_type", "l.type_"), ("pid", "l.pid")]),
  ("fuse :: FileLock", "From<FileLock>", "from", [("start", "l.start"), ("end", "l.end"), ("type_", "l.lock_type"), ("pid", "l.pid")]),
  ("Context", "From<&fuse::InHeader>", "from", [("uid", "source.uid"), ("gid", "source.gid"), ("pid", "source.pidasi32")])
]

end Fbr.Conv
