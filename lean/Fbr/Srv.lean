/-
  Fbr.Srv — executable model of `Server::handle_message` (src/api/server/sync_io.rs, mod.rs),
  written handler by handler in the shape of the Rust code.

  * the request is the flat byte string the `Reader` presents (C04 proves the transports
    present exactly the request bytes in order, whatever the segmentation);
  * the reply `Writer` is the flat cursor of C04's specification: capacity `cap`; on /dev/fuse
    every `write`/`writev` on the fd is one element of `Out.sys`, on virtio-fs every store into
    the writable area is an `(offset, bytes)` element of `Out.placed`;
  * the file system behind the server is an arbitrary function `Call → Ans` (an argument of
    every theorem; scripted by the case line in the correspondence run);
  * `Ret` is the `Result<usize>` of `handle_message`; panics are an explicit outcome.
-/
import Fbr.Wire
import Fbr.Conv

namespace Fbr.Srv
open Fbr.Wire Fbr.Conv

/-! ### constants (values are pinned against the generated tables in `Thm.C01/C02`) -/
def MAX_BUFFER_SIZE : Nat := 1048576
def BUFFER_HEADER_SIZE : Nat := 4096
def MIN_READ_BUFFER : Nat := 8192
def MAX_REQ_PAGES : Nat := 256
def KERNEL_VERSION : Nat := 7
def KERNEL_MINOR_VERSION : Nat := 33
def IN_HDR : Nat := 40
def OUT_HDR : Nat := 16
def ENTRY_OUT : Nat := 128
def DIRENT : Nat := 24

def ENOENT := 2
def EIO := 5
def ENOMEM := 12
def EINVAL := 22
def ENOTTY := 25
def ENOSYS := 38
def EPROTO := 71
def EOVERFLOW := 75

/-! ### file-system interface -/

structure Ctx where
  uid : Nat
  gid : Nat
  pid : Nat
  deriving Repr, DecidableEq, Inhabited

/-- `io::Error` as the server sees it: an OS errno, or a non-OS error of some kind -/
inductive IoErr where
  | os (errno : Nat)        -- raw_os_error = Some(errno) (i32 image as u32)
  | kind (name : String)    -- io::Error::new(kind, ..): raw_os_error = None
  deriving Repr, DecidableEq, Inhabited

/-- `encode_io_error_kind` (src/lib.rs) -/
def encodeKind (k : String) : Nat :=
  if k = "PermissionDenied" then 13       -- EPERM | EACCES = 1 | 13
  else if k = "NotFound" then 2
  else if k = "Interrupted" then 4
  else if k = "AlreadyExists" then 17
  else if k = "WouldBlock" then 11
  else 5

/-- the `error` field of the reply header: `-(raw_os_error or encoded kind)` as i32 bits -/
def errField (e : IoErr) : Nat :=
  match e with
  | .os n => (2 ^ 32 - n % 2 ^ 32) % 2 ^ 32
  | .kind k => 2 ^ 32 - encodeKind k

inductive Arg where
  | n (v : Nat)
  | optN (v : Option Nat)
  | b (v : Bool)
  | bytes (v : Bytes)
  | stat (s : Stat)
  | pairs (l : List (Nat × Nat))
  | create (flags mode umask fuseFlags : Nat)
  | lock (start end_ type pid : Nat)
  deriving Repr, DecidableEq, Inhabited

structure Call where
  method : String
  ctx : Ctx
  args : List Arg
  deriving Repr, DecidableEq, Inhabited

structure DirEnt where
  ino : Nat
  off : Nat
  type : Nat
  name : Bytes
  deriving Repr, DecidableEq, Inhabited

/-- what the file system returns -/
inductive Ans where
  | err (e : IoErr)
  | unit
  | remapSet (uid gid : Nat)                    -- id_remap_with_nodeid rewrote the context
  | entry (e : Entry)
  | attr (st : Stat) (secs nanos : Nat)
  | data (b : Bytes)                            -- readlink / xattr value / names / read payload
  | opened (fh : Option Nat) (opts : Nat) (pt : Option Nat)
  | created (e : Entry) (fh : Option Nat) (opts : Nat) (pt : Option Nat)
  | count (n : Nat)                             -- write / xattr size / bmap / lseek / poll
  | statfs (s : Statvfs)
  | lock (start end_ type pid : Nat)
  | ioctl (result : Nat) (data : Option Bytes)
  | want (opts : Nat)                           -- init
  /-- readdir(plus): the entries the fs offers, in order; for plus, the entry attached to each;
      `propagate` = the fs returns the callback's error instead of stopping quietly -/
  | dirents (ds : List (DirEnt × Entry)) (propagate : Bool)
  deriving Repr, Inhabited

/-! ### result -/

inductive SrvErr where
  | decodeMessage | encodeMessage | missingParameter | invalidCString | invalidHeaderLength
  | invalidXattrSize | invalidMessage | failedToWrite | failedToSplitWriter | failedToRemapID
  deriving Repr, DecidableEq, Inhabited

inductive Ret where
  | ok (n : Nat)
  | err (e : SrvErr)
  | panic (site : String)
  deriving Repr, DecidableEq, Inhabited

structure Out where
  /-- /dev/fuse: one element per `write`/`writev` system call on the session fd -/
  sys : List Bytes := []
  /-- virtio-fs: the bytes the server stored into the writable descriptor area, as the final
      content of its prefix (offset 0 upward; header and payload stores of split writers are
      adjacent, so the area content is their concatenation) -/
  area : Bytes := []
  deriving Repr, DecidableEq, Inhabited

structure Cfg where
  fusedev : Bool
  cap : Nat            -- reply capacity in bytes
  minor : Nat := 33    -- negotiated minor version stored in the server
  hasVuReq : Bool := false
  pagesize : Nat := 4096
  deriving Repr, DecidableEq, Inhabited

structure Res where
  calls : List Call := []
  out : Out := {}
  ret : Ret := .ok 0
  minor : Nat := 33
  /-- sizes of heap allocations whose size comes from request fields -/
  allocs : List Nat := []
  deriving Repr, Inhabited

/-! ### wire helpers -/

def outHeader (len err unique : Nat) : Bytes := le32 len ++ le32 err ++ le64 unique

/-- emit a complete message at the start of an unsplit writer -/
def emit (cfg : Cfg) (msg : Bytes) : Out :=
  if cfg.fusedev then { sys := [msg] } else { area := msg }

/-- `SrvContext::reply_ok(out, data)`: header + body + data in one `write`/`write_vectored` -/
def replyOk (cfg : Cfg) (unique : Nat) (body data : Bytes) : Out × Ret :=
  let len := OUT_HDR + body.length + data.length
  let msg := outHeader len 0 unique ++ body ++ data
  if len > cfg.cap then ({}, .err .encodeMessage) else (emit cfg msg, .ok len)

/-- `SrvContext::do_reply_error` on an unsplit writer -/
def replyErr (cfg : Cfg) (unique : Nat) (e : IoErr) : Out × Ret :=
  if OUT_HDR > cfg.cap then ({}, .err .encodeMessage)
  else (emit cfg (outHeader OUT_HDR (errField e) unique), .ok OUT_HDR)

/-- first NUL-terminated string of `buf` without the NUL (`bytes_to_cstr`); none if no NUL -/
def cstr (buf : Bytes) : Option Bytes :=
  if buf.contains 0 then some (buf.takeWhile (· != 0)) else none

/-- `ServerUtil::extract_two_cstrs` -/
def twoCstrs (buf : Bytes) : Except SrvErr (Bytes × Bytes) :=
  if buf.contains 0 then
    let first := buf.takeWhile (· != 0)
    let rest := buf.drop (first.length + 1)
    if first.length + 1 < buf.length then
      match cstr rest with
      | some s => .ok (first, s)
      | none => .error .invalidCString
    else .error .decodeMessage
  else .error .decodeMessage

/-- `ServerUtil::get_message_body`: (body, allocation size) or error -/
def getBody (hdrLen sub : Nat) (r : Bytes) : Except SrvErr (Bytes × Nat) :=
  if hdrLen < IN_HDR + sub then .error .invalidHeaderLength
  else
    let len := hdrLen - IN_HDR - sub
    if r.length < len then .error .decodeMessage else .ok (r.take len, len)

def attrBytes (a : Attr) : Bytes :=
  le64 a.ino ++ le64 a.size ++ le64 a.blocks ++ le64 a.atime ++ le64 a.mtime ++ le64 a.ctime ++
  le32 a.atimensec ++ le32 a.mtimensec ++ le32 a.ctimensec ++ le32 a.mode ++ le32 a.nlink ++
  le32 a.uid ++ le32 a.gid ++ le32 a.rdev ++ le32 a.blksize ++ le32 a.flags

def entryOutBytes (o : EntryOut) : Bytes :=
  le64 o.nodeid ++ le64 o.generation ++ le64 o.entryValid ++ le64 o.attrValid ++
  le32 o.entryValidNsec ++ le32 o.attrValidNsec ++ attrBytes o.attr

def attrOutBytes (secs nanos : Nat) (a : Attr) : Bytes :=
  le64 secs ++ le32 nanos ++ le32 0 ++ attrBytes a

def openOutBytes (fh : Option Nat) (opts : Nat) (pt : Option Nat) : Bytes :=
  le64 (fh.getD 0) ++ le32 opts ++ le32 (pt.getD 0)

def kstatfsBytes (k : Kstatfs) : Bytes :=
  le64 k.blocks ++ le64 k.bfree ++ le64 k.bavail ++ le64 k.files ++ le64 k.ffree ++
  le32 k.bsize ++ le32 k.namelen ++ le32 k.frsize ++ le32 0 ++ zeros 24

/-- decode the request-side `fuse_setattr_in` -/
def setattrOf (b : Bytes) : SetattrIn :=
  { valid := u32At b 0, fh := u64At b 8, size := u64At b 16, lockOwner := u64At b 24,
    atime := u64At b 32, mtime := u64At b 40, ctime := u64At b 48, atimensec := u32At b 56,
    mtimensec := u32At b 60, ctimensec := u32At b 64, mode := u32At b 68, uid := u32At b 76,
    gid := u32At b 80 }

/-! ### handler shapes shared by many opcodes -/

def FATTR_FH := 64
def GETATTR_FH := 1
def READ_LOCKOWNER := 2
def WRITE_CACHE := 1
def WRITE_LOCKOWNER := 2
def RELEASE_FLUSH := 1
def RELEASE_FLOCK_UNLOCK := 2
def SETATTR_VALID_MASK := 0x1 ||| 0x2 ||| 0x4 ||| 0x8 ||| 0x10 ||| 0x20 ||| 0x80 ||| 0x100 ||| 0x400 ||| 0x800
def RENAME_MASK := 1 ||| 2 ||| 4      -- RENAME_NOREPLACE | RENAME_EXCHANGE | RENAME_WHITEOUT

def INIT_EXT : Nat := 0x40000000
def BIG_WRITES : Nat := 0x20
def MAX_PAGES_FLAG : Nat := 0x400000
/-- all bits `FsOptions` knows (`from_bits_truncate`); pinned to the generated table in Thm.C12 -/
def FS_OPTIONS_ALL : Nat :=
  0x1 ||| 0x2 ||| 0x4 ||| 0x8 ||| 0x10 ||| 0x20 ||| 0x40 ||| 0x80 ||| 0x100 ||| 0x200 ||| 0x400 |||
  0x800 ||| 0x1000 ||| 0x2000 ||| 0x4000 ||| 0x8000 ||| 0x10000 ||| 0x20000 ||| 0x40000 ||| 0x80000 |||
  0x100000 ||| 0x200000 ||| 0x400000 ||| 0x800000 ||| 0x1000000 ||| 0x2000000 ||| 0x4000000 |||
  0x8000000 ||| 0x10000000 ||| 0x40000000 ||| 0x200000000 ||| 0x8000000000 ||| 0x8000000000000000

/-- a handler that ends in `reply_error(e)` (or `reply_error_explicit`) -/
def errRes (cfg : Cfg) (unique : Nat) (calls : List Call) (allocs : List Nat) (e : IoErr) : Res :=
  { calls := calls, out := (replyErr cfg unique e).1, ret := (replyErr cfg unique e).2,
    minor := cfg.minor, allocs := allocs }

/-- a handler that ends in `reply_ok(body, data)`; `minor` = negotiated version afterwards -/
def okRes (cfg : Cfg) (unique : Nat) (calls : List Call) (allocs : List Nat) (body data : Bytes)
    (minor : Nat) : Res :=
  { calls := calls, out := (replyOk cfg unique body data).1, ret := (replyOk cfg unique body data).2,
    minor := minor, allocs := allocs }

/-- result of the common tail `match fs.op(..) { Ok(x) => reply_ok(..), Err(e) => reply_error(e) }` -/
def finish (cfg : Cfg) (unique : Nat) (calls : List Call) (allocs : List Nat) (a : Ans)
    (okBody : Ans → Option (Bytes × Bytes)) : Res :=
  match a with
  | .err e => errRes cfg unique calls allocs e
  | a =>
    match okBody a with
    | some (body, data) => okRes cfg unique calls allocs body data cfg.minor
    -- the scripted answer has the wrong shape for this method: treated as ENOSYS by the double
    | none => errRes cfg unique calls allocs (.os ENOSYS)

def bail (cfg : Cfg) (calls : List Call) (allocs : List Nat) (e : SrvErr) : Res :=
  { calls := calls, ret := .err e, minor := cfg.minor, allocs := allocs }

/-- name decoding failed: `reply_error_explicit(EINVAL)` (result ignored) then `Err(InvalidCString)` -/
def badName (cfg : Cfg) (unique : Nat) (calls : List Call) (allocs : List Nat) : Res :=
  { errRes cfg unique calls allocs (.os EINVAL) with ret := .err .invalidCString }

def unitBody : Ans → Option (Bytes × Bytes)
  | .unit => some ([], [])
  | _ => none

def entryBody : Ans → Option (Bytes × Bytes)
  | .entry e => some (entryOutBytes (entryOutOfEntry e), [])
  | _ => none

def attrBody : Ans → Option (Bytes × Bytes)
  | .attr st secs nanos => some (attrOutBytes secs nanos (attrOfStat st), [])
  | _ => none

/-- one `cursor.write_all(chunk)`: refused as a whole when it does not fit the cursor; an
    empty chunk is not written at all; nothing is written after a failure -/
def pushChunk (cursorCap written : Nat) (acc : Bytes × Bool) (chunk : Bytes) : Bytes × Bool :=
  if acc.2 then acc
  else if chunk.isEmpty then acc
  else if written + acc.1.length + chunk.length > cursorCap then (acc.1, true)
  else (acc.1 ++ chunk, false)

def writeChunks (cursorCap written : Nat) (chunks : List Bytes) : Bytes × Bool :=
  chunks.foldl (pushChunk cursorCap written) ([], false)

/-- length of the record `add_dirent` accounts for: dirent + name padded to 8, plus the entry -/
def direntTotal (d : DirEnt) (e : Option Entry) : Nat :=
  let padded := (DIRENT + d.name.length + 7) / 8 * 8
  if e.isSome then padded + ENTRY_OUT else padded

/-- the four pieces written for one record: [EntryOut] Dirent name padding -/
def direntChunks (d : DirEnt) (e : Option Entry) : List Bytes :=
  let direntLen := DIRENT + d.name.length
  let padded := (direntLen + 7) / 8 * 8
  [ (match e with
     | some en => entryOutBytes (entryOutOfEntry en)
     | none => []),
    le64 d.ino ++ le64 d.off ++ le32 d.name.length ++ le32 d.type,
    d.name,
    zeros (padded - direntLen) ]

/-- `add_dirent`: returns (bytes appended, result) given the bytes already in the cursor and the
    cursor's capacity.  Result: `ok 0` = does not fit (accounted against the client's `size`),
    `ok n` = written, `err` = a cursor write failed (the cursor is smaller than `size`). -/
def addDirent (size cursorCap written : Nat) (d : DirEnt) (e : Option Entry) :
    Bytes × Except IoErr Nat :=
  if size - written < direntTotal d e then ([], .ok 0)
  else
    match writeChunks cursorCap written (direntChunks d e) with
    | (bs, true) => (bs, .error (.kind "InvalidData"))
    | (bs, false) => (bs, .ok (direntTotal d e))

/-- the file system's readdir loop over the scripted entries -/
def dirLoop (size cursorCap : Nat) (plus propagate : Bool) :
    List (DirEnt × Entry) → Bytes → Bytes × Option IoErr
  | [], acc => (acc, none)
  | (d, e) :: rest, acc =>
    let (bs, r) := addDirent size cursorCap acc.length d (if plus then some e else none)
    match r with
    | .ok 0 => (acc ++ bs, none)
    | .ok _ => dirLoop size cursorCap plus propagate rest (acc ++ bs)
    | .error er => (acc ++ bs, if propagate then some er else none)

/-! ### the dispatcher -/

def ctxOfHeader (h : Bytes) : Ctx := { uid := u32At h 24, gid := u32At h 28, pid := u32At h 32 }

def isForget (op : Nat) : Bool := op == 2 || op == 42

/-- opcodes for which the protocol expects an answer (everything but FORGET, BATCH_FORGET,
    INTERRUPT, NOTIFY_REPLY) -/
def needsReply (op : Nat) : Bool := !(op == 2 || op == 42 || op == 36 || op == 41)

/-- a reply sent through a writer that was split at the header (READ / READDIR): the header
    part holds exactly 16 bytes, so an error reply always fits -/
def splitErr (cfg : Cfg) (unique : Nat) (calls : List Call) (e : IoErr) (junk : Bytes) : Res :=
  let h := outHeader OUT_HDR (errField e) unique
  { calls := calls, ret := .ok OUT_HDR, minor := cfg.minor,
    out := if cfg.fusedev then { sys := [h] } else { area := h ++ junk } }

def splitOk (cfg : Cfg) (unique : Nat) (calls : List Call) (payload : Bytes) : Res :=
  let len := (OUT_HDR + payload.length) % 2 ^ 32
  { calls := calls, ret := .ok len, minor := cfg.minor,
    out := emit cfg (outHeader len 0 unique ++ payload) }

/-- READ, after `split_at(16)` succeeded: the file system writes into the data part -/
def readReply (cfg : Cfg) (unique : Nat) (calls : List Call) (a : Ans) : Res :=
  match a with
  | .data d =>
    if d.length > cfg.cap - OUT_HDR then splitErr cfg unique calls (.kind "InvalidData") []
    else splitOk cfg unique calls d
  | .err e => splitErr cfg unique calls e []
  | _ => splitErr cfg unique calls (.os ENOSYS) []

/-- READDIR(PLUS), after `split_at(16)` succeeded -/
def dirReply (cfg : Cfg) (unique : Nat) (calls : List Call) (size : Nat) (plus : Bool) (a : Ans) : Res :=
  match a with
  | .dirents ds propagate =>
    match dirLoop size (cfg.cap - OUT_HDR) plus propagate ds [] with
    | (payload, some e) => splitErr cfg unique calls e payload
    | (payload, none) => splitOk cfg unique calls payload
  | .err e => splitErr cfg unique calls e []
  | _ => splitErr cfg unique calls (.os ENOSYS) []

/-- LOOKUP: before protocol 7.4 a zero inode is not a valid negative entry -/
def lookupReply (cfg : Cfg) (unique : Nat) (calls : List Call) (al : List Nat) (a : Ans) : Res :=
  match a with
  | .entry e =>
    if cfg.minor < 4 && e.inode == 0 then errRes cfg unique calls al (.os ENOENT)
    else finish cfg unique calls al (.entry e) entryBody
  | a => finish cfg unique calls al a entryBody

/-- NOTIFY_REPLY: only an error is answered -/
def notifyReply (cfg : Cfg) (unique : Nat) (calls : List Call) (a : Ans) : Res :=
  match a with
  | .err e => errRes cfg unique calls [] e
  | _ => { calls := calls, ret := .ok 0, minor := cfg.minor }

/-! #### INIT negotiation -/

/-- the 64-bit capability word: `flags`, plus `flags2` when INIT_EXT is set and the extended
    payload is present; INIT_EXT itself is dropped when the payload is missing; truncated to
    the bits `FsOptions` knows -/
def initCapable (flags : Nat) (rest : Bytes) : Nat :=
  (if flags &&& INIT_EXT != 0 then
     if rest.length ≥ 48 then flags ||| (u32At rest 0 <<< 32)
     else flags &&& (2 ^ 64 - 1 - INIT_EXT)
   else flags) &&& FS_OPTIONS_ALL

/-- `enabled = capable & want` -/
def initEnabled (capable want : Nat) : Nat := capable &&& (want &&& FS_OPTIONS_ALL)

def initMaxWrite (cfg : Cfg) (enabled : Nat) : Nat :=
  if enabled &&& MAX_PAGES_FLAG != 0 then (MAX_REQ_PAGES * cfg.pagesize) % 2 ^ 32
  else if enabled &&& BIG_WRITES != 0 then (MAX_REQ_PAGES * cfg.pagesize) % 2 ^ 32
  else MIN_READ_BUFFER - BUFFER_HEADER_SIZE

def initMaxPages (enabled : Nat) : Nat := if enabled &&& MAX_PAGES_FLAG != 0 then MAX_REQ_PAGES else 0

/-- the 64-bit word whose halves become `flags` and `flags2`: the enabled set, plus the INIT_EXT
    marker whenever an extended bit is enabled -/
def initFlagsOut (enabled : Nat) : Nat :=
  if enabled >>> 32 != 0 then enabled ||| INIT_EXT else enabled

/-- the full 64-byte `fuse_init_out` -/
def initOutFull (cfg : Cfg) (readahead enabled : Nat) : Bytes :=
  le32 KERNEL_VERSION ++ le32 KERNEL_MINOR_VERSION ++ le32 readahead ++
  le32 (initFlagsOut enabled % 2 ^ 32) ++ le16 65535 ++ le16 49149 ++ le32 (initMaxWrite cfg enabled) ++ le32 1 ++
  le16 (initMaxPages enabled) ++ le16 0 ++ le32 (initFlagsOut enabled >>> 32) ++ zeros 28

/-- laid out for the client's minor version: 8 / 24 / 64 bytes -/
def initOutBody (cfg : Cfg) (minor readahead enabled : Nat) : Bytes :=
  if minor < 5 then (initOutFull cfg readahead enabled).take 8
  else if minor < 23 then (initOutFull cfg readahead enabled).take 24
  else initOutFull cfg readahead enabled

def initReply (cfg : Cfg) (unique : Nat) (calls : List Call) (minor readahead capable : Nat) (a : Ans) : Res :=
  match a with
  | .want w => okRes cfg unique calls [] (initOutBody cfg minor readahead (initEnabled capable w)) [] minor
  | .err e => errRes cfg unique calls [] e
  | _ => errRes cfg unique calls [] (.os ENOSYS)

/-- `Server::init`; `rest` = request bytes after `InitIn` -/
def initHandler (cfg : Cfg) (fs : Call → Ans) (unique : Nat) (calls0 : List Call) (rest b : Bytes) : Res :=
  if u32At b 0 < KERNEL_VERSION then errRes cfg unique calls0 [] (.os EPROTO)
  else if u32At b 0 > KERNEL_VERSION then
    okRes cfg unique calls0 [] (le32 KERNEL_VERSION ++ le32 KERNEL_MINOR_VERSION ++ zeros 56) [] cfg.minor
  else
    let capable := initCapable (u32At b 12) rest
    let c : Call := { method := "init", ctx := { uid := 0, gid := 0, pid := 0 }, args := [.n capable] }
    initReply cfg unique (calls0 ++ [c]) (u32At b 4) (u32At b 8) capable (fs c)

def mkCall (ctx : Ctx) (m : String) (args : List Arg) : Call := { method := m, ctx := ctx, args := args }

/-- call the file system once, then the common reply tail -/
def simple (cfg : Cfg) (fs : Call → Ans) (unique : Nat) (calls0 : List Call) (c : Call)
    (allocs : List Nat) (okb : Ans → Option (Bytes × Bytes)) : Res :=
  finish cfg unique (calls0 ++ [c]) allocs (fs c) okb

/-- `ctx.r.read_obj::<T>()` of an `n`-byte structure -/
def withObj (cfg : Cfg) (calls0 : List Call) (r : Bytes) (n : Nat) (k : Bytes → Res) : Res :=
  if r.length < n then bail cfg calls0 [] .decodeMessage else k (r.take n)

/-- `get_message_body(.., sub)` + `bytes_to_cstr` with the explicit-EINVAL error path -/
def named (cfg : Cfg) (unique : Nat) (calls0 : List Call) (hdrLen : Nat) (r : Bytes) (sub : Nat)
    (k : Bytes → List Nat → Res) : Res :=
  match getBody hdrLen sub (r.drop sub) with
  | .error e => bail cfg calls0 [] e
  | .ok (body, n) =>
    match cstr body with
    | none => badName cfg unique calls0 [n]
    | some name => k name [n]

def handleBody (cfg : Cfg) (fs : Call → Ans) (ctx : Ctx) (calls0 : List Call)
    (hdrLen op unique nodeid : Nat) (r : Bytes) : Res :=
  match op with
  | 1 => -- LOOKUP
    named cfg unique calls0 hdrLen r 0 fun name al =>
      let c := mkCall ctx "lookup" [.n nodeid, .bytes name]
      lookupReply cfg unique (calls0 ++ [c]) al (fs c)
  | 2 => -- FORGET (never replies)
    withObj cfg calls0 r 8 fun b =>
      { calls := calls0 ++ [mkCall ctx "forget" [.n nodeid, .n (u64At b 0)]], ret := .ok 0, minor := cfg.minor }
  | 3 => -- GETATTR
    withObj cfg calls0 r 16 fun b =>
      let fh := if u32At b 0 &&& GETATTR_FH != 0 then some (u64At b 8) else none
      simple cfg fs unique calls0 (mkCall ctx "getattr" [.n nodeid, .optN fh]) [] attrBody
  | 4 => -- SETATTR
    withObj cfg calls0 r 88 fun b =>
      let s := setattrOf b
      let fh := if s.valid &&& FATTR_FH != 0 then some s.fh else none
      simple cfg fs unique calls0 (mkCall ctx "setattr" [.n nodeid, .stat (statOfSetattr s), .optN fh, .n (s.valid &&& SETATTR_VALID_MASK)]) [] attrBody
  | 5 => -- READLINK
    simple cfg fs unique calls0 (mkCall ctx "readlink" [.n nodeid]) [] fun
      | .data d => some ([], d)
      | _ => none
  | 6 => -- SYMLINK
    match getBody hdrLen 0 r with
    | .error e => bail cfg calls0 [] e
    | .ok (body, n) =>
      match twoCstrs body with
      | .error e => bail cfg calls0 [n] e
      | .ok (name, link) => simple cfg fs unique calls0 (mkCall ctx "symlink" [.bytes link, .n nodeid, .bytes name]) [n] entryBody
  | 8 => -- MKNOD
    withObj cfg calls0 r 16 fun b => named cfg unique calls0 hdrLen r 16 fun name al =>
      simple cfg fs unique calls0 (mkCall ctx "mknod" [.n nodeid, .bytes name, .n (u32At b 0), .n (u32At b 4), .n (u32At b 8)]) al entryBody
  | 9 => -- MKDIR
    withObj cfg calls0 r 8 fun b => named cfg unique calls0 hdrLen r 8 fun name al =>
      simple cfg fs unique calls0 (mkCall ctx "mkdir" [.n nodeid, .bytes name, .n (u32At b 0), .n (u32At b 4)]) al entryBody
  | 10 => named cfg unique calls0 hdrLen r 0 fun name al => simple cfg fs unique calls0 (mkCall ctx "unlink" [.n nodeid, .bytes name]) al unitBody
  | 11 => named cfg unique calls0 hdrLen r 0 fun name al => simple cfg fs unique calls0 (mkCall ctx "rmdir" [.n nodeid, .bytes name]) al unitBody
  | 12 => -- RENAME
    withObj cfg calls0 r 8 fun b =>
      match getBody hdrLen 8 (r.drop 8) with
      | .error e => bail cfg calls0 [] e
      | .ok (body, n) =>
        match twoCstrs body with
        | .error e => bail cfg calls0 [n] e
        | .ok (o, nw) => simple cfg fs unique calls0 (mkCall ctx "rename" [.n nodeid, .bytes o, .n (u64At b 0), .bytes nw, .n 0]) [n] unitBody
  | 45 => -- RENAME2
    withObj cfg calls0 r 16 fun b =>
      match getBody hdrLen 16 (r.drop 16) with
      | .error e => bail cfg calls0 [] e
      | .ok (body, n) =>
        match twoCstrs body with
        | .error e => bail cfg calls0 [n] e
        | .ok (o, nw) =>
          simple cfg fs unique calls0 (mkCall ctx "rename" [.n nodeid, .bytes o, .n (u64At b 0), .bytes nw, .n (u32At b 8 &&& RENAME_MASK)]) [n] unitBody
  | 13 => -- LINK
    withObj cfg calls0 r 8 fun b => named cfg unique calls0 hdrLen r 8 fun name al =>
      simple cfg fs unique calls0 (mkCall ctx "link" [.n (u64At b 0), .n nodeid, .bytes name]) al entryBody
  | 14 => -- OPEN
    withObj cfg calls0 r 8 fun b =>
      simple cfg fs unique calls0 (mkCall ctx "open" [.n nodeid, .n (u32At b 0), .n (u32At b 4)]) [] fun
        | .opened fh opts pt => some (openOutBytes fh opts pt, [])
        | _ => none
  | 15 => -- READ
    withObj cfg calls0 r 40 fun b =>
      let owner := if u32At b 20 &&& READ_LOCKOWNER != 0 then some (u64At b 24) else none
      if cfg.cap < OUT_HDR then bail cfg calls0 [] .invalidHeaderLength
      else
        let c := mkCall ctx "read" [.n nodeid, .n (u64At b 0), .n (u32At b 16), .n (u64At b 8), .optN owner, .n (u32At b 32)]
        readReply cfg unique (calls0 ++ [c]) (fs c)
  | 16 => -- WRITE
    withObj cfg calls0 r 40 fun b =>
      let fuseFlags := u32At b 20
      let owner := if fuseFlags &&& WRITE_LOCKOWNER != 0 then some (u64At b 24) else none
      let size := u32At b 16
      let payload := (r.drop 40).take size
      simple cfg fs unique calls0 (mkCall ctx "write" [.n nodeid, .n (u64At b 0), .bytes payload, .n size, .n (u64At b 8), .optN owner,
                          .b (fuseFlags &&& WRITE_CACHE != 0), .n (u32At b 32), .n fuseFlags]) [] fun
        | .count n => some (le32 n ++ le32 0, [])
        | _ => none
  | 17 => -- STATFS
    simple cfg fs unique calls0 (mkCall ctx "statfs" [.n nodeid]) [] fun
      | .statfs s => some (kstatfsBytes (kstatfsOfStatvfs s), [])
      | _ => none
  | 18 => -- RELEASE
    withObj cfg calls0 r 24 fun b =>
      let rf := u32At b 12
      let flush := rf &&& RELEASE_FLUSH != 0
      let flock := rf &&& RELEASE_FLOCK_UNLOCK != 0
      let owner := if flush || flock then some (u64At b 16) else none
      simple cfg fs unique calls0 (mkCall ctx "release" [.n nodeid, .n (u32At b 8), .n (u64At b 0), .b flush, .b flock, .optN owner]) [] unitBody
  | 20 => -- FSYNC
    withObj cfg calls0 r 16 fun b =>
      simple cfg fs unique calls0 (mkCall ctx "fsync" [.n nodeid, .b (u32At b 8 &&& 1 != 0), .n (u64At b 0)]) [] unitBody
  | 21 => -- SETXATTR
    withObj cfg calls0 r 8 fun b =>
      match getBody hdrLen 8 (r.drop 8) with
      | .error e => bail cfg calls0 [] e
      | .ok (body, n) =>
        if !body.contains 0 then bail cfg calls0 [n] .missingParameter
        else
          let name := body.takeWhile (· != 0)
          let value := body.drop (name.length + 1)
          if u32At b 0 != value.length % 2 ^ 32 then bail cfg calls0 [n] .invalidXattrSize
          else simple cfg fs unique calls0 (mkCall ctx "setxattr" [.n nodeid, .bytes name, .bytes value, .n (u32At b 4)]) [n] unitBody
  | 22 => -- GETXATTR
    withObj cfg calls0 r 8 fun b => named cfg unique calls0 hdrLen r 8 fun name al =>
      simple cfg fs unique calls0 (mkCall ctx "getxattr" [.n nodeid, .bytes name, .n (u32At b 0)]) al fun
        | .data d => some ([], d)
        | .count n => some (le32 n ++ le32 0, [])
        | _ => none
  | 23 => -- LISTXATTR
    withObj cfg calls0 r 8 fun b =>
      simple cfg fs unique calls0 (mkCall ctx "listxattr" [.n nodeid, .n (u32At b 0)]) [] fun
        | .data d => some ([], d)
        | .count n => some (le32 n ++ le32 0, [])
        | _ => none
  | 24 => named cfg unique calls0 hdrLen r 0 fun name al => simple cfg fs unique calls0 (mkCall ctx "removexattr" [.n nodeid, .bytes name]) al unitBody
  | 25 => -- FLUSH
    withObj cfg calls0 r 24 fun b => simple cfg fs unique calls0 (mkCall ctx "flush" [.n nodeid, .n (u64At b 0), .n (u64At b 16)]) [] unitBody
  | 26 => -- INIT
    withObj cfg calls0 r 16 fun b => initHandler cfg fs unique calls0 (r.drop 16) b
  | 27 => -- OPENDIR
    withObj cfg calls0 r 8 fun b =>
      simple cfg fs unique calls0 (mkCall ctx "opendir" [.n nodeid, .n (u32At b 0)]) [] fun
        | .opened fh opts _ => some (openOutBytes fh opts none, [])
        | _ => none
  | 28 | 44 => -- READDIR / READDIRPLUS
    withObj cfg calls0 r 40 fun b =>
      let plus := op == 44
      let size := u32At b 16
      if cfg.cap < size + OUT_HDR then
        errRes cfg unique (calls0) [] (.os ENOMEM)
      else if cfg.cap < OUT_HDR then bail cfg calls0 [] .invalidHeaderLength
      else
        let c := mkCall ctx (if plus then "readdirplus" else "readdir") [.n nodeid, .n (u64At b 0), .n size, .n (u64At b 8)]
        dirReply cfg unique (calls0 ++ [c]) size plus (fs c)
  | 29 => -- RELEASEDIR
    withObj cfg calls0 r 24 fun b => simple cfg fs unique calls0 (mkCall ctx "releasedir" [.n nodeid, .n (u32At b 8), .n (u64At b 0)]) [] unitBody
  | 30 => -- FSYNCDIR
    withObj cfg calls0 r 16 fun b =>
      simple cfg fs unique calls0 (mkCall ctx "fsyncdir" [.n nodeid, .b (u32At b 8 &&& 1 != 0), .n (u64At b 0)]) [] unitBody
  | 31 => -- GETLK
    withObj cfg calls0 r 48 fun b =>
      simple cfg fs unique calls0 (mkCall ctx "getlk" [.n nodeid, .n (u64At b 0), .n (u64At b 8),
                          .lock (u64At b 16) (u64At b 24) (u32At b 32) (u32At b 36), .n (u32At b 40)]) [] fun
        | .lock s e t p => some (le64 s ++ le64 e ++ le32 t ++ le32 p, [])
        | _ => none
  | 32 => -- SETLK
    withObj cfg calls0 r 48 fun b =>
      simple cfg fs unique calls0 (mkCall ctx "setlk" [.n nodeid, .n (u64At b 0), .n (u64At b 8),
                          .lock (u64At b 16) (u64At b 24) (u32At b 32) (u32At b 36), .n (u32At b 40)]) [] unitBody
  | 33 => -- SETLKW
    withObj cfg calls0 r 48 fun b =>
      simple cfg fs unique calls0 (mkCall ctx "setlkw" [.n nodeid, .n (u64At b 0), .n (u64At b 8),
                           .lock (u64At b 16) (u64At b 24) (u32At b 32) (u32At b 36), .n (u32At b 40)]) [] unitBody
  | 34 => -- ACCESS
    withObj cfg calls0 r 8 fun b => simple cfg fs unique calls0 (mkCall ctx "access" [.n nodeid, .n (u32At b 0)]) [] unitBody
  | 35 => -- CREATE
    withObj cfg calls0 r 16 fun b => named cfg unique calls0 hdrLen r 16 fun name al =>
      simple cfg fs unique calls0 (mkCall ctx "create" [.n nodeid, .bytes name, .create (u32At b 0) (u32At b 4) (u32At b 8) (u32At b 12)]) al fun
        | .created e fh opts pt => some (entryOutBytes (entryOutOfEntry e), openOutBytes fh opts pt)
        | _ => none
  | 36 => { calls := calls0, ret := .ok 0, minor := cfg.minor }   -- INTERRUPT
  | 37 => -- BMAP
    withObj cfg calls0 r 16 fun b =>
      simple cfg fs unique calls0 (mkCall ctx "bmap" [.n nodeid, .n (u64At b 0), .n (u32At b 8)]) [] fun
        | .count n => some (le64 n, [])
        | _ => none
  | 38 => -- DESTROY: reply errors are only logged
    let c : Call := { method := "destroy", ctx := { uid := 0, gid := 0, pid := 0 }, args := [] }
    { okRes cfg unique (calls0 ++ [c]) [] [] [] cfg.minor with ret := .ok 0 }
  | 39 => -- IOCTL
    withObj cfg calls0 r 32 fun b =>
      let inSize := u32At b 24
      let rest := r.drop 32
      if inSize > rest.length then
        errRes cfg unique (calls0) [] (.os ENOTTY)
      else
        let d := rest.take inSize
        simple cfg fs unique calls0 (mkCall ctx "ioctl" [.n nodeid, .n (u64At b 0), .n (u32At b 8), .n (u32At b 12),
                            .optN (if d.isEmpty then none else some 1), .bytes d, .n (u32At b 28)]) [inSize] fun
          | .ioctl res data => some (le32 res ++ zeros 12, data.getD [])
          | _ => none
  | 40 => -- POLL
    withObj cfg calls0 r 24 fun b =>
      simple cfg fs unique calls0 (mkCall ctx "poll" [.n nodeid, .n (u64At b 0), .n (u64At b 8), .n (u32At b 16), .n (u32At b 20)]) [] fun
        | .count n => some (le32 n ++ le32 0, [])
        | _ => none
  | 41 => -- NOTIFY_REPLY
    let c : Call := { method := "notify_reply", ctx := { uid := 0, gid := 0, pid := 0 }, args := [] }
    notifyReply cfg unique (calls0 ++ [c]) (fs c)
  | 42 => -- BATCH_FORGET (never replies)
    withObj cfg calls0 r 8 fun b =>
      let count := u32At b 0
      if count * 16 > MAX_BUFFER_SIZE + BUFFER_HEADER_SIZE - 8 - IN_HDR then bail cfg calls0 [] .invalidMessage
      else
        let rest := r.drop 8
        if rest.length < count * 16 then bail cfg calls0 [count * 16] .decodeMessage
        else
          let items := (List.range count).map fun i => (u64At rest (16 * i), u64At rest (16 * i + 8))
          { calls := calls0 ++ [mkCall ctx "batch_forget" [.pairs items]], ret := .ok 0, minor := cfg.minor,
            allocs := [count * 16] }
  | 43 => -- FALLOCATE
    withObj cfg calls0 r 32 fun b =>
      simple cfg fs unique calls0 (mkCall ctx "fallocate" [.n nodeid, .n (u64At b 0), .n (u32At b 24), .n (u64At b 8), .n (u64At b 16)]) [] unitBody
  | 46 => -- LSEEK
    withObj cfg calls0 r 24 fun b =>
      simple cfg fs unique calls0 (mkCall ctx "lseek" [.n nodeid, .n (u64At b 0), .n (u64At b 8), .n (u32At b 16)]) [] fun
        | .count n => some (le64 n, [])
        | _ => none
  | 48 => -- SETUPMAPPING (virtio-fs DAX window)
    if !cfg.hasVuReq then
      errRes cfg unique (calls0) [] (.os EINVAL)
    else withObj cfg calls0 r 40 fun b =>
      simple cfg fs unique calls0 (mkCall ctx "setupmapping" [.n nodeid, .n (u64At b 0), .n (u64At b 8), .n (u64At b 16), .n (u64At b 24), .n (u64At b 32)]) [] unitBody
  | 49 => -- REMOVEMAPPING
    if !cfg.hasVuReq then
      errRes cfg unique (calls0) [] (.os EINVAL)
    else withObj cfg calls0 r 4 fun b =>
      let count := u32At b 0
      if count * 16 > MAX_BUFFER_SIZE then
        errRes cfg unique (calls0) [] (.os ENOMEM)
      else
        let rest := r.drop 4
        if rest.length < count * 16 then bail cfg calls0 [count * 16] .decodeMessage
        else
          let items := (List.range count).map fun i => (u64At rest (16 * i), u64At rest (16 * i + 8))
          simple cfg fs unique calls0 (mkCall ctx "removemapping" [.n nodeid, .pairs items]) [count * 16] unitBody
  | _ =>
    errRes cfg unique (calls0) [] (.os ENOSYS)

/-! ### notifications (server → kernel, /dev/fuse only) -/

/-- a notification is written piecewise into a buffered writer of capacity `cap` and committed
    with one `write`; any piece that does not fit fails the call before anything is sent -/
def notifyMsg (cap : Nat) (pieces : List Bytes) : Out × Ret :=
  match writeChunks cap 0 pieces with
  | (_, true) => ({}, .err .failedToWrite)
  | (bs, false) => (if bs.isEmpty then {} else { sys := [bs] }, .ok bs.length)

/-- `Server::notify_inval_entry(parent, name)`; `name` without the NUL -/
def notifyInvalEntry (cap parent : Nat) (name : Bytes) : Out × Ret :=
  notifyMsg cap [outHeader (OUT_HDR + 16 + (name.length + 1)) 3 0,
                 le64 parent ++ le32 name.length ++ le32 0, name ++ [0]]

/-- `Server::notify_inval_inode(ino, off, len)` -/
def notifyInvalInode (cap ino off len : Nat) : Out × Ret :=
  notifyMsg cap [outHeader (OUT_HDR + 24) 2 0, le64 ino ++ le64 off ++ le64 len]

/-- `Server::notify_resend()` -/
def notifyResend (cap : Nat) : Out × Ret :=
  notifyMsg cap [outHeader OUT_HDR 7 0]

def hdrLenOf (req : Bytes) : Nat := u32At req 0
def opOf (req : Bytes) : Nat := u32At req 4
def uniqueOf (req : Bytes) : Nat := u64At req 8
def nodeidOf (req : Bytes) : Nat := u64At req 16

/-- the per-request `id_remap_with_nodeid` call -/
def remapCall (req : Bytes) : Call := { method := "id_remap", ctx := ctxOfHeader req, args := [.n (nodeidOf req)] }

/-- the context the handlers see: the header's ids, possibly rewritten by the remap call -/
def ctxAfterRemap (req : Bytes) (a : Ans) : Ctx :=
  match a with
  | .remapSet u g => { ctxOfHeader req with uid := u, gid := g }
  | _ => ctxOfHeader req

/-- everything after the header has been read and the context remapped -/
def afterRemap (cfg : Cfg) (fs : Call → Ans) (req : Bytes) (a : Ans) : Res :=
  if hdrLenOf req > MAX_BUFFER_SIZE + BUFFER_HEADER_SIZE then
    if isForget (opOf req) then { calls := [remapCall req], ret := .err .invalidMessage, minor := cfg.minor }
    else errRes cfg (uniqueOf req) [remapCall req] [] (.os ENOMEM)
  else handleBody cfg fs (ctxAfterRemap req a) [remapCall req] (hdrLenOf req) (opOf req) (uniqueOf req)
         (nodeidOf req) (req.drop IN_HDR)

/-- `Server::handle_message` -/
def handle (cfg : Cfg) (fs : Call → Ans) (req : Bytes) : Res :=
  if req.length < IN_HDR then { ret := .err .decodeMessage, minor := cfg.minor }
  else
    match fs (remapCall req) with
    | .err _ => { calls := [remapCall req], ret := .err .failedToRemapID, minor := cfg.minor }
    | a => afterRemap cfg fs req a

end Fbr.Srv
