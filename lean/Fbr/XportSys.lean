/-
  Fbr.XportSys — the handle table on top of `Fbr.Xport`: readers / virtio writers / fusedev
  writers are created by the constructors and by `split_at`, and are addressed by creation index.
  `step` runs one public-API call on one handle; `run` a whole operation list.  This is what the
  driver executes and what the system-level theorems (any operation list) quantify over.
-/
import Fbr.Xport

namespace Fbr.Xport

inductive Op where
  | rd (h n : Nat)                                           -- Reader::read(&mut [u8; n])
  | ro (h n : Nat)                                           -- Reader::read_obj::<T>(), size_of T = n
  | rt (h count : Nat) (at_ : Option Nat) (sc : Script)      -- read_to / read_to_at
  | re (h count : Nat) (sc : Script)                         -- read_exact_to
  | rs (h k : Nat)                                           -- Reader::split_at
  | wr (h : Nat) (data : Bytes)                              -- VirtioFsWriter::write
  | wv (h : Nat) (datas : List Bytes)                        -- write_vectored
  | wf (h count : Nat) (at_ : Option Nat) (sc : Script)      -- write_from / write_from_at
  | wa (h count : Nat) (sc : Script)                         -- write_all_from
  | ws (h k : Nat)                                           -- split_at
  | wc (h : Nat) (o : Option Nat)                            -- commit
  | fw (h : Nat) (data : Bytes)                              -- FuseDevWriter::write
  | fv (h : Nat) (datas : List Bytes)
  | ff (h count : Nat) (at_ : Option Nat) (sc : Script)
  | fa (h count : Nat) (sc : Script)
  | fs (h k : Nat)
  | fc (h : Nat) (o : Option Nat)
  deriving Inhabited

structure St where
  w : World
  readers : List IoBufs
  writers : List IoBufs
  fws : List FuseW

/-- what one call lets the caller observe -/
structure Obs where
  valid : Bool := true              -- the handle exists
  res : Except IoErr Nat := .ok 0   -- `Ok(())` is shown as `Ok(0)`
  bytes : Bytes := []               -- bytes returned / delivered to the sink
  offered : List (List Seg) := []   -- buffers handed to the scripted file, per call
  avail : Nat := 0                  -- counters of the handle after the call
  used : Nat := 0
  other : Option (Nat × Nat) := none  -- counters of the handle created by a split
  fd : List Bytes := []             -- records that reached the fuse descriptor during the call

def unitRes (r : Except IoErr Unit) : Except IoErr Nat :=
  match r with
  | .ok () => .ok 0
  | .error e => .error e

def setAt {α : Type} (l : List α) (i : Nat) (x : α) : List α := l.set i x

def obsOf {α β : Type} (o : Out α β) (res : Except IoErr Nat) (bytes : Bytes) (offered : List (List Seg)) : Obs :=
  { res := res, bytes := bytes, offered := offered, avail := o.b.available, used := o.b.consumed }

def fobsOf {α β : Type} (o : FOut α β) (res : Except IoErr Nat) (offered : List (List Seg)) (fd0 : Nat) : Obs :=
  { res := res, offered := offered, avail := o.f.availableBytes, used := o.f.bytesWritten,
    fd := o.w.fd.drop fd0 }

def step (st : St) (op : Op) : St × Obs :=
  match op with
  | .rd h n =>
    match st.readers[h]? with
    | none => (st, { valid := false })
    | some b =>
      let o := Reader.read b st.w n
      ({ st with w := o.w, readers := setAt st.readers h o.b }, obsOf o o.res o.aux [])
  | .ro h n =>
    match st.readers[h]? with
    | none => (st, { valid := false })
    | some b =>
      let o := Reader.readObj b st.w n
      ({ st with w := o.w, readers := setAt st.readers h o.b },
       obsOf o (unitRes o.res) (match o.res with | .ok () => o.aux | .error _ => []) [])
  | .rt h count at_ sc =>
    match st.readers[h]? with
    | none => (st, { valid := false })
    | some b =>
      let o := Reader.readTo b st.w sc count at_.isSome
      ({ st with w := o.w, readers := setAt st.readers h o.b }, obsOf o o.res o.aux.got o.aux.offered)
  | .re h count sc =>
    match st.readers[h]? with
    | none => (st, { valid := false })
    | some b =>
      let o := Reader.readExactTo (count + sc.answers.length + 1) b st.w sc count
      ({ st with w := o.w, readers := setAt st.readers h o.b }, obsOf o (unitRes o.res) o.aux.got o.aux.offered)
  | .rs h k =>
    match st.readers[h]? with
    | none => (st, { valid := false })
    | some b =>
      match b.splitAt k with
      | .error e => (st, { res := .error e, avail := b.available, used := b.consumed })
      | .ok (a, o) =>
        ({ st with readers := setAt st.readers h a ++ [o] },
         { avail := a.available, used := a.consumed, other := some (o.available, o.consumed) })
  | .wr h data =>
    match st.writers[h]? with
    | none => (st, { valid := false })
    | some b =>
      let o := VirtioW.write b st.w data
      ({ st with w := o.w, writers := setAt st.writers h o.b }, obsOf o o.res [] [])
  | .wv h datas =>
    match st.writers[h]? with
    | none => (st, { valid := false })
    | some b =>
      let o := VirtioW.writeVectored b st.w datas
      ({ st with w := o.w, writers := setAt st.writers h o.b }, obsOf o o.res [] [])
  | .wf h count at_ sc =>
    match st.writers[h]? with
    | none => (st, { valid := false })
    | some b =>
      let o := VirtioW.writeFrom b st.w sc count at_
      ({ st with w := o.w, writers := setAt st.writers h o.b }, obsOf o o.res [] o.aux.offered)
  | .wa h count sc =>
    match st.writers[h]? with
    | none => (st, { valid := false })
    | some b =>
      let o := VirtioW.writeAllFrom b st.w sc count
      ({ st with w := o.w, writers := setAt st.writers h o.b }, obsOf o (unitRes o.res) [] o.aux.offered)
  | .ws h k =>
    match st.writers[h]? with
    | none => (st, { valid := false })
    | some b =>
      match b.splitAt k with
      | .error e => (st, { res := .error e, avail := b.available, used := b.consumed })
      | .ok (a, o) =>
        ({ st with writers := setAt st.writers h a ++ [o] },
         { avail := a.available, used := a.consumed, other := some (o.available, o.consumed) })
  | .wc h o =>
    match st.writers[h]? with
    | none => (st, { valid := false })
    | some b =>
      (st, { res := VirtioW.commit b (o.bind fun i => st.writers[i]?), avail := b.available, used := b.consumed })
  | .fw h data =>
    match st.fws[h]? with
    | none => (st, { valid := false })
    | some f =>
      let o := FuseW.write f st.w data
      ({ st with w := o.w, fws := setAt st.fws h o.f }, fobsOf o o.res [] st.w.fd.length)
  | .fv h datas =>
    match st.fws[h]? with
    | none => (st, { valid := false })
    | some f =>
      let o := FuseW.writeVectored f st.w datas
      ({ st with w := o.w, fws := setAt st.fws h o.f }, fobsOf o o.res [] st.w.fd.length)
  | .ff h count at_ sc =>
    match st.fws[h]? with
    | none => (st, { valid := false })
    | some f =>
      let o := FuseW.writeFrom f st.w sc count at_
      ({ st with w := o.w, fws := setAt st.fws h o.f }, fobsOf o o.res o.aux.offered st.w.fd.length)
  | .fa h count sc =>
    match st.fws[h]? with
    | none => (st, { valid := false })
    | some f =>
      let o := FuseW.writeAllFrom f st.w sc count
      ({ st with w := o.w, fws := setAt st.fws h o.f }, fobsOf o (unitRes o.res) o.aux.offered st.w.fd.length)
  | .fs h k =>
    match st.fws[h]? with
    | none => (st, { valid := false })
    | some f =>
      match f.splitAt k with
      | .error e => (st, { res := .error e, avail := f.availableBytes, used := f.bytesWritten })
      | .ok (a, o) =>
        ({ st with fws := setAt st.fws h a ++ [o] },
         { avail := a.availableBytes, used := a.bytesWritten, other := some (o.availableBytes, o.bytesWritten) })
  | .fc h o =>
    match st.fws[h]? with
    | none => (st, { valid := false })
    | some f =>
      let (r, w1) := FuseW.commit f st.w (o.bind fun i => st.fws[i]?)
      ({ st with w := w1 }, { res := r, avail := f.availableBytes, used := f.bytesWritten, fd := w1.fd.drop st.w.fd.length })

def run (st : St) : List Op → St × List Obs
  | [] => (st, [])
  | op :: rest =>
    let (st1, o) := step st op
    let (st2, os) := run st1 rest
    (st2, o :: os)

/-- the final state only -/
def exec (st : St) : List Op → St
  | [] => st
  | op :: rest => exec (step st op).1 rest

end Fbr.Xport
