/-
  Fbr.PtRefsShow — parsing of `ptrefs` case lines (one whole history per line) and canonical
  printing of the model's per-step observations.  Inode numbers and handles are referred to by
  first-occurrence index (`i3`, `h0`) on both sides; an index that does not exist yet denotes a
  number the server never handed out.
-/
import Fbr.Proto
import Fbr.PtRefs

namespace Fbr.PtRefsShow
open Fbr.Proto Fbr.PtRefs

def bogus (k : Nat) : Nat := 2 ^ 60 + k

structure Reg where
  inos : Array Nat := #[ROOT_ID]
  hnds : Array Nat := #[]

def Reg.ino (r : Reg) (k : Nat) : Nat := if h : k < r.inos.size then r.inos[k] else bogus k
def Reg.hnd (r : Reg) (k : Nat) : Nat := if h : k < r.hnds.size then r.hnds[k] else bogus k

def idxOf (a : Array Nat) (v : Nat) : Option Nat :=
  (List.range a.size).find? fun i => a[i]! == v

/-- index of an inode number, registering it at first occurrence -/
def Reg.noteIno (r : Reg) (v : Nat) : Reg × Nat :=
  match idxOf r.inos v with
  | some i => (r, i)
  | none => ({ r with inos := r.inos.push v }, r.inos.size)

def Reg.noteHnd (r : Reg) (v : Nat) : Reg × Nat :=
  match idxOf r.hnds v with
  | some i => (r, i)
  | none => ({ r with hnds := r.hnds.push v }, r.hnds.size)

def dropPrefix (s : String) (n : Nat) : String := String.ofList (s.toList.drop n)

def natOf (s : String) : Nat := s.toNat?.getD 0

/-- `i<k>` / `h<k>` -/
def refIdx (s : String) : Nat := natOf (String.ofList ((s.toList.drop 1).filter (· != '*')))

/-- a trailing `*` on an inode reference: the host file is gone (`ESTALE` when opened by handle) -/
def refStale (s : String) : Bool := s.toList.contains '*' 

def mkId (d : Nat) : InodeId := { ino := d, dev := 0, mnt := 0 }

/-- `e<errno>` | `f<id>/<fh|->/<s|u>` -/
def parseAns (s : String) : HAns :=
  if s.startsWith "e" then .err (natOf (dropPrefix s 1))
  else
    match (dropPrefix s 1).splitOn "/" with
    | [i, fh, sf] =>
      let hf : HFile := { id := mkId (natOf i), fh := (if fh == "-" then none else some (natOf fh)), safe := sf == "s" || sf == "d", dir := sf == "d" }
      .ok hf
    | _ => .err 0

def parseEnt (s : String) : DEnt :=
  if s == "." then .dot
  else
    match s.splitOn "~" with
    | [_, a] => .name (parseAns a)
    | _ => .dot

def parseList (s : String) : Except Errno (List DEnt) :=
  if s.startsWith "e" then .error (natOf (dropPrefix s 1))
  else if s.isEmpty || s == "-" then .ok []
  else .ok ((s.splitOn ",").map parseEnt)

def parsePairs (r : Reg) (s : String) : List (Ino × Nat) :=
  if s.isEmpty || s == "-" then []
  else (s.splitOn ",").map fun p =>
    match p.splitOn "/" with
    | [i, n] => (r.ino (refIdx i), natOf n)
    | _ => (0, 0)

def parseCr (s : String) : CreateAns :=
  if s == "c" then .created else if s == "x" then .exists else .err (natOf (dropPrefix s 1))

/-- parse one op (without the `!k` suffix) against the current registry -/
def parseOp (r : Reg) (s : String) : Option Op :=
  match s.splitOn ":" with
  | ["L", p, _, a] => some (.lookup (r.ino (refIdx p)) (refStale p) (parseAns a))
  | ["F", i, n] => some (.forget (r.ino (refIdx i)) (natOf n))
  | ["B", l] => some (.batchForget (parsePairs r l))
  | ["MD", p, _, hr, a] => some (.mkdir (r.ino (refIdx p)) (refStale p) (natOf hr) (parseAns a))
  | ["SL", p, _, hr, a] => some (.mkdir (r.ino (refIdx p)) (refStale p) (natOf hr) (parseAns a))
  | ["MN", p, _, hr, a] => some (.mknod (r.ino (refIdx p)) (refStale p) (natOf hr) (parseAns a))
  | ["LN", i, p, _, hr, a] =>
    some (.link (r.ino (refIdx i)) (refStale i) (r.ino (refIdx p)) (refStale p) (natOf hr) (parseAns a))
  | ["CR", p, _, x, cr, a, ohr] =>
    some (.create (r.ino (refIdx p)) (refStale p) (x == "x1") (parseCr cr) (parseAns a) (natOf ohr))
  | ["O", i, _, hr] => some (.open (r.ino (refIdx i)) (natOf hr))
  | ["OD", i, hr] => some (.opendir (r.ino (refIdx i)) (natOf hr))
  | ["R", i, h] => some (.release (r.ino (refIdx i)) (r.hnd (refIdx h)))
  | ["RD", i, h] => some (.releasedir (r.ino (refIdx i)) (r.hnd (refIdx h)))
  | ["RP", i, h, dhr, lst, fit, tl] =>
    some (.readdirplus (r.ino (refIdx i)) (r.hnd (refIdx h)) (natOf dhr) (parseList lst) (natOf fit)
      (if tl == "err" then .err else .full))
  | ["G", i, h, hr] =>
    some (.getattr (r.ino (refIdx i)) (if h == "-" then none else some (r.hnd (refIdx h))) (natOf hr))
  | ["RN", p1, _, p2, _, hr] =>
    some (.rename (r.ino (refIdx p1)) (refStale p1) (r.ino (refIdx p2)) (refStale p2) (natOf hr))
  | ["UL", p, _, hr] => some (.unlink (r.ino (refIdx p)) (refStale p) (natOf hr))
  | ["D", a] => some (.destroy (parseAns a))
  | ["I", a] => some (.init (parseAns a))
  | _ => none

def showRes (r : Reg) : Res → Reg × String
  | .err e => (r, s!"e{e}")
  | .ok => (r, "ok")
  | .entry i => let (r, k) := r.noteIno i; (r, s!"ok:i{k}")
  | .entryH i h =>
    let (r, k) := r.noteIno i
    match h with
    | none => (r, s!"ok:i{k}:-")
    | some hh => let (r, j) := r.noteHnd hh; (r, s!"ok:i{k}:h{j}")
  | .handle h => let (r, j) := r.noteHnd h; (r, s!"ok:h{j}")
  | .ents [] (some e) => (r, s!"e{e}")
  | .ents l er =>
    let (r, parts) := l.foldl (fun (acc : Reg × List String) (p : Ino × Bool) =>
      let (r, k) := acc.1.noteIno p.1
      (r, (s!"i{k}" ++ (if p.2 then "+" else "-")) :: acc.2)) (r, [])
    let tail := match er with
      | none => "ok"
      | some e => s!"e{e}"
    (r, "ents[" ++ ",".intercalate parts.reverse ++ "]:" ++ tail)

def showObs (r : Reg) (s : St) : String :=
  let bits := String.ofList (r.inos.toList.map fun i => if (mget s.data i).isSome then '1' else '0')
  let m := if s.mountRefs > 0 then 1 else 0
  s!"{bits}|{s.data.length},{s.byId.length},{s.byHandle.length},{s.handles.length},{s.cookies.length},{m}|{s.fds}"

def parseCfg (s : String) : Env :=
  let kv := (s.splitOn ",").map fun t =>
    match t.splitOn ":" with
    | [k, v] => (k, v)
    | _ => ("", "")
  let flag := fun k => kv.lookup k == some "1"
  { useHostIno := flag "hi", noOpen := flag "no", noOpendir := flag "nod", failAt := fun _ => false }

/-- run one history line -/
def runLine (line : String) : String :=
  let kv := tokens line
  let e := parseCfg (getD kv "cfg")
  let ops := (getD kv "ops").splitOn ";"
  let init : St × Reg × List String := (St.fresh, {}, [])
  let (_, _, outs) := ops.foldl (fun (acc : St × Reg × List String) (tok : String) =>
    let (s, r, outs) := acc
    if tok.isEmpty then acc else
    let (body, hd) := match tok.splitOn "!" with
      | [b, k] => (b, some (natOf k))
      | _ => (tok, none)
    match parseOp r body with
    | none => (s, r, "parse-error" :: outs)
    | some op =>
      let (s, res) := stepCap e s hd op
      let (r, rs) := showRes r res
      (s, r, (rs ++ "|" ++ showObs r s) :: outs)) init
  ";".intercalate outs.reverse

end Fbr.PtRefsShow
