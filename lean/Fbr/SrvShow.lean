/-
  Fbr.SrvShow — parsing of `srv` case lines into (Cfg, scripted fs, request) and canonical
  printing of `Srv.Res`.  Shared by the sync and async drivers.
-/
import Fbr.Proto
import Fbr.Srv
import Fbr.SrvAsync

namespace Fbr.SrvShow
open Fbr.Proto Fbr.Srv Fbr.Conv Fbr.Wire

def showOptN : Option Nat → String
  | none => "none"
  | some n => s!"some:{n}"

def showStatArg (s : Stat) : String :=
  s!"st[{s.ino},{s.size},{s.blocks},{s.atime},{s.mtime},{s.ctime},{s.atimeNsec},{s.mtimeNsec},{s.ctimeNsec},{s.mode},{s.nlink},{s.uid},{s.gid},{s.rdev},{s.blksize}]"

def showArg : Arg → String
  | .n v => toString v
  | .optN v => showOptN v
  | .b v => if v then "t" else "f"
  | .bytes v => "x" ++ hex v
  | .stat s => showStatArg s
  | .pairs l => "p[" ++ ",".intercalate (l.map fun (a, b) => s!"{a}:{b}") ++ "]"
  | .create f m u ff => s!"cr[{f},{m},{u},{ff}]"
  | .lock s e t p => s!"lk[{s},{e},{t},{p}]"

def showCall (c : Call) : String :=
  s!"{c.method}({c.ctx.uid},{c.ctx.gid},{c.ctx.pid}" ++ String.join (c.args.map fun a => "|" ++ showArg a) ++ ")"

def showErr : SrvErr → String
  | .decodeMessage => "DecodeMessage" | .encodeMessage => "EncodeMessage"
  | .missingParameter => "MissingParameter" | .invalidCString => "InvalidCString"
  | .invalidHeaderLength => "InvalidHeaderLength" | .invalidXattrSize => "InvalidXattrSize"
  | .invalidMessage => "InvalidMessage" | .failedToWrite => "FailedToWrite"
  | .failedToSplitWriter => "FailedToSplitWriter" | .failedToRemapID => "FailedToRemapID"

def showRet : Ret → String
  | .ok n => s!"ok:{n}"
  | .err e => "err:" ++ showErr e
  | .panic s => "panic:" ++ s

def fill (i : Nat) : UInt8 := UInt8.ofNat ((i * 31 + 7) % 256)

/-- content of the writable area as ranges that differ from the fill pattern -/
def areaDiff (area : Bytes) : String :=
  let (ranges, cur, start, _) := area.foldl
    (fun (st : List (Nat × List UInt8) × List UInt8 × Nat × Nat) v =>
      let (rs, cur, start, i) := st
      if v != fill i then
        if cur.isEmpty then (rs, [v], i, i + 1) else (rs, v :: cur, start, i + 1)
      else
        if cur.isEmpty then (rs, cur, start, i + 1) else ((start, cur.reverse) :: rs, [], 0, i + 1))
    ([], [], 0, 0)
  let ranges := if cur.isEmpty then ranges else (start, cur.reverse) :: ranges
  ",".intercalate (ranges.reverse.map fun (o, b) => s!"{o}:{hex b}")

def showRes (r : Res) : String :=
  "calls=" ++ ";".intercalate (r.calls.map showCall) ++
  " sys=" ++ ",".intercalate (r.out.sys.map hex) ++
  " area=" ++ areaDiff r.out.area ++
  " ret=" ++ showRet r.ret

def showARes (r : SrvAsync.ARes) : String :=
  "calls=" ++ ";".intercalate (r.calls.map showCall) ++
  -- the harness observes the concatenation of everything written to the (append-mode) fd
  " sys=" ++ hex (r.out.sys.foldl (· ++ ·) []) ++
  " area=" ++ areaDiff r.out.area ++
  " ret=" ++ showRet r.ret

def optNOf (s : String) : Option Nat := if s == "none" || s.isEmpty then none else s.toNat?

def readStatK (kv : List (String × String)) : Stat :=
  { ino := getNatD kv "st_ino", size := getNatD kv "st_size", blocks := getNatD kv "st_blocks",
    atime := getNatD kv "st_atime", mtime := getNatD kv "st_mtime", ctime := getNatD kv "st_ctime",
    atimeNsec := getNatD kv "st_atimensec", mtimeNsec := getNatD kv "st_mtimensec",
    ctimeNsec := getNatD kv "st_ctimensec", mode := getNatD kv "st_mode", nlink := getNatD kv "st_nlink",
    uid := getNatD kv "st_uid", gid := getNatD kv "st_gid", rdev := getNatD kv "st_rdev",
    blksize := getNatD kv "st_blksize" }

def readEntryK (kv : List (String × String)) : Entry :=
  { inode := getNatD kv "e_ino", generation := getNatD kv "e_gen", attr := readStatK kv,
    attrFlags := getNatD kv "e_flags", attrSecs := getNatD kv "e_asec", attrNanos := getNatD kv "e_ansec",
    entrySecs := getNatD kv "e_esec", entryNanos := getNatD kv "e_ensec" }

def readDirents (kv : List (String × String)) : List (DirEnt × Entry) :=
  let base := readEntryK kv
  let s := getD kv "ents"
  if s.isEmpty then [] else
  (s.splitOn ",").filterMap fun item =>
    match item.splitOn ":" with
    | [nm, ino, off, ty] =>
      match unhex nm, ino.toNat?, off.toNat?, ty.toNat? with
      | some n, some i, some o, some t =>
        some ({ ino := i, off := o, type := t, name := n },
              { base with inode := i, attr := { base.attr with ino := i } })
      | _, _, _, _ => none
    | _ => none

def readStatvfsK (kv : List (String × String)) : Statvfs :=
  { blocks := getNatD kv "sv_blocks", bfree := getNatD kv "sv_bfree",
    bavail := getNatD kv "sv_bavail", files := getNatD kv "sv_files", ffree := getNatD kv "sv_ffree",
    bsize := getNatD kv "sv_bsize", namemax := getNatD kv "sv_namemax", frsize := getNatD kv "sv_frsize" }

def readAns (kv : List (String × String)) : Ans :=
  match getD kv "ans" with
  | "err" => .err (.os (getNatD kv "errno"))
  | "errkind" => .err (.kind (getD kv "kind"))
  | "unit" => .unit
  | "entry" => .entry (readEntryK kv)
  | "attr" => .attr (readStatK kv) (getNatD kv "t_sec") (getNatD kv "t_nsec")
  | "data" => .data ((unhex (getD kv "data")).getD [])
  -- the double returns `OpenOptions::from_bits_truncate(opts)`: five known bits
  | "opened" => .opened (optNOf (getD kv "fh")) (getNatD kv "opts" &&& 31) (optNOf (getD kv "pt"))
  | "created" => .created (readEntryK kv) (optNOf (getD kv "fh")) (getNatD kv "opts" &&& 31) (optNOf (getD kv "pt"))
  | "count" => .count (getNatD kv "count")
  | "statfs" => .statfs (readStatvfsK kv)
  | "lock" => .lock (getNatD kv "lk_start") (getNatD kv "lk_end") (getNatD kv "lk_type") (getNatD kv "lk_pid")
  | "ioctl" => .ioctl (getNatD kv "io_res")
      (if getD kv "io_data" == "none" then none else some ((unhex (getD kv "io_data")).getD []))
  | "want" => .want (getNatD kv "want")
  | "dirents" => .dirents (readDirents kv) (getNatD kv "prop" == 1)
  | _ => .err (.os ENOSYS)

def readRemap (kv : List (String × String)) : Ans :=
  match (getD kv "remap" "ok").splitOn ":" with
  | ["err"] => .err (.os 1)
  | ["set", u, g] => .remapSet (u.toNat?.getD 0) (g.toNat?.getD 0)
  | _ => .unit

def mkFs (kv : List (String × String)) : Call → Ans :=
  let a := readAns kv
  let rm := readRemap kv
  fun c => if c.method == "id_remap" then rm
           else if c.method == "destroy" then .unit
           else a

def readCfg (kv : List (String × String)) : Cfg :=
  { fusedev := getD kv "t" == "fusedev", cap := getNatD kv "cap",
    minor := getNatD kv "pre_minor" 33, hasVuReq := getNatD kv "vu" == 1, pagesize := 4096 }

/-- guest pages (4 KiB) touched by the first `n` bytes of the writable area, whose descriptors
    are `(address, length)` in chain order — what dirty tracking must report (C17) -/
def dirtyPages (segs : List (Nat × Nat)) (n : Nat) : List Nat :=
  let (_, pages) := segs.foldl (fun (acc : Nat × List Nat) (a, l) =>
    let (rem, ps) := acc
    let k := min rem l
    if k == 0 then (rem, ps)
    else (rem - k, ps ++ (List.range ((a + k - 1) / 4096 - a / 4096 + 1)).map (· + a / 4096))) (n, [])
  (pages.foldl (fun acc p => if acc.contains p then acc else acc ++ [p]) []).mergeSort (· ≤ ·)

def readWaddr (s : String) : List (Nat × Nat) :=
  if s.isEmpty then [] else
  (s.splitOn ",").filterMap fun it =>
    match it.splitOn ":" with
    | [a, l] => match a.toNat?, l.toNat? with
      | some x, some y => some (x, y)
      | _, _ => none
    | _ => none

def runNotify (kv : List (String × String)) : String :=
  let cap := getNatD kv "cap"
  let (o, r) := match getD kv "notify" with
    | "entry" => notifyInvalEntry cap (getNatD kv "parent") ((unhex (getD kv "name")).getD [])
    | "inode" => notifyInvalInode cap (getNatD kv "ino") (getNatD kv "off") (getNatD kv "len")
    | _ => notifyResend cap
  "sys=" ++ ",".intercalate (o.sys.map hex) ++ " ret=" ++ showRet r

def runLine (line : String) (async : Bool) : String :=
  let kv := tokens line
  if (get kv "notify").isSome then runNotify kv else
  match unhex (getD kv "req") with
  | none => "bad-case"
  | some req =>
    let cfg := readCfg kv
    let fs := mkFs kv
    if async then showARes (SrvAsync.handle cfg fs req)
    else
      let r := Srv.handle cfg fs req
      showRes r ++ " dirty=" ++ showNatList (dirtyPages (readWaddr (getD kv "waddr")) r.out.area.length)

end Fbr.SrvShow
